(* Model of the schema statement renderers: TableBuilder (src/backend/table_builder.rs), IndexBuilder
   (index_builder.rs), ForeignKeyBuilder (foreign_key_builder.rs) with the MySQL, Postgres and SQLite
   overrides (src/backend/{mysql,postgres,sqlite}/{table,index,foreign_key}.rs), and the Postgres
   TypeBuilder / ExtensionBuilder (src/backend/postgres/{types,extension}.rs).
   One script-producing function per prepare_* method, written in the shape of the Rust code; WPanic
   where the code panics.  Column type names are NOT transcribed: they come from Generated/ColTypes.v,
   which is produced by executing the code (harness --dump coltypes) on every run. *)
Require Import SQV.Model.Str SQV.Model.Escape SQV.Model.Value SQV.Model.Literal SQV.Model.Expr
  SQV.Model.Cond SQV.Model.Stmt SQV.Model.Build SQV.Model.Writer SQV.Model.RenderExpr SQV.Model.RenderStmt
  SQV.Model.Schema SQV.Generated.ColTypes.
From Coq Require Import String.
Open Scope list_scope.

(* ---- the generated column type table ---- *)
Definition backend_key (b : backend) : N := match b with MySQL => 0 | Postgres => 1 | SQLite => 2 end.

Definition template := list (str + N).
Definition coltype_row (b : backend) (shape : N) (autoinc : bool) : option (template * option N * option N) :=
  match find (fun r : N * N * bool * option (template * option N * option N) =>
                (fst (fst (fst r)) =? backend_key b) && (snd (fst (fst r)) =? shape) &&
                Bool.eqb (snd (fst r)) autoinc) coltype_rows with
  | Some r => snd r
  | None => None
  end.

(* u32 Display of the parameters substituted into the template *)
Definition inst_template (t : template) (p : N * N) : str :=
  flat_map (fun x : str + N => match x with
                               | inl s => s
                               | inr i => dec_of_N (if i =? 0 then fst p else snd p)
                               end) t.
Definition within (lim : option N) (v : N) : bool :=
  match lim with Some m => v <=? m | None => true end.

(* the text written for a table-driven column type; None where the code panics *)
Definition type_text (b : backend) (autoinc : bool) (shape : N) (p : N * N) : option str :=
  match coltype_row b shape autoinc with
  | Some (t, l1, l2) => if within l1 (fst p) && within l2 (snd p) then Some (inst_template t p) else None
  | None => None
  end.

Definition autoinc_keyword (b : backend) : str :=
  match find (fun r : N * str => fst r =? backend_key b) autoinc_keyword_rows with
  | Some r => snd r
  | None => []
  end.

Definition opt_script {A} (o : option A) (f : A -> script) : script :=
  match o with Some x => f x | None => [] end.

(* MySQL: the ENUM type text, labels escaped with escape_string and joined by quote-comma-space-quote *)
Definition mysql_enum_text (variants : list str) : str :=
  K "ENUM('" ++ join_with (K "', '") (map (escape_string MySQL) variants) ++ K "')".

Section DDL.
Variable is_alpha : N -> bool.
Variable b : backend.
Variable T : etables.
Variable rq : query -> script.

Definition dex (e : expr query) : script := rexpr query rq is_alpha b T false e.

(* prepare_column_type (+ the auto-increment substitutions of Postgres / SQLite, selected by `autoinc`) *)
Fixpoint rcoltype (autoinc : bool) (ct : coltype) {struct ct} : script :=
  let table_text := match type_text b autoinc (ct_shape ct) (ct_params ct) with
                    | Some s => [WS s]
                    | None => [WPanic]
                    end in
  match coltype_row b (ct_shape ct) autoinc with
  | None => [WPanic]
  | Some _ =>
      match ct with
      | CTCustom name => [WCust name]                                   (* iden.to_string() *)
      | CTEnum name variants =>
          match b with
          | MySQL => [WS (mysql_enum_text variants)]
          | Postgres => [WCust name]
          | SQLite => table_text
          end
      | CTArray elem =>
          match b with
          | Postgres => rcoltype false elem ++ wss "[]"
          | _ => table_text
          end
      | _ => table_text
      end
  end.

(* prepare_table_ref_table_stmt *)
Definition rtable_ref_table_stmt (t : tref) : script :=
  match t with
  | TPlain (TRTable x) => rtplain (TRTable x)
  | TPlain (TRSchemaTable s x) => rtplain (TRSchemaTable s x)
  | TPlain (TRDbSchemaTable d s x) => rtplain (TRDbSchemaTable d s x)
  | _ => [WPanic]
  end.

(* prepare_table_ref_index_stmt *)
Definition rtable_ref_index_stmt (t : tref) : script :=
  match t with
  | TPlain (TRTable x) => rtplain (TRTable x)
  | TPlain (TRSchemaTable s x) => match b with Postgres => rtplain (TRSchemaTable s x) | _ => [WPanic] end
  | _ => [WPanic]
  end.

(* prepare_table_ref_fk_stmt *)
Definition rtable_ref_fk_stmt (t : tref) : script :=
  match t with
  | TPlain (TRTable x) => rtplain (TRTable x)
  | TPlain (TRSchemaTable s x) => match b with Postgres => rtplain (TRSchemaTable s x) | _ => [WPanic] end
  | TPlain (TRDbSchemaTable d s x) => match b with Postgres => rtplain (TRDbSchemaTable d s x) | _ => [WPanic] end
  | _ => [WPanic]
  end.

(* prepare_check_constraint *)
Definition rcheck (e : expr query) : script := wss "CHECK (" ++ dex e ++ wss ")".

(* prepare_generated_column *)
Definition rgenerated (e : expr query) (stored : bool) : script :=
  wss "GENERATED ALWAYS AS (" ++ dex e ++ wss ")" ++ (if stored then wss " STORED" else wss " VIRTUAL").

(* column_comment *)
Definition rcolumn_comment (c : str) : script :=
  match b with
  | MySQL => [WS (K "COMMENT '" ++ escape_string MySQL c ++ K "'")]
  | _ => []
  end.

(* prepare_column_spec *)
Definition rcolumn_spec (s : colspec) : script :=
  match s with
  | CSNull => wss "NULL"
  | CSNotNull => wss "NOT NULL"
  | CSDefault e => wss "DEFAULT " ++ dex e
  | CSAutoIncrement => [WS (autoinc_keyword b)]
  | CSUniqueKey => wss "UNIQUE"
  | CSPrimaryKey => wss "PRIMARY KEY"
  | CSCheck e => rcheck e
  | CSGenerated e stored => rgenerated e stored
  | CSExtra s => [WCust s]
  | CSComment c => rcolumn_comment c
  | CSUsing _ => []
  end.

Definition is_pk (s : colspec) : bool := match s with CSPrimaryKey => true | _ => false end.
Definition is_comment (s : colspec) : bool := match s with CSComment _ => true | _ => false end.

(* prepare_column_def *)
Definition rcolumn_def (c : coldef) : script :=
  match b with
  | MySQL =>
      [WId (cd_name c)] ++
      opt_script (cd_type c) (fun t => wss " " ++ rcoltype false t) ++
      flat_map (fun s => wss " " ++ rcolumn_spec s) (cd_spec c)
  | Postgres =>
      (* prepare_column_def_common with prepare_column_type_check_auto_increment *)
      [WId (cd_name c)] ++
      opt_script (cd_type c) (fun t => wss " " ++ rcoltype (has_autoinc c) t) ++
      flat_map (fun s => if is_autoinc s || is_comment s then [] else wss " " ++ rcolumn_spec s) (cd_spec c)
  | SQLite =>
      [WId (cd_name c)] ++
      opt_script (cd_type c) (fun t => wss " " ++ rcoltype (has_autoinc c) t) ++
      flat_map (fun s => if is_pk s || is_autoinc s || is_comment s then [] else wss " " ++ rcolumn_spec s)
               (cd_spec c) ++
      (if existsb is_pk (cd_spec c) then wss " " ++ rcolumn_spec CSPrimaryKey else []) ++
      (if existsb is_autoinc (cd_spec c) then wss " " ++ rcolumn_spec CSAutoIncrement else [])
  end.

(* ---- IndexBuilder ---- *)
Definition is_fulltext (t : option indextype) : bool :=
  match t with Some ITFullText => true | _ => false end.

(* prepare_index_prefix *)
Definition rindex_prefix (x : indexcreate) : script :=
  match b with
  | MySQL => (if ix_primary x then wss "PRIMARY " else []) ++ (if ix_unique x then wss "UNIQUE " else []) ++
             (if is_fulltext (ix_type x) then wss "FULLTEXT " else [])
  | Postgres => (if ix_primary x then wss "PRIMARY KEY " else []) ++ (if ix_unique x then wss "UNIQUE " else [])
  | SQLite => if ix_primary x then wss "PRIMARY KEY " else if ix_unique x then wss "UNIQUE " else []
  end.

(* write_column_index_prefix *)
Definition rcolumn_index_prefix (p : option N) : script :=
  match b with
  | SQLite => []
  | _ => opt_script p (fun n => [WS (K " (" ++ dec_of_N n ++ K ")")])
  end.

(* prepare_index_columns *)
Definition rindex_columns (cols : list indexcol) : script :=
  wss "(" ++
  sep_by comma (map (fun c : indexcol =>
    [WId (ic_name c)] ++ rcolumn_index_prefix (ic_prefix c) ++
    opt_script (ic_order c) (fun o => match o with IOAsc => wss " ASC" | IODesc => wss " DESC" end)) cols) ++
  wss ")".

(* prepare_index_type *)
Definition rindex_type (t : option indextype) : script :=
  match b with
  | MySQL =>
      match t with
      | Some ITBTree => wss " USING " ++ wss "BTREE"
      | Some ITHash => wss " USING " ++ wss "HASH"
      | Some (ITCustom c) => wss " USING " ++ [WCust c]
      | Some ITFullText | None => []
      end
  | Postgres =>
      match t with
      | Some ITBTree => wss " USING " ++ wss "BTREE"
      | Some ITFullText => wss " USING " ++ wss "GIN"
      | Some ITHash => wss " USING " ++ wss "HASH"
      | Some (ITCustom c) => wss " USING " ++ [WCust c]
      | None => []
      end
  | SQLite => []
  end.

(* prepare_filter *)
Definition rfilter (h : holder query) : script :=
  match b with
  | MySQL => []
  | _ => rholder is_alpha b T rq "WHERE" h
  end.

(* Postgres: prepare_include_columns *)
Definition rinclude_columns (cols : list str) : script :=
  wss "INCLUDE (" ++ sep_by comma (map (fun c => [WId c]) cols) ++ wss ")".

(* prepare_table_index_expression *)
Definition rtable_index_expression (x : indexcreate) : script :=
  let idx := ix_index x in
  match b with
  | MySQL =>
      rindex_prefix x ++ wss "KEY " ++
      opt_script (ti_name idx) (fun n => [WId n] ++ wss " ") ++
      rindex_type (ix_type x) ++
      (if is_fulltext (ix_type x) then wss " " else []) ++
      rindex_columns (ti_columns idx)
  | Postgres =>
      opt_script (ti_name idx) (fun n => wss "CONSTRAINT " ++ [WId n] ++ wss " ") ++
      rindex_prefix x ++
      (if ix_nulls_not_distinct x then wss "NULLS NOT DISTINCT " else []) ++
      rindex_columns (ti_columns idx) ++
      (match ix_include x with [] => [] | cols => wss " " ++ rinclude_columns cols end)
  | SQLite =>
      opt_script (ti_name idx) (fun n => wss "CONSTRAINT " ++ [WId n] ++ wss " ") ++
      rindex_prefix x ++
      rindex_columns (ti_columns idx) ++
      rfilter (ix_where x)
  end.

(* prepare_index_create_statement *)
Definition rindex_create (x : indexcreate) : script :=
  let idx := ix_index x in
  match b with
  | MySQL =>
      wss "CREATE " ++ rindex_prefix x ++ wss "INDEX " ++
      opt_script (ti_name idx) (fun n => [WId n]) ++
      wss " ON " ++ opt_script (ix_table x) rtable_ref_index_stmt ++
      wss " " ++ rindex_columns (ti_columns idx) ++ rindex_type (ix_type x)
  | Postgres =>
      wss "CREATE " ++ rindex_prefix x ++ wss "INDEX " ++
      (if ix_if_not_exists x then wss "IF NOT EXISTS " else []) ++
      opt_script (ti_name idx) (fun n => [WId n]) ++
      wss " ON " ++ opt_script (ix_table x) rtable_ref_index_stmt ++
      rindex_type (ix_type x) ++ wss " " ++ rindex_columns (ti_columns idx) ++
      (match ix_include x with [] => [] | cols => wss " " ++ rinclude_columns cols end) ++
      (if ix_nulls_not_distinct x then wss " NULLS NOT DISTINCT" else []) ++
      rfilter (ix_where x)
  | SQLite =>
      wss "CREATE " ++ rindex_prefix x ++ wss "INDEX " ++
      (if ix_if_not_exists x then wss "IF NOT EXISTS " else []) ++
      opt_script (ti_name idx) (fun n => [WId n]) ++
      wss " ON " ++ opt_script (ix_table x) rtable_ref_index_stmt ++
      wss " " ++ rindex_columns (ti_columns idx) ++ rfilter (ix_where x)
  end.

(* prepare_index_drop_statement *)
Definition rindex_drop (d : indexdrop) : script :=
  let name := opt_script (ti_name (ixd_index d)) (fun n => [WId n]) in
  match b with
  | MySQL =>
      wss "DROP INDEX " ++ (if ixd_if_exists d then [WPanic] else []) ++ name ++
      wss " ON " ++ opt_script (ixd_table d) rtable_ref_index_stmt
  | Postgres =>
      wss "DROP INDEX " ++ (if ixd_if_exists d then wss "IF EXISTS " else []) ++
      opt_script (ixd_table d) (fun t => match t with
                                         | TPlain (TRTable _) => []
                                         | TPlain (TRSchemaTable s _) => [WId s] ++ wss "."
                                         | _ => [WPanic]
                                         end) ++
      name
  | SQLite =>
      wss "DROP INDEX " ++ (if ixd_if_exists d then wss "IF EXISTS " else []) ++ name
  end.

(* ---- ForeignKeyBuilder ---- *)
Inductive fkmode := MCreation | MAlter | MTableAlter.
Definition is_alter (m : fkmode) : bool := match m with MAlter => true | _ => false end.
Definition is_creation (m : fkmode) : bool := match m with MCreation => true | _ => false end.

(* prepare_foreign_key_action *)
Definition rfk_action (a : fkaction) : script :=
  match a with
  | FKRestrict => wss "RESTRICT" | FKCascade => wss "CASCADE" | FKSetNull => wss "SET NULL"
  | FKNoAction => wss "NO ACTION" | FKSetDefault => wss "SET DEFAULT"
  end.

Definition rid_list (cols : list str) : script := sep_by comma (map (fun c => [WId c]) cols).

Definition rfk_actions (f : tablefk) : script :=
  opt_script (fk_on_delete f) (fun a => wss " ON DELETE " ++ rfk_action a) ++
  opt_script (fk_on_update f) (fun a => wss " ON UPDATE " ++ rfk_action a).

(* prepare_foreign_key_create_statement_internal *)
Definition rfk_create_internal (f : tablefk) (mode : fkmode) : script :=
  match b with
  | MySQL =>
      (if is_alter mode then wss "ALTER TABLE " ++ opt_script (fk_table f) rtable_ref_fk_stmt ++ wss " " else []) ++
      (if negb (is_creation mode) then wss "ADD " else []) ++
      wss "CONSTRAINT " ++ opt_script (fk_name f) (fun n => [WId n]) ++ wss " FOREIGN KEY " ++
      wss "(" ++ rid_list (fk_columns f) ++ wss ")" ++
      wss " REFERENCES " ++ opt_script (fk_ref_table f) rtable_ref_fk_stmt ++ wss " " ++
      wss "(" ++ rid_list (fk_ref_columns f) ++ wss ")" ++ rfk_actions f
  | Postgres =>
      (if is_alter mode then wss "ALTER TABLE " ++ opt_script (fk_table f) rtable_ref_fk_stmt ++ wss " " else []) ++
      (if negb (is_creation mode) then wss "ADD " else []) ++
      opt_script (fk_name f) (fun n => wss "CONSTRAINT " ++ [WId n] ++ wss " ") ++
      wss "FOREIGN KEY (" ++ rid_list (fk_columns f) ++ wss ")" ++
      wss " REFERENCES " ++ opt_script (fk_ref_table f) rtable_ref_fk_stmt ++ wss " " ++
      wss "(" ++ rid_list (fk_ref_columns f) ++ wss ")" ++ rfk_actions f
  | SQLite =>
      if negb (is_creation mode) then [WPanic] else
      wss "FOREIGN KEY (" ++ rid_list (fk_columns f) ++ wss ")" ++
      wss " REFERENCES " ++ opt_script (fk_ref_table f) rtable_ref_fk_stmt ++
      wss " (" ++ rid_list (fk_ref_columns f) ++ wss ")" ++ rfk_actions f
  end.

(* prepare_foreign_key_drop_statement_internal *)
Definition rfk_drop_internal (d : fkdrop) (mode : fkmode) : script :=
  let name := opt_script (fk_name (fkd_fk d)) (fun n => [WId n]) in
  match b with
  | MySQL =>
      (if is_alter mode then wss "ALTER TABLE " ++ opt_script (fkd_table d) rtable_ref_fk_stmt ++ wss " " else []) ++
      wss "DROP FOREIGN KEY " ++ name
  | Postgres =>
      (if is_alter mode then wss "ALTER TABLE " ++ opt_script (fkd_table d) rtable_ref_fk_stmt ++ wss " " else []) ++
      wss "DROP CONSTRAINT " ++ name
  | SQLite =>
      if negb (is_creation mode) then [WPanic] else wss "DROP FOREIGN KEY " ++ name
  end.

(* ---- TableBuilder ---- *)

(* prepare_table_opt_def *)
Definition rtable_opt_def (c : tablecreate) : script :=
  flat_map (fun o => wss " " ++
                     match o with
                     | TOEngine s => wss "ENGINE=" ++ [WCust s]
                     | TOCollate s => wss "COLLATE=" ++ [WCust s]
                     | TOCharacterSet s => wss "DEFAULT CHARSET=" ++ [WCust s]
                     end) (tc_options c).

(* prepare_table_opt *)
Definition rtable_opt (c : tablecreate) : script :=
  match b with
  | MySQL => opt_script (tc_comment c) (fun s => [WS (K " COMMENT '" ++ escape_string MySQL s ++ K "'")]) ++
             rtable_opt_def c
  | _ => rtable_opt_def c
  end.

(* the elements between the parentheses of CREATE TABLE, in the order the code emits them *)
Definition tc_elements (c : tablecreate) : list script :=
  map rcolumn_def (tc_columns c) ++
  map rtable_index_expression (tc_indexes c) ++
  map (fun f => rfk_create_internal f MCreation) (tc_foreign_keys c) ++
  map rcheck (tc_check c).

(* prepare_table_create_statement *)
Definition rtable_create_head (c : tablecreate) : script :=
  wss "CREATE " ++ (if tc_temporary c then wss "TEMPORARY " else []) ++ wss "TABLE " ++
  (if tc_if_not_exists c then wss "IF NOT EXISTS " else []) ++
  opt_script (tc_table c) rtable_ref_table_stmt.
Definition rtable_create_tail (c : tablecreate) : script :=
  rtable_opt c ++ opt_script (tc_extra c) (fun e => wss " " ++ [WCust e]).
Definition rtable_create (c : tablecreate) : script :=
  rtable_create_head c ++ wss " ( " ++ sep_by comma (tc_elements c) ++ wss " )" ++ rtable_create_tail c.

(* Postgres ModifyColumn: the fold over the specs with its `first` flag; specifications without an ALTER
   action write nothing and leave the flag alone; USING is written with ALTER COLUMN .. TYPE *)
Definition pg_no_action (s : colspec) : bool :=
  match s with CSAutoIncrement | CSGenerated _ _ | CSComment _ | CSUsing _ => true | _ => false end.
Fixpoint pg_modify_specs (name : str) (first : bool) (specs : list colspec) : script :=
  match specs with
  | [] => []
  | s :: rest =>
      if pg_no_action s then pg_modify_specs name first rest else
      (if negb first then wss ", " else []) ++
      (match s with
       | CSNull => wss "ALTER COLUMN " ++ [WId name] ++ wss " DROP NOT NULL"
       | CSNotNull => wss "ALTER COLUMN " ++ [WId name] ++ wss " SET NOT NULL"
       | CSDefault e => wss "ALTER COLUMN " ++ [WId name] ++ wss " SET DEFAULT " ++ dex e
       | CSUniqueKey => wss "ADD UNIQUE (" ++ [WId name] ++ wss ")"
       | CSPrimaryKey => wss "ADD PRIMARY KEY (" ++ [WId name] ++ wss ")"
       | CSCheck e => wss "ADD " ++ rcheck e
       | CSExtra x => [WCust x]
       | CSAutoIncrement | CSGenerated _ _ | CSComment _ | CSUsing _ => []
       end) ++
      pg_modify_specs name false rest
  end.
Definition pg_modify_using (specs : list colspec) : script :=
  flat_map (fun s => match s with CSUsing e => wss " USING " ++ dex e | _ => [] end) specs.

Definition ralter_option (o : alteropt) : script :=
  match o with
  | AOAddColumn c ine =>
      match b with
      | SQLite => wss "ADD COLUMN " ++ rcolumn_def c
      | _ => wss "ADD COLUMN " ++ (if ine then wss "IF NOT EXISTS " else []) ++ rcolumn_def c
      end
  | AOModifyColumn c =>
      match b with
      | MySQL => wss "MODIFY COLUMN " ++ rcolumn_def c
      | Postgres =>
          opt_script (cd_type c) (fun t => wss "ALTER COLUMN " ++ [WId (cd_name c)] ++ wss " TYPE " ++
                                           rcoltype false t ++ pg_modify_using (cd_spec c)) ++
          pg_modify_specs (cd_name c) (match cd_type c with None => true | Some _ => false end) (cd_spec c)
      | SQLite => [WPanic]
      end
  | AORenameColumn x y => wss "RENAME COLUMN " ++ [WId x] ++ wss " TO " ++ [WId y]
  | AODropColumn x => wss "DROP COLUMN " ++ [WId x]
  | AODropForeignKey name =>
      match b with
      | SQLite => [WPanic]
      | _ => rfk_drop_internal {| fkd_fk := fk_step fk_new (FKName name); fkd_table := None |} MTableAlter
      end
  | AOAddForeignKey f =>
      match b with
      | SQLite => [WPanic]
      | _ => rfk_create_internal f MTableAlter
      end
  end.

(* prepare_table_alter_statement *)
Definition rtable_alter (a : tablealter) : script :=
  match ta_options a with
  | [] => [WPanic]
  | o0 :: rest =>
      match b, rest with
      | SQLite, _ :: _ => [WPanic]
      | _, _ =>
          wss "ALTER TABLE " ++
          opt_script (ta_table a) (fun t => rtable_ref_table_stmt t ++ wss " ") ++
          sep_by comma (map ralter_option (ta_options a))
      end
  end.

(* prepare_table_drop_statement *)
Definition rtable_drop (d : tabledrop) : script :=
  wss "DROP TABLE " ++ (if td_if_exists d then wss "IF EXISTS " else []) ++
  sep_by comma (map rtable_ref_table_stmt (td_tables d)) ++
  flat_map (fun o => match b with
                     | SQLite => []
                     | _ => match o with DORestrict => wss " RESTRICT" | DOCascade => wss " CASCADE" end
                     end) (td_options d).

(* prepare_table_rename_statement *)
Definition rtable_rename (r : tablerename) : script :=
  match b with
  | MySQL => wss "RENAME TABLE " ++ opt_script (tr_from r) rtable_ref_table_stmt ++ wss " TO " ++
             opt_script (tr_to r) rtable_ref_table_stmt
  | _ => wss "ALTER TABLE " ++ opt_script (tr_from r) rtable_ref_table_stmt ++ wss " RENAME TO " ++
         opt_script (tr_to r) rtable_ref_table_stmt
  end.

(* prepare_table_truncate_statement *)
Definition rtable_truncate (t : tabletruncate) : script :=
  match b with
  | SQLite => [WPanic]
  | _ => wss "TRUNCATE TABLE " ++ opt_script (tt_table t) rtable_ref_table_stmt
  end.

(* ---- Postgres TypeBuilder / ExtensionBuilder ---- *)
Definition rtype_ref (t : typeref) : script :=
  match t with
  | TyType n => [WId n]
  | TySchemaType s n => [WId s] ++ wss "." ++ [WId n]
  | TyDbSchemaType d s n => [WId d] ++ wss "." ++ [WId s] ++ wss "." ++ [WId n]
  end.
(* prepare_value(&name.to_string().into()) *)
Definition rstring_value (s : str) : script := [WVal (V TString (Some (PStr s)))].

Definition rtype_create (c : typecreate) : script :=
  wss "CREATE TYPE " ++ opt_script (tyc_name c) rtype_ref ++
  opt_script (tyc_as c) (fun a => wss " AS " ++ match a with TAEnum => wss "ENUM" end) ++
  (match tyc_values c with
   | [] => []
   | vs => wss " (" ++ sep_by comma (map rstring_value vs) ++ wss ")"
   end).

Definition rtype_drop (d : typedrop) : script :=
  wss "DROP TYPE " ++ (if tyd_if_exists d then wss "IF EXISTS " else []) ++
  sep_by comma (map rtype_ref (tyd_names d)) ++
  opt_script (tyd_option d) (fun o => wss " " ++ match o with DOCascade => wss "CASCADE" | DORestrict => wss "RESTRICT" end).

Definition rtype_alter (a : typealter) : script :=
  wss "ALTER TYPE " ++ opt_script (tya_name a) rtype_ref ++
  opt_script (tya_option a) (fun o =>
    match o with
    | TAAdd value placement ine =>
        wss " ADD VALUE " ++ (if ine then wss "IF NOT EXISTS " else []) ++ rstring_value value ++
        opt_script placement (fun p => match p with
                                       | TABefore v => wss " BEFORE " ++ rstring_value v
                                       | TAAfter v => wss " AFTER " ++ rstring_value v
                                       end)
    | TARename n => wss " RENAME TO " ++ rstring_value n
    | TARenameValue x y => wss " RENAME VALUE " ++ rstring_value x ++ wss " TO " ++ rstring_value y
    end).

Definition rext_create (c : extcreate) : script :=
  wss "CREATE EXTENSION " ++ (if exc_if_not_exists c then wss "IF NOT EXISTS " else []) ++
  [WCust (exc_name c)] ++
  opt_script (exc_schema c) (fun s => wss " WITH SCHEMA " ++ [WCust s]) ++
  opt_script (exc_version c) (fun s => wss " VERSION " ++ [WCust s]) ++
  (if exc_cascade c then wss " CASCADE" else []).

Definition rext_drop (d : extdrop) : script :=
  wss "DROP EXTENSION " ++ (if exd_if_exists d then wss "IF EXISTS " else []) ++ [WCust (exd_name d)] ++
  (if exd_cascade d then wss " CASCADE" else []) ++ (if exd_restrict d then wss " RESTRICT" else []).

(* every public statement entry point; TypeBuilder / ExtensionBuilder exist for Postgres only *)
Definition rddl_gen (d : ddl) : script :=
  match d with
  | DTableCreate c => rtable_create c
  | DTableAlter a => rtable_alter a
  | DTableDrop x => rtable_drop x
  | DTableRename r => rtable_rename r
  | DTableTruncate t => rtable_truncate t
  | DIndexCreate c => rindex_create c
  | DIndexDrop x => rindex_drop x
  | DForeignKeyCreate f => rfk_create_internal f MAlter
  | DForeignKeyDrop x => rfk_drop_internal x MAlter
  | DTypeCreate c => match b with Postgres => rtype_create c | _ => [WPanic] end
  | DTypeAlter a => match b with Postgres => rtype_alter a | _ => [WPanic] end
  | DTypeDrop x => match b with Postgres => rtype_drop x | _ => [WPanic] end
  | DExtensionCreate c => match b with Postgres => rext_create c | _ => [WPanic] end
  | DExtensionDrop x => match b with Postgres => rext_drop x | _ => [WPanic] end
  end.
End DDL.

(* sub-queries inside DEFAULT / CHECK / GENERATED / WHERE expressions go through the statement renderer *)
Definition rddl (is_alpha : N -> bool) (b : backend) (T : etables) (fuel : nat) (d : ddl) : script :=
  rddl_gen is_alpha b T (rquery is_alpha b T fuel) d.
