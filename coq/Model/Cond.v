(* Model of src/query/condition.rs: Condition::add / add_option / not, IntoCondition for SimpleExpr,
   ConditionHolder::add_condition (merge / wrap rules), Condition::to_simple_expr. *)
Require Import SQV.Model.Str SQV.Model.Value SQV.Model.Expr.

Section WithQ.
Variable Q : Type.
Notation expr := (expr Q).
Notation cond := (cond Q).
Notation cmember := (cmember Q).
Notation holder := (holder Q).

Definition cond_any : cond := Cond false true [].
Definition cond_all : cond := Cond false false [].

(* Condition::add: a non-negated condition with exactly one member is replaced by that member *)
Definition unwrap_single (m : cmember) : cmember :=
  match m with
  | MCond (Cond false _ [x]) => x
  | _ => m
  end.
Definition cond_add (c : cond) (m : cmember) : cond :=
  match c with Cond n a ms => Cond n a (ms ++ [unwrap_single m]) end.

Definition cond_add_option (c : cond) (m : option cmember) : cond :=
  match m with Some x => cond_add c x | None => c end.

Definition cond_not (c : cond) : cond :=
  match c with Cond n a ms => Cond (negb n) a ms end.

(* impl IntoCondition for SimpleExpr: Condition::all().add(self) *)
Definition expr_into_condition (e : expr) : cond := cond_add cond_all (MExpr e).

(* ConditionHolder::add_condition *)
Definition holder_add (h : holder) (addition : cond) : holder :=
  match h with
  | HEmpty => HCond addition
  | HChain _ => h       (* the code panics ("Cannot mix `and_where`/`or_where` and `cond_where`"): the case language never mixes the two *)
  | HCond current =>
      match current with
      | Cond false false cms =>          (* current is a non-negated ALL *)
          match addition with
          | Cond false false ams => HCond (Cond false false (cms ++ ams))
          | _ => HCond (cond_add current (MCond addition))
          end
      | _ => HCond (cond_add (cond_add cond_all (MCond current)) (MCond addition))
      end
  end.

(* ConditionHolder::add_and_or (and_or_where) *)
Definition holder_add_chain (h : holder) (is_or : bool) (e : expr) : holder :=
  match h with
  | HEmpty => HChain [(is_or, e)]
  | HChain ms => HChain (ms ++ [(is_or, e)])
  | HCond _ => h        (* the code panics: never mixed *)
  end.

Definition true_value : value := V TBool (Some (PBool true)).
Definition false_value : value := V TBool (Some (PBool false)).

(* left fold with AND / OR over the member expressions *)
Definition fold_binop (op : binop) (first : expr) (rest : list expr) : expr :=
  fold_left (fun acc e => EBinary acc op e) rest first.

(* Condition::to_simple_expr *)
Fixpoint to_simple_expr (c : cond) : expr :=
  match c with
  | Cond negate is_any ms =>
      let inner := map (fun m => match m with MCond c' => to_simple_expr c' | MExpr e => e end) ms in
      let e := match inner with
               | [] => EConstant (if is_any then false_value else true_value)
               | first :: rest => fold_binop (if is_any then BOr else BAnd) first rest
               end in
      if negate then ENot e else e
  end.
End WithQ.

Arguments unwrap_single {Q}. Arguments cond_any {Q}. Arguments cond_all {Q}. Arguments cond_add {Q}. Arguments cond_add_option {Q}.
Arguments cond_not {Q}. Arguments expr_into_condition {Q}. Arguments holder_add {Q}. Arguments holder_add_chain {Q}.
Arguments to_simple_expr {Q}. Arguments fold_binop {Q}.
