(* The per-backend table records used by the renderer, built from the rows regenerated from the
   code (Generated/ExprTables.v; option-more-parentheses variant: Generated/ExprTablesMore.v). *)
Require Import SQV.Model.Str SQV.Model.Escape SQV.Model.RenderExpr
  SQV.Generated.ExprTables SQV.Generated.ExprTablesMore.

Definition lookup_paren (rows : list (N * N * bool)) (sk ok : N) : bool :=
  existsb (fun r => (fst (fst r) =? sk) && (snd (fst r) =? ok) && snd r) rows.
Definition lookup_opt (rows : list (N * option str)) (k : N) : option str :=
  match find (fun r => fst r =? k) rows with Some r => snd r | None => None end.

Definition mk_tables (paren : list (N * N * bool)) (lassoc : list N)
  (binops funcs sqops : list (N * option str)) : etables :=
  {| t_drop_paren := lookup_paren paren;
     t_lassoc := fun k => mem_N k lassoc;
     t_binop := lookup_opt binops;
     t_func := lookup_opt funcs;
     t_sqop := lookup_opt sqops |}.

(* more = built with feature option-more-parentheses *)
Definition tables_of (more : bool) (b : backend) : etables :=
  match b, more with
  | MySQL, false => mk_tables drop_paren_rows_my lassoc_rows_my binop_rows_my func_rows_my sqop_rows_my
  | Postgres, false => mk_tables drop_paren_rows_pg lassoc_rows_pg binop_rows_pg func_rows_pg sqop_rows_pg
  | SQLite, false => mk_tables drop_paren_rows_sl lassoc_rows_sl binop_rows_sl func_rows_sl sqop_rows_sl
  | MySQL, true => mk_tables drop_paren_rows_my_more lassoc_rows_my_more binop_rows_my func_rows_my sqop_rows_my
  | Postgres, true => mk_tables drop_paren_rows_pg_more lassoc_rows_pg_more binop_rows_pg func_rows_pg sqop_rows_pg
  | SQLite, true => mk_tables drop_paren_rows_sl_more lassoc_rows_sl_more binop_rows_sl func_rows_sl sqop_rows_sl
  end.
