"""Generators of schema-statement builder programs (case language of harness/src/ddl.rs), properties C13/C14.
All randomness comes from the rng passed in. Strings travel as hex of UTF-8.

DG(rng, b, hostile=True)  : arbitrary programs for the byte-exact correspondence (every ColumnType shape and
                            parameter, every spec sequence, hostile identifier names, unsupported constructs)
DG(rng, b, hostile=False) : programs whose raw-text parts are benign, used by the C14 reader oracle"""
from vlib import hexs
import gen_sql

HOSTILE_IDENTS = ["a", "b", "c", "t", "u", "id", "x y", 'q"q', "w`w", "Tbl", "é", "select", "a'b"]
PLAIN_IDENTS = ["a", "b", "c", "d", "e", "t", "u", "id", "v", "w", "col1", "Tbl", "x y", 'q"q', "w`w", "é", "order"]
PARAMS = [0, 1, 2, 9, 10, 15, 16, 17, 31, 255, 256, 65535, 65536, 2147483648, 4294967295]
SIMPLE_TYPES = ["text", "blob", "tinyint", "smallint", "int", "bigint", "utinyint", "usmallint", "uint", "ubigint",
                "float", "double", "datetime", "timestamp", "timestamptz", "time", "date", "year", "boolean", "json",
                "jsonb", "uuid", "cidr", "inet", "macaddr", "ltree"]
FK_ACTIONS = ["restrict", "cascade", "setnull", "noaction", "setdefault"]


class DG:
    def __init__(self, rng, b, hostile=True, careful=None):
        self.r = rng
        self.b = b
        self.hostile = hostile
        # careful: only constructs the backend renders (no deliberate panics); decided per statement
        self.careful = (not hostile or rng.random() < 0.8) if careful is None else careful
        self.eg = gen_sql.Gen(rng, b, max_depth=2, no_marks=True, parseable=not hostile, subqueries=hostile,
                              allow_panic=not self.careful)

    UNSUPPORTED = {"my": ("array", "vector", "cidr", "inet", "macaddr", "ltree"),
                   "pg": ("year",),
                   "sl": ("year", "interval", "bit", "varbit", "array", "vector", "cidr", "inet", "macaddr", "ltree")}

    def supported(self, ty):
        head = ty.strip("(").split(" ")[0].rstrip(")")
        if head in self.UNSUPPORTED[self.b]:
            return False
        if self.b == "sl" and head == "decimal" and " " in ty and int(ty.split(" ")[1]) > 16:
            return False
        return True

    # ---- leaves ----
    def name(self):
        return self.r.choice(HOSTILE_IDENTS if self.hostile else PLAIN_IDENTS)

    def ident(self):
        return hexs(self.name())

    def param(self):
        r = self.r
        return r.choice(PARAMS) if r.random() < 0.7 else r.randrange(0, 2 ** 32)

    def text(self):
        r = self.r
        if self.hostile:
            return r.choice(["x", "it's", "a\\b", "", "é", 'q"q', "line\nbreak", "tab\t", "a'b'c", "\\", "hello world", "\x1a", "\0"])
        return r.choice(["x", "it's", "a\\b", "é", 'q"q', "line\nbreak", "a'b'c", "hello world", "100%"])

    def tref(self, plain_only=False, kind="table"):
        r = self.r
        k = r.random()
        if self.careful and kind != "table" and self.b != "pg":
            plain_only = True
        if self.careful and kind == "index" and k >= 0.85:
            plain_only = True
        if plain_only or k < 0.7:
            return "(t %s)" % self.ident()
        if k < 0.85:
            return "(t %s %s)" % (self.ident(), self.ident())
        if k < 0.92:
            return "(t %s %s %s)" % (self.ident(), self.ident(), self.ident())
        if self.careful:
            return "(t %s)" % self.ident()
        if k < 0.96:
            return "(ta %s %s)" % (self.ident(), self.ident())
        return "(tvalues %s (row i:i32:1))" % self.ident()

    def expr(self):
        return self.eg.expr()

    # ---- column types ----
    def coltype(self, depth=2):
        for _ in range(50):
            ty = self.coltype_any(depth)
            if not self.careful or self.supported(ty):
                return ty
        return "int"

    def coltype_any(self, depth=2):
        r = self.r
        k = r.random()
        if k < 0.4:
            return r.choice(SIMPLE_TYPES)
        p = self.param
        forms = [
            lambda: "(char)", lambda: "(char %d)" % p(), lambda: "(string)", lambda: "(string max)",
            lambda: "(string %d)" % p(), lambda: "(decimal)", lambda: "(decimal %d %d)" % (p(), p()),
            lambda: "(interval %s %s)" % (r.choice(["-"] + [str(i) for i in range(13)]), r.choice(["-", str(p())])),
            lambda: "(binary %d)" % p(), lambda: "(varbinary)", lambda: "(varbinary max)", lambda: "(varbinary %d)" % p(),
            lambda: "(bit)", lambda: "(bit %d)" % p(), lambda: "(varbit %d)" % p(), lambda: "(money)",
            lambda: "(money %d %d)" % (p(), p()), lambda: "(vector)", lambda: "(vector %d)" % p(),
            lambda: "(custom %s)" % hexs(r.choice(["citext", "my type", 'T"y', "geometry(Point, 4326)"] if self.hostile
                                                  else ["citext", "geometry", "tsvector"])),
            lambda: "(enum %s%s)" % (hexs(r.choice(["mood", 'fo"nt', "sch.ty", "point_size"] if self.hostile else ["mood", "font", "interval_unit"])),
                                     "".join(" " + hexs(self.text()) for _ in range(r.randrange(0 if self.hostile else 1, 4)))),
        ]
        if depth > 0:
            forms.append(lambda: "(array %s)" % self.coltype(depth - 1))
        return r.choice(forms)()

    SPEC_KINDS = ["null", "notnull", "default", "autoinc", "unique", "pk", "check", "generated", "extra", "comment", "using"]

    def spec(self, kind=None):
        r = self.r
        kind = kind or r.choice(self.SPEC_KINDS)
        if kind in ("null", "notnull", "autoinc", "unique", "pk"):
            return "(%s)" % kind
        if kind in ("default", "check", "using"):
            return "(%s %s)" % (kind, self.expr())
        if kind == "generated":
            return "(generated %s %s)" % (self.expr(), r.choice(["stored", "virtual"]))
        if kind == "extra":
            return "(extra %s)" % hexs(r.choice(["ON UPDATE CURRENT_TIMESTAMP", "COLLATE utf8mb4_bin", "", "x"] if self.hostile
                                                else ["ON UPDATE CURRENT_TIMESTAMP", "COLLATE utf8mb4_bin"]))
        return "(comment %s)" % hexs(self.text())

    def coldef(self, max_specs=5):
        r = self.r
        ty = "-" if r.random() < 0.06 else self.coltype()
        n = r.choice([0, 1, 1, 2, 2, 3, 4, max_specs])
        specs = [self.spec() for _ in range(n)]
        if self.careful and self.b == "pg" and "(autoinc)" in specs and ty != "-":
            ty = r.choice(["smallint", "int", "bigint"])
        return "(cd %s %s%s)" % (self.ident(), ty, "".join(" " + x for x in specs))

    # ---- indexes ----
    def index_clauses(self, top_level):
        r = self.r
        cl = []
        if r.random() < 0.8:
            cl.append("(name %s)" % self.ident())
        if top_level and r.random() < 0.93:
            cl.append("(table %s)" % self.tref(kind="index"))
        for _ in range(r.choice([0, 1, 1, 1, 2, 3])):
            cl.append("(col %s %s %s)" % (self.ident(), r.choice(["-", "-", "-", str(self.param())]),
                                          r.choice(["-", "-", "asc", "desc"])))
        for kw, p in (("primary", 0.1), ("unique", 0.35), ("nnd", 0.15), ("fulltext", 0.08), ("ifnotexists", 0.2)):
            if r.random() < p:
                cl.append("(%s)" % kw)
        if r.random() < 0.3:
            cl.append("(itype %s)" % r.choice(["btree", "hash", "fulltext", "(custom %s)" % hexs(r.choice(["gist", "brin", "GIN"]))]))
        for _ in range(r.choice([0, 0, 0, 1, 2])):
            cl.append("(include %s)" % self.ident())
        if r.random() < 0.3:
            cl.append("(andwhere %s)" % self.expr())
            if r.random() < 0.3:
                cl.append("(andwhere %s)" % self.expr())
        elif r.random() < 0.1:
            cl.append("(condwhere %s)" % self.eg.cond(1))
        r.shuffle(cl)
        return cl

    def index_stmt(self):
        return "(index %s)" % " ".join(self.index_clauses(False))

    def fk_clauses(self):
        r = self.r
        cl = []
        if r.random() < 0.75:
            cl.append("(name %s)" % self.ident())
        if r.random() < 0.8:
            cl.append("(fromtbl %s)" % self.tref(kind="fk"))
        if r.random() < 0.93:
            cl.append("(totbl %s)" % self.tref(kind="fk"))
        n = r.choice([0, 1, 1, 1, 2, 3])
        for _ in range(n):
            cl.append("(fromcol %s)" % self.ident())
        for _ in range(n if r.random() < 0.9 else r.randrange(0, 3)):
            cl.append("(tocol %s)" % self.ident())
        if r.random() < 0.5:
            cl.append("(ondelete %s)" % r.choice(FK_ACTIONS))
        if r.random() < 0.5:
            cl.append("(onupdate %s)" % r.choice(FK_ACTIONS))
        if r.random() < 0.3:
            r.shuffle(cl)
        return cl

    def fk_stmt(self):
        return "(fk %s)" % " ".join(self.fk_clauses())

    # ---- statements ----
    def tcreate(self):
        r = self.r
        cl = []
        if r.random() < 0.95:
            cl.append("(table %s)" % self.tref())
        for kw, p in (("ifnotexists", 0.3), ("temporary", 0.15)):
            if r.random() < p:
                cl.append("(%s)" % kw)
        if r.random() < 0.25:
            cl.append("(comment %s)" % hexs(self.text()))
        if r.random() < 0.15:
            cl.append("(extra %s)" % hexs(r.choice(["WITHOUT ROWID", "STRICT", "PARTITION BY HASH(id)"])))
        for kw in ("engine", "collate", "charset"):
            if r.random() < 0.2:
                cl.append("(%s %s)" % (kw, hexs(r.choice(["InnoDB", "utf8mb4_unicode_ci", "utf8mb4"]))))
        for _ in range(r.choice([0, 1, 1, 2, 2, 3, 4])):
            cl.append("(col %s)" % self.coldef())
        for _ in range(r.choice([0, 0, 0, 1, 1, 2])):
            cl.append("(%s %s)" % (r.choice(["index", "index", "pk"]), self.index_stmt()))
        for _ in range(r.choice([0, 0, 0, 1, 2])):
            cl.append("(fk %s)" % self.fk_stmt())
        for _ in range(r.choice([0, 0, 0, 1, 2])):
            cl.append("(check %s)" % self.expr())
        if r.random() < 0.5:
            r.shuffle(cl)
        return "(tcreate %s)" % " ".join(cl)

    def alter_option(self):
        r = self.r
        k = r.random()
        if self.careful and self.b == "sl":
            k = r.choice([0.1, 0.65, 0.75])
        if k < 0.25:
            return "(%s %s)" % (r.choice(["addcol", "addcol", "addcoline"]), self.coldef())
        if k < 0.6:
            return "(modcol %s)" % self.coldef()
        if k < 0.7:
            return "(rencol %s %s)" % (self.ident(), self.ident())
        if k < 0.8:
            return "(dropcol %s)" % self.ident()
        if k < 0.92:
            return "(addfk %s)" % self.fk_stmt()
        return "(dropfk %s)" % self.ident()

    def talter(self):
        r = self.r
        cl = []
        if r.random() < 0.93:
            cl.append("(table %s)" % self.tref())
        nopt = r.choice([0, 1, 1, 1, 2, 3]) if not self.careful else r.choice([1, 1, 2, 3])
        if self.careful and self.b == "sl":
            nopt = 1
        for _ in range(nopt):
            cl.append(self.alter_option())
        if r.random() < 0.1:
            r.shuffle(cl)
        return "(talter %s)" % " ".join(cl)

    def typeref(self):
        r = self.r
        return "(ty %s)" % " ".join(self.ident() for _ in range(r.choice([1, 1, 1, 2, 3])))

    def statement(self):
        r = self.r
        k = r.random()
        if self.careful and self.b == "sl" and (0.76 <= k < 0.85 or 0.92 <= k < 0.94):
            k = r.random() * 0.7       # SQLite has no stand-alone foreign key statements and no TRUNCATE
        if k < 0.42:
            return self.tcreate()
        if k < 0.62:
            return self.talter()
        if k < 0.72:
            return "(icreate %s)" % " ".join(self.index_clauses(True))
        if k < 0.76:
            cl = ["(name %s)" % self.ident()] if r.random() < 0.9 else []
            if r.random() < 0.85:
                cl.append("(table %s)" % self.tref(kind="index"))
            if r.random() < 0.3 and not (self.careful and self.b == "my"):
                cl.append("(ifexists)")
            return "(idrop %s)" % " ".join(cl)
        if k < 0.82:
            return "(fkcreate %s)" % " ".join(self.fk_clauses())
        if k < 0.85:
            cl = ["(name %s)" % self.ident()] if r.random() < 0.9 else []
            if r.random() < 0.9:
                cl.append("(table %s)" % self.tref(kind="fk"))
            return "(fkdrop %s)" % " ".join(cl)
        if k < 0.89:
            cl = ["(table %s)" % self.tref() for _ in range(r.choice([0, 1, 1, 2, 3]))]
            for kw, p in (("ifexists", 0.4), ("restrict", 0.2), ("cascade", 0.3)):
                if r.random() < p:
                    cl.append("(%s)" % kw)
            return "(tdrop %s)" % " ".join(cl)
        if k < 0.92:
            return "(trename %s %s)" % (self.tref(), self.tref()) if r.random() < 0.9 else "(trename)"
        if k < 0.94:
            return "(ttruncate %s)" % self.tref() if r.random() < 0.9 else "(ttruncate)"
        if self.b != "pg":
            return self.tcreate()
        return self.pg_statement()

    def pg_statement(self):
        r = self.r
        k = r.random()
        if k < 0.25:
            cl = ["(asenum %s)" % self.typeref()] if r.random() < 0.95 else []
            for _ in range(r.choice([0, 1, 1, 2])):
                cl.append("(values %s)" % " ".join(hexs(self.text()) for _ in range(r.randrange(0, 4))))
            return "(tycreate %s)" % " ".join(cl)
        if k < 0.45:
            cl = []
            for _ in range(r.choice([0, 1, 1, 2])):
                cl.append("(name %s)" % self.typeref())
            if r.random() < 0.3:
                cl.append("(names %s)" % " ".join(self.typeref() for _ in range(r.randrange(0, 3))))
            for kw, p in (("ifexists", 0.4), ("cascade", 0.3), ("restrict", 0.3)):
                if r.random() < p:
                    cl.append("(%s)" % kw)
            return "(tydrop %s)" % " ".join(cl)
        if k < 0.75:
            cl = ["(name %s)" % self.typeref()] if r.random() < 0.95 else []
            for _ in range(r.choice([1, 1, 2, 3])):
                kk = r.random()
                if kk < 0.35:
                    cl.append("(addvalue %s)" % hexs(self.text()))
                elif kk < 0.5:
                    cl.append("(before %s)" % hexs(self.text()))
                elif kk < 0.65:
                    cl.append("(after %s)" % hexs(self.text()))
                elif kk < 0.8:
                    cl.append("(ifnotexists)")
                elif kk < 0.9:
                    cl.append("(renameto %s)" % hexs(self.name()))
                else:
                    cl.append("(renamevalue %s %s)" % (hexs(self.text()), hexs(self.text())))
            return "(tyalter %s)" % " ".join(cl)
        if k < 0.9:
            cl = ["(name %s)" % hexs(r.choice(["ltree", "pg_trgm", "uuid-ossp", '"uuid-ossp"']))] if r.random() < 0.95 else []
            if r.random() < 0.4:
                cl.append("(schema %s)" % hexs(r.choice(["public", "ext"])))
            if r.random() < 0.4:
                cl.append("(version %s)" % hexs(r.choice(["v0.1.0", "'1.1'"])))
            for kw, p in (("cascade", 0.3), ("ifnotexists", 0.4)):
                if r.random() < p:
                    cl.append("(%s)" % kw)
            r.shuffle(cl)
            return "(extcreate %s)" % " ".join(cl)
        cl = ["(name %s)" % hexs(r.choice(["ltree", "pg_trgm"]))]
        for kw, p in (("ifexists", 0.4), ("cascade", 0.3), ("restrict", 0.3)):
            if r.random() < p:
                cl.append("(%s)" % kw)
        return "(extdrop %s)" % " ".join(cl)


def corr_cases(rng, n):
    """arbitrary programs x 3 backends for the byte-exact correspondence"""
    lines = []
    for _ in range(n):
        b = rng.choice(["my", "pg", "sl"])
        lines.append("ddl %s %s" % (b, DG(rng, b, hostile=True).statement()))
    return lines


class WG(DG):
    """well-formed declarations for the C14 reader oracle: every construct is one the dialect b (my | pg) can express,
    raw-text parts are benign, and each statement is complete (named tables, at least one column in a key, ...)"""

    def __init__(self, rng, b):
        DG.__init__(self, rng, b, hostile=False, careful=True)

    def wexpr(self):
        """expressions for CHECK / GENERATED / USING / WHERE: the parseable subset, no sub-queries"""
        return self.eg.expr()

    def default(self):
        r = self.r
        k = r.random()
        if k < 0.5:
            return "(val %s)" % self.eg.value()
        if k < 0.7:
            return "(kw %s)" % r.choice(["null", "cdate", "ctime", "cts"])
        if k < 0.8:
            return "(val i:i32:%d)" % r.choice([-1, -128, 0, 7])
        if k < 0.83 and self.b == "my":
            # a computed default without the builder's parenthesised form (MySQL requires DEFAULT (expr))
            return "(bin add (val i:i32:1) (val i:i32:2))"
        return "(tuple %s)" % self.wexpr()

    def spec(self, kind=None):
        r = self.r
        kind = kind or r.choice(self.SPEC_KINDS)
        if kind == "default":
            return "(default %s)" % self.default()
        if kind in ("check", "using"):
            return "(%s %s)" % (kind, self.wexpr())
        if kind == "generated":
            return "(generated %s %s)" % (self.wexpr(), r.choice(["stored", "virtual"]))
        return DG.spec(self, kind)

    def coldef(self, max_specs=5, no_extra=False):
        r = self.r
        for _ in range(100):
            cd = DG.coldef(self, max_specs)
            typeless = cd.split(" ")[2].rstrip(")") == "-"
            if "(extra " in cd and (no_extra or typeless):
                continue
            if cd.count("(using ") > 1:
                continue   # Postgres has one USING per ALTER COLUMN .. TYPE: a repeated one is outside the dialect
            return cd
        return "(cd %s int)" % self.ident()

    def cols(self, table_level, n=None):
        r = self.r
        out = []
        for _ in range(n or r.choice([1, 1, 1, 2, 3])):
            prefix = str(r.choice([1, 10, 255])) if self.b == "my" and r.random() < 0.2 else "-"
            order = r.choice(["-", "-", "asc", "desc"]) if not (self.b == "pg" and table_level) else "-"
            out.append("(col %s %s %s)" % (self.ident(), prefix, order))
        return out

    def index_clauses(self, top_level, kind=None):
        r = self.r
        cl = []
        if top_level or r.random() < 0.7:
            cl.append("(name %s)" % self.ident())
        if top_level:
            cl.append("(table %s)" % self.tref(kind="index"))
        cl += self.cols(not top_level)
        kinds = ["unique", "unique", "plain"] if top_level else ["primary", "unique", "unique", "plain" if self.b == "my" or r.random() < 0.15 else "unique"]
        kind = kind or r.choice(kinds)
        if kind != "plain":
            cl.append("(%s)" % kind)
        if self.b == "my":
            if kind == "plain" and top_level is not None and r.random() < 0.2:
                cl.append("(fulltext)")
            elif r.random() < 0.25:
                cl.append("(itype %s)" % r.choice(["btree", "hash"]))
        else:
            if top_level and r.random() < 0.3:
                cl.append("(itype %s)" % r.choice(["btree", "hash", "fulltext", "(custom %s)" % hexs(r.choice(["gist", "brin"]))]))
            if kind == "unique" and r.random() < 0.2:
                cl.append("(nnd)")
            for _ in range(r.choice([0, 0, 1, 2])):
                cl.append("(include %s)" % self.ident())
            if top_level and r.random() < 0.3:
                cl.append("(ifnotexists)")
            # (a predicate on an index attached to CREATE TABLE has no place in a table constraint: nothing of it
            # may be written there)
            if (top_level and r.random() < 0.35) or (not top_level and r.random() < 0.15):
                cl.append("(andwhere %s)" % self.wexpr())
                if r.random() < 0.3:
                    cl.append("(andwhere %s)" % self.wexpr())
        if r.random() < 0.4:
            r.shuffle(cl)
        return cl

    def fk_clauses(self, need_from=False):
        r = self.r
        cl = []
        if r.random() < 0.75:
            cl.append("(name %s)" % self.ident())
        if need_from or r.random() < 0.5:
            cl.append("(fromtbl %s)" % self.tref(kind="fk"))
        cl.append("(totbl %s)" % self.tref(kind="fk"))
        n = r.choice([1, 1, 1, 2, 3])
        for _ in range(n):
            cl.append("(fromcol %s)" % self.ident())
        for _ in range(n):
            cl.append("(tocol %s)" % self.ident())
        if r.random() < 0.5:
            cl.append("(ondelete %s)" % r.choice(FK_ACTIONS))
        if r.random() < 0.5:
            cl.append("(onupdate %s)" % r.choice(FK_ACTIONS))
        if r.random() < 0.3:
            r.shuffle(cl)
        return cl

    def tcreate(self):
        r = self.r
        cl = ["(table %s)" % self.tref()]
        for kw, p in (("ifnotexists", 0.3), ("temporary", 0.15)):
            if r.random() < p:
                cl.append("(%s)" % kw)
        if r.random() < 0.25:
            cl.append("(comment %s)" % hexs(self.text()))
        if self.b == "my":
            for kw, vals in (("engine", ["InnoDB", "MyISAM"]), ("collate", ["utf8mb4_unicode_ci"]), ("charset", ["utf8mb4", "latin1"])):
                if r.random() < 0.25:
                    cl.append("(%s %s)" % (kw, hexs(r.choice(vals))))
            if r.random() < 0.1:
                cl.append("(extra %s)" % hexs("ROW_FORMAT=DYNAMIC"))
        elif r.random() < 0.1:
            cl.append("(extra %s)" % hexs(r.choice(["WITH (fillfactor=70)", "TABLESPACE fast"])))
        for _ in range(r.choice([1, 1, 2, 2, 3, 4])):
            cl.append("(col %s)" % self.coldef())
        for _ in range(r.choice([0, 0, 1, 1, 2])):
            if r.random() < 0.3:
                # TableCreateStatement::primary_key sets the primary flag itself
                cl.append("(pk (index %s))" % " ".join(self.index_clauses(None, kind="plain")))
            else:
                cl.append("(index (index %s))" % " ".join(self.index_clauses(False)))
        for _ in range(r.choice([0, 0, 1, 2, 3])):
            cl.append("(fk (fk %s))" % " ".join(self.fk_clauses()))
        for _ in range(r.choice([0, 0, 1, 2])):
            cl.append("(check %s)" % self.wexpr())
        if r.random() < 0.5:
            r.shuffle(cl)
        return "(tcreate %s)" % " ".join(cl)

    def alter_option(self):
        r = self.r
        k = r.random()
        if k < 0.25:
            return "(%s %s)" % ("addcol" if self.b == "my" or r.random() < 0.6 else "addcoline", self.coldef())
        if k < 0.6:
            # raw text inside a Postgres ModifyColumn would have to be a whole ALTER action: the caller's business
            for _ in range(50):
                cd = self.coldef(no_extra=self.b == "pg")
                # something to modify: a type or a specification that has a rendering in the dialect
                if cd.split(" ")[2].rstrip(")") != "-" or any(k in cd for k in ("(null)", "(notnull)", "(default ", "(unique)", "(pk)", "(check ")):
                    return "(modcol %s)" % cd
            return "(modcol (cd %s int))" % self.ident()
        if k < 0.7:
            return "(rencol %s %s)" % (self.ident(), self.ident())
        if k < 0.8:
            return "(dropcol %s)" % self.ident()
        if k < 0.92:
            return "(addfk (fk %s))" % " ".join(self.fk_clauses())
        return "(dropfk %s)" % self.ident()

    def talter(self):
        r = self.r
        cl = ["(table %s)" % self.tref()]
        for _ in range(r.choice([1, 1, 2, 3, 4])):
            cl.append(self.alter_option())
        return "(talter %s)" % " ".join(cl)

    def statement(self):
        r = self.r
        k = r.random()
        if k < 0.4:
            return self.tcreate()
        if k < 0.64:
            return self.talter()
        if k < 0.74:
            return "(icreate %s)" % " ".join(self.index_clauses(True))
        if k < 0.78:
            cl = ["(name %s)" % self.ident()]
            if self.b == "my" or r.random() < 0.6:
                t = self.tref(kind="index")
                if self.b == "pg" and t.count(" ") > 2:
                    t = "(t %s)" % self.ident()
                cl.append("(table %s)" % t)
            if self.b == "pg" and r.random() < 0.4:
                cl.append("(ifexists)")
            return "(idrop %s)" % " ".join(cl)
        if k < 0.83:
            return "(fkcreate %s)" % " ".join(self.fk_clauses(need_from=True))
        if k < 0.86:
            return "(fkdrop (name %s) (table %s))" % (self.ident(), self.tref(kind="fk"))
        if k < 0.9:
            cl = ["(table %s)" % self.tref() for _ in range(r.choice([1, 1, 2, 3]))]
            if r.random() < 0.4:
                cl.append("(ifexists)")
            if r.random() < 0.4:
                cl.append("(%s)" % r.choice(["restrict", "cascade"]))
            return "(tdrop %s)" % " ".join(cl)
        if k < 0.93:
            return "(trename %s %s)" % (self.tref(), self.tref())
        if k < 0.95:
            return "(ttruncate %s)" % self.tref()
        if self.b != "pg":
            return self.talter()
        return self.pg_statement()

    def pg_statement(self):
        r = self.r
        k = r.random()
        if k < 0.25:
            cl = ["(asenum %s)" % self.typeref()]
            for _ in range(r.choice([1, 1, 2])):
                cl.append("(values %s)" % " ".join(hexs(self.text()) for _ in range(r.randrange(1, 4))))
            return "(tycreate %s)" % " ".join(cl)
        if k < 0.45:
            cl = ["(name %s)" % self.typeref() for _ in range(r.choice([1, 1, 2]))]
            if r.random() < 0.3:
                cl.append("(names %s)" % " ".join(self.typeref() for _ in range(r.randrange(1, 3))))
            if r.random() < 0.4:
                cl.append("(ifexists)")
            if r.random() < 0.4:
                cl.append("(%s)" % r.choice(["cascade", "restrict"]))
            return "(tydrop %s)" % " ".join(cl)
        if k < 0.75:
            cl = ["(name %s)" % self.typeref()]
            kk = r.random()
            if kk < 0.6:
                cl.append("(addvalue %s)" % hexs(self.text()))
                if r.random() < 0.5:
                    cl.append("(%s %s)" % (r.choice(["before", "after"]), hexs(self.text())))
                if r.random() < 0.4:
                    cl.append("(ifnotexists)")
            elif kk < 0.8:
                cl.append("(renameto %s)" % hexs(self.name()))
            else:
                cl.append("(renamevalue %s %s)" % (hexs(self.text()), hexs(self.text())))
            return "(tyalter %s)" % " ".join(cl)
        if k < 0.9:
            cl = ["(name %s)" % hexs(r.choice(["ltree", "pg_trgm", '"uuid-ossp"']))]
            if r.random() < 0.4:
                cl.append("(schema %s)" % hexs(r.choice(["public", "ext"])))
            if r.random() < 0.4:
                cl.append("(version %s)" % hexs(r.choice(["'1.1'", "v2"])))
            for kw, p in (("cascade", 0.3), ("ifnotexists", 0.4)):
                if r.random() < p:
                    cl.append("(%s)" % kw)
            r.shuffle(cl)
            return "(extcreate %s)" % " ".join(cl)
        cl = ["(name %s)" % hexs(r.choice(["ltree", "pg_trgm"]))]
        if r.random() < 0.4:
            cl.append("(ifexists)")
        if r.random() < 0.5:
            cl.append("(%s)" % r.choice(["cascade", "restrict"]))
        return "(extdrop %s)" % " ".join(cl)
