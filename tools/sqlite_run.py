"""Execution of renderings on the real SQLite engine (python stdlib sqlite3): the property's own
observable for C07 / C09 / C13, and the validation of the SQLite-side specifications."""
import sqlite3
import gen_sqlite


def to_py(v):
    """a bound value in the canonical text form (i32:5, s:<hex>, b:1, xx:N, y:<hex>, c:<hex>)"""
    tag, _, body = v.partition(":")
    if body == "N":
        return None
    if tag in ("i8", "i16", "i32", "i64", "u8", "u16", "u32", "u64"):
        return int(body)
    if tag == "b":
        return int(body)
    if tag in ("s", "c"):
        return bytes.fromhex(body).decode("utf-8") if body != "-" else ""
    if tag == "y":
        return bytes.fromhex(body) if body != "-" else b""
    if tag in ("f32", "f64"):
        import struct
        return struct.unpack(">d" if tag == "f64" else ">f", bytes.fromhex(body.rjust(16 if tag == "f64" else 8, "0")))[0]
    raise ValueError(v)


import re
INSERT_SELECT = re.compile(r'^(WITH .*?\) )?(?:INSERT|REPLACE) INTO "(\w+)" \(([^)]*)\) SELECT ', re.S)
FIXTURE_IDS = {}


def fresh():
    con = sqlite3.connect(":memory:")
    con.executescript(gen_sqlite.SCHEMA)
    if not FIXTURE_IDS:
        for t in ("t", "u", "p"):
            FIXTURE_IDS[t] = set(r[0] for r in con.execute("SELECT id FROM %s" % t).fetchall())
    return con


def run(sql, params=None, ordered=False):
    """returns ('ok', rows, tables) or ('syntax'|'error', message)"""
    con = fresh()
    try:
        cur = con.execute(sql, params or [])
        rows = cur.fetchall() if cur.description is not None else []
        con.commit()
        tables = {t: con.execute("SELECT * FROM %s ORDER BY id" % t).fetchall() for t in ("t", "u", "p")}
        m = INSERT_SELECT.match(sql)
        if m and '"id"' not in m.group(3):
            # INSERT .. SELECT that leaves the id to the engine: which source row gets which new id depends on the
            # order the engine scans the source in (its plan may differ between a literal and a bound parameter):
            # the new rows are compared as a multiset, without their ids
            t = m.group(2)
            old = [r_ for r_ in tables[t] if r_[0] in FIXTURE_IDS[t]]
            new = sorted(((None,) + tuple(r_[1:]) for r_ in tables[t] if r_[0] not in FIXTURE_IDS[t]),
                         key=lambda r_: tuple((0, "") if x is None else (1, repr(x)) for x in r_))
            tables[t] = old + new
    except sqlite3.Error as e:
        msg = str(e)
        kind = "syntax" if ("syntax error" in msg or "unrecognized token" in msg or "incomplete input" in msg) else "error"
        return kind, msg
    finally:
        con.close()
    key = lambda r: tuple((0, "") if x is None else (1, repr(x)) for x in r)
    if not ordered:
        rows = sorted(rows, key=key)
    return "ok", rows, tables
