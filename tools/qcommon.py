"""shared helpers for the statement-level checks (C01, C02, C05-C09)"""
import vlib
from vlib import hexs, unhexs
import gen_sql

B = ["my", "pg", "sl"]


def gen_statement_cases(ctx, n, no_marks=True, depth_choices=(1, 2, 2, 3), exprs=0.3, op="stmt", rich_values=0):
    """rich_values = k > 0: a pool of k `v:` atoms over every value kind (richvalues.make_value_pool; needs the fa
    harness, already built when gen_cases runs) is mixed into the values of the generated statements"""
    rng = ctx.rng
    lines = []
    kinds = {}
    pool = None
    if rich_values:
        import richvalues
        pool = richvalues.make_value_pool(ctx, rng, rich_values)
    for _ in range(n):
        b = rng.choice(B)
        g = gen_sql.Gen(rng, b, max_depth=rng.choice(depth_choices), no_marks=no_marks, value_pool=pool)
        if rng.random() < exprs:
            lines.append("expr %s %s" % (b, g.expr()))
            kinds["expr"] = kinds.get("expr", 0) + 1
        else:
            q = g.query(rng.choice([1, 2]))
            kinds[q[1:7]] = kinds.get(q[1:7], 0) + 1
            lines.append("%s %s %s" % (op, b, q))
    ctx.cov["distribution"] = {"kinds": kinds}
    if pool:
        import richvalues
        ctx.cov["distribution"]["value_pool_size"] = len(pool)
        ctx.cov["distribution"]["values"] = richvalues.distribution(lines)
    return lines


def split_out(out):
    """fields of a stmt/expr output line: inline, params, values, lits (+ optional log)"""
    if out.startswith("PANIC") or out.startswith("CRASH") or out.startswith("MODEL"):
        return None
    main = out.split(" | ")[0]
    f = main.split(" ")
    if len(f) != 4:
        return None
    vals = [] if f[2] == "-" else f[2].split(",")
    lits = [] if f[3] == "-" else f[3].split(",")
    return f[0], f[1], vals, lits


def readable(out):
    f = split_out(out)
    if not f:
        return out[:200]
    return {"inline": unhexs(f[0]), "params_sql": unhexs(f[1]), "values": f[2]}


def etok_many(ctx, pairs, tag="etok"):
    """engine token streams (extracted Coq tokenizer) for (backend, hexsql) pairs -> dict"""
    pairs = sorted(set(pairs))
    outs = ctx.run_model(["etok %s %s" % (b, h) for b, h in pairs], tag)
    return dict(zip(pairs, outs))


def describe(case):
    return case if len(case) < 1500 else case[:1500] + " ..."


def text_level_premise(ctx, lines, impl, which):
    """evaluate the decidable separability premise of the text-level theorems (Spec/EngScript.v: params_sep /
    inline_sep, which = "P" / "I") with the extracted model on the script of every case the implementation
    rendered byte-identically to the model; the theorem then speaks about exactly this SQL text.  Coverage only:
    a premise that is not met is not a verdict (raw SQL text may contain anything; the strict engine lexer reads
    `=-5` as one operator), the direct token oracle on the implementation's output decides those cases."""
    sel = [i for i, (c, o) in enumerate(zip(lines, impl))
           if (c.startswith("stmt ") or c.startswith("expr ")) and split_out(o) is not None]
    if not sel:
        return
    outs = ctx.run_model(["sep " + lines[i].split(" ", 1)[1] for i in sel], "sep")
    met = raw = noraw = 0
    examples = []
    cls = {"P": "Q", "I": "R"}.get(which)
    in_class = sum(1 for o in outs if cls and (cls + "1") in o.split(" "))
    # the proved class must be inside the evaluated premise (a cross-check of the extraction against the theorem)
    contradiction = [lines[i] for i, o in zip(sel, outs)
                     if cls and (cls + "1") in o.split(" ") and (which + "1") not in o.split(" ")]
    if contradiction:
        ctx.violation({"kind": "proof-broken", "theorem_or_correspondence":
                       "C01_rendered_statement_is_separable / C02_rendered_statement_is_separable_inline vs the extracted premise",
                       "case": contradiction[0]}, no_input=True)
    for i, o in zip(sel, outs):
        ok = (which + "1") in o.split(" ")
        if ok:
            met += 1
        elif "cust" in lines[i]:
            raw += 1
        else:
            noraw += 1
            if len(examples) < 3:
                examples.append(describe(lines[i])[:400])
    try:
        import os
        with open(os.path.join(vlib.CACHE, "sep_notmet_%s.txt" % ctx.pid), "w") as f:
            f.write("".join("sepdbg " + lines[i].split(" ", 1)[1] + "\n" for i, o in zip(sel, outs)
                            if (which + "1") not in o.split(" ") and "cust" not in lines[i]))
    except Exception:
        pass
    ctx.cov["text_level_theorem"] = {
        "statements_evaluated": len(sel), "premise_met": met,
        "in_the_class_for_which_the_premise_is_proved (query_plain)": in_class,
        "premise_not_met_raw_sql_given": raw, "premise_not_met_no_raw_sql": noraw,
        "examples_not_met_no_raw_sql": examples,
        "note": "premise = no engine token is read across a seam between two pieces of the rendered script "
                "(decidable, Spec/EngScript.v); where it is met the text-level theorem of Properties/%s.v applies "
                "to this very SQL text" % ctx.pid}
