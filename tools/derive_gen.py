"""C19 — generator of programs that derive Iden / IdenStatic / use #[enum_def].

gen_types(rng, n, classes)      -> list of type-definition dicts (the quantifier of C19: programs)
case_lines(types)               -> (preamble lines [type/meth], query lines [q], per-query info)
rust_source(types, queries)     -> src/main.rs text of the generated crate
spec_name / spec_snake / spec_pascal : the documented naming, written independently of heck's state
                                  machine and of the Coq transcription (used by the oracle and to
                                  pick the identifiers the program has to mention)
build(types, queries, log)      -> path of the compiled binary (crate /verif/harness_c19)

Defect classes the generator can include on request (see checks/c19.py, `classes`):
  raw_ident  : raw identifiers (r#type) as variant / type / field names
  unit_brace : {{ / }} inside the rename of a unit struct
"""
import os
import re
import subprocess

ROOT = os.path.dirname(os.path.dirname(os.path.abspath(__file__)))
CRATE = os.path.join(ROOT, "harness_c19")
# VERIF_C19_REPO: a scratch copy of /repo for mutation testing (the check itself always uses /repo)
REPO = os.environ.get("VERIF_C19_REPO", "/repo")
TARGET = os.path.join(ROOT, ".cache", "target", "c19" if REPO == "/repo" else "c19-scratch")


def hexs(s):
    b = s.encode("utf-8")
    return b.hex() if b else "-"


def unhexs(h):
    return "" if h == "-" else bytes.fromhex(h).decode("utf-8")


# --------------------------------------------------------------------------------------------------
# the documented naming (specification side)
# --------------------------------------------------------------------------------------------------

def _case_of_last_cased(s):
    for ch in reversed(s):
        if "a" <= ch <= "z":
            return "l"
        if "A" <= ch <= "Z":
            return "u"
    return None


def spec_words(name):
    """words of an identifier: maximal runs of ASCII letters/digits, each cut
       - before an uppercase letter when the last letter before it (digits skipped) is lowercase, and
       - before the last letter of a run of uppercase letters when a lowercase letter follows."""
    out = []
    for run in re.findall(r"[A-Za-z0-9]+", name):
        start = 0
        for i in range(1, len(run)):
            c = run[i]
            if not ("A" <= c <= "Z"):
                continue
            before = _case_of_last_cased(run[:i])
            follows_lower = i + 1 < len(run) and "a" <= run[i + 1] <= "z"
            if before == "l" or (before == "u" and follows_lower):
                out.append(run[start:i])
                start = i
        out.append(run[start:])
    return out


def spec_snake(name):
    return "_".join(w.lower() for w in spec_words(name))


def spec_pascal(name):
    return "".join(w[0].upper() + w[1:].lower() for w in spec_words(name))


def G_unraw(ident):
    return unraw(ident)


def unraw(ident):
    return ident[2:] if ident.startswith("r#") else ident


def effective_attr(attrs):
    """the attribute that counts: the first one; inside #[iden(..)] the last item.
       returns None | ("rename", s) | ("method", m) | ("flatten",)"""
    if not attrs:
        return None
    a = attrs[0]
    if a[0] == "E":
        return ("rename", a[1])
    if a[0] == "M":
        return ("method", a[1])
    it = a[1][-1]
    return {"f": ("flatten",), "r": ("rename", it[1] if len(it) > 1 else None),
            "m": ("method", it[1] if len(it) > 1 else None)}[it[0]]


def spec_table_name(t):
    e = effective_attr(t["cattrs"])
    if e is not None:
        return e[1]
    return spec_snake(unraw(t["ident"]))


def parse_value(v):
    """'u' | 'i' | 'i/tid:value' -> (i or None, (tid, value) or None)"""
    if v == "u":
        return None, None
    if "/" in v:
        i, rest = v.split("/", 1)
        tid, inner = rest.split(":", 1)
        return int(i), (int(tid), inner)
    return int(v), None


def spec_name(types, tid, value):
    """the name the documentation promises for this value"""
    t = types[tid]
    if t["kind"] == "unit":
        return spec_table_name(t)
    i, inner = parse_value(value)
    if t["kind"] == "edef":
        if i == 0:
            return t["table_name"] if t["table_name"] is not None else spec_snake(unraw(t["ident"]))
        return unraw(t["fields"][i - 1])
    var = t["variants"][i]
    e = effective_attr(var["attrs"])
    if e is None:
        if unraw(var["ident"]) == "Table":
            return spec_table_name(t)
        return spec_snake(unraw(var["ident"]))
    if e[0] == "rename":
        return e[1]
    if e[0] == "method":
        return t["methods"][e[1]]
    return spec_name(types, inner[0], inner[1])


def spec_valid_iden(name):
    return re.fullmatch(r"([A-Za-z_][A-Za-z0-9_]*)?", name) is not None


def edef_enum_name(t):
    return (t["prefix"] if t["prefix"] is not None else "") + unraw(t["ident"]) + \
           (t["suffix"] if t["suffix"] is not None else "Iden")


# --------------------------------------------------------------------------------------------------
# generation
# --------------------------------------------------------------------------------------------------

CAPS = ["Font", "Size", "Http", "Server", "User", "Id", "Name", "Created", "At", "Glyph", "Utf", "Json", "Is",
        "Active", "X", "Y", "Key", "Value", "Order", "Item", "Go", "To", "Of", "Ab", "Character", "Aspect", "Tbl"]
ACRO = ["HTTP", "XML", "ID", "URL", "SQL", "UTF", "IO", "DB", "API", "A", "AB", "UUID", "TABLE", "T"]
LOWS = ["font", "size", "id", "user", "name", "created", "at", "is", "x", "y", "http", "v", "table", "a", "bc"]
DIGS = ["1", "2", "8", "16", "64", "256", "007", "0"]
KEYWORDS = set("""as break const continue crate else enum extern false fn for if impl in let loop match mod move mut pub ref
return self Self static struct super trait true type unsafe use where while async await dyn abstract become box do final
macro override priv typeof unsized virtual yield try union""".split())
RESERVED_TYPES = {"Self", "Debug", "Clone", "Copy", "PartialEq", "Eq", "Hash", "String", "Option", "Some", "None", "Ok",
                  "Err", "Result", "Box", "Vec", "Default", "Iden", "IdenStatic", "Table", "Send", "Sync", "Sized"}

RENAMES_VALID = ["my_name", "Abc", "_x", "a9", "camelCase", "UPPER", "x", "_", "__a", "table", "T_1"]
RENAMES_PLAIN_INVALID = ["9lives", "has space", "dash-ed", "dot.ted", "", "é", "naïve", "日本", "a,b",
                         "semi;colon", "a'b", "back\\slash", "new\nline", "tab\t", "%s", "a$b", "[x]", "\U0001F600"]
RENAMES_BRACE = ["{}", "{0}", "{{x}}", "a{b", "}", "{name}"]
RENAMES_QUOTE = ['a"b', "`", '"', "x`y`z", '""', "``", '"; DROP TABLE t; --', 'a""b', "`a`", 'mix"`ed', 'end"', "`start",
                 '"quoted"', "a`", 'a\\"b']
RENAMES_UNIT_BRACE = ["a{{b", "{{}}", "x}}", "{{{{"]
METHOD_NAMES = ["m", "name_of", "get_x", "col", "as_text"]
METHOD_RETS = ["meth", "by_method", 'me"th', "m`q", "Has Space", "", "_ok", "9", "{}"]


def rand_ident(rng, style):
    """style: 'type' | 'variant' | 'field'"""
    for _ in range(100):
        n = rng.choice([1, 1, 2, 2, 2, 3, 3, 4])
        parts = []
        for k in range(n):
            r = rng.random()
            if style == "field":
                pool = LOWS if r < 0.5 else CAPS if r < 0.65 else ACRO if r < 0.78 else DIGS if r < 0.9 else ["_", "__"]
            else:
                pool = CAPS if r < 0.45 else ACRO if r < 0.7 else DIGS if r < 0.82 else ["_", "__"] if r < 0.92 else LOWS
            parts.append(rng.choice(pool))
        if style == "field" and rng.random() < 0.6:
            s = "_".join(p for p in parts if not p.startswith("_"))  # plain snake_case field
        else:
            s = "".join(parts)
        if rng.random() < 0.06:
            s = "_" + s
        if rng.random() < 0.04:
            s = s + "_"
        if not re.fullmatch(r"[A-Za-z_][A-Za-z0-9_]*", s) or re.fullmatch(r"_+", s):
            continue
        if s in KEYWORDS or s in RESERVED_TYPES:
            continue
        return s
    return "Fallback"


def rand_rename(rng, for_unit=False, classes=()):
    r = rng.random()
    if r < 0.35:
        return rng.choice(RENAMES_VALID)
    if r < 0.6:
        return rng.choice(RENAMES_QUOTE)
    if r < 0.72 and not for_unit:
        return rng.choice(RENAMES_BRACE)
    if r < 0.72 and for_unit and "unit_brace" in classes:
        return rng.choice(RENAMES_UNIT_BRACE)
    if r < 0.85:
        return rng.choice(RENAMES_PLAIN_INVALID)
    # random short string over a quote-relevant alphabet
    alpha = ['"', "`", "a", "B", "_", "1", " ", "'", "\\", ".", "é"]
    return "".join(rng.choice(alpha) for _ in range(rng.randrange(1, 6)))


def rename_attr(rng, s, methods):
    """one attribute (as written) whose effect is Rename(s)"""
    r = rng.random()
    if r < 0.45:
        return ("E", s)
    if r < 0.85:
        return ("L", [("r", s)])
    junk = rng.choice([("f",), ("r", "ignored"), ("m", rng.choice(METHOD_NAMES))])
    return ("L", [junk, ("r", s)])


def method_attr(rng, m):
    r = rng.random()
    if r < 0.45:
        return ("M", m)
    if r < 0.85:
        return ("L", [("m", m)])
    return ("L", [rng.choice([("f",), ("r", "ignored")]), ("m", m)])


def flatten_attr(rng):
    if rng.random() < 0.8:
        return ("L", [("f",)])
    return ("L", [rng.choice([("r", "ignored"), ("m", "m")]), ("f",)])


def junk_attr(rng):
    return rng.choice([("E", "ignored_second"), ("M", "m"), ("L", [("f",)]), ("L", [("r", 'ign"ored')])])


def gen_types(rng, n, classes=()):
    types = []
    method_idents = set()   # the model's method environment is keyed by type identifier
    for tid in range(n):
        r = rng.random()
        kind = "enum" if r < 0.62 else "unit" if r < 0.80 else "edef"
        t = {"tid": tid, "kind": kind, "cattrs": [], "methods": {}, "static": False}
        ident = rand_ident(rng, "type")
        if "raw_ident" in classes and rng.random() < 0.08:
            ident = "r#" + rng.choice(["Type", "Match", "Struct", "Loop"])
        if kind == "edef":
            # left out (reported as a candidate): #[enum_def] makes an identifier out of snake_case(struct name), so a
            # struct called _007Ab makes the attribute macro panic ("007ab" is not a valid identifier)
            while not re.match(r"_*[A-Za-z]", G_unraw(ident)):
                ident = rand_ident(rng, "type")
        t["ident"] = ident
        if kind in ("enum", "unit"):
            t["static"] = rng.random() < 0.4
            if rng.random() < 0.35:
                t["cattrs"].append(rename_attr(rng, rand_rename(rng, for_unit=(kind == "unit"), classes=classes), None))
                if rng.random() < 0.15:
                    t["cattrs"].append(junk_attr(rng))
        if kind == "enum":
            nv = rng.randrange(1, 8)
            names = set()
            vs = []
            # a type where every name is a valid iden takes the generated fast path; bias a third of the
            # enums to have no invalid rename at all, and a third to have exactly one
            invalid_budget = rng.choice([0, 0, 1, 1, 99])
            for k in range(nv):
                if k == 0 and rng.random() < 0.5:
                    vid = "Table"
                else:
                    vid = rand_ident(rng, "variant")
                    if "raw_ident" in classes and rng.random() < 0.05:
                        vid = "r#" + rng.choice(["Type", "Match", "Ref", "Mod"])
                if unraw(vid) in names or vid == "Self":
                    continue
                names.add(unraw(vid))
                var = {"ident": vid, "fields": ("u", 0), "attrs": [], "inner": None}
                r = rng.random()
                shape = rng.random()
                if shape < 0.12:
                    var["fields"] = ("t", rng.randrange(1, 4))
                elif shape < 0.2:
                    var["fields"] = ("n", rng.randrange(1, 3))
                if r < 0.33:
                    s = rand_rename(rng)
                    if not spec_valid_iden(s):
                        if invalid_budget <= 0:
                            s = rng.choice(RENAMES_VALID)
                        else:
                            invalid_budget -= 1
                    var["attrs"].append(rename_attr(rng, s, None))
                elif r < 0.40 and invalid_budget > 0 and ident not in method_idents:
                    invalid_budget -= 1
                    m = rng.choice(METHOD_NAMES)
                    t["methods"].setdefault(m, rng.choice(METHOD_RETS))
                    var["attrs"].append(method_attr(rng, m))
                elif r < 0.48 and invalid_budget > 0:
                    cands = [u for u in types if (u["static"] or not t["static"])]
                    if cands:
                        invalid_budget -= 1
                        inner = rng.choice(cands)
                        var["inner"] = inner["tid"]
                        var["fields"] = rng.choice([("t", 1), ("n", 1)])
                        var["attrs"].append(flatten_attr(rng))
                if var["attrs"] and rng.random() < 0.12:
                    var["attrs"].append(junk_attr(rng))
                vs.append(var)
            if not vs:
                vs.append({"ident": "Only", "fields": ("u", 0), "attrs": [], "inner": None})
            t["variants"] = vs
            if t["methods"]:
                method_idents.add(ident)
        elif kind == "edef":
            t["static"] = True
            t["prefix"] = rng.choice([None, None, "", "P", "Pre_", "My"])
            t["suffix"] = rng.choice([None, None, "Iden", "Def", "_", "S2", "Col"])
            if t["prefix"] in (None, "") and t["suffix"] == "":
                t["suffix"] = "X"
            t["table_name"] = rng.choice([None, None, "tbl", "my_table", "T2", "_t", "orders", "camelCase"])
            fs, pascals = [], {"Table"}
            for _ in range(rng.randrange(1, 7)):
                f = rand_ident(rng, "field")
                if "raw_ident" in classes and rng.random() < 0.08:
                    f = "r#" + rng.choice(["type", "match", "ref", "loop"])
                p = spec_pascal(f)
                # the macro turns PascalCase(field) into a variant identifier: it must be one, and distinct
                if not re.fullmatch(r"[A-Za-z][A-Za-z0-9]*", p) or p in pascals or p in KEYWORDS or unraw(f) in [unraw(x) for x in fs]:
                    continue
                pascals.add(p)
                fs.append(f)
            if not fs:
                fs = ["id"]
            t["fields"] = fs
        types.append(t)
    return types


def type_values(types, tid, rng, depth=0):
    """the values of a type the program prints: list of value strings"""
    t = types[tid]
    if t["kind"] == "unit":
        return ["u"]
    if t["kind"] == "edef":
        return [str(i) for i in range(len(t["fields"]) + 1)]
    out = []
    for i, var in enumerate(t["variants"]):
        e = effective_attr(var["attrs"])
        if e is not None and e[0] == "flatten":
            inner = type_values(types, var["inner"], rng, depth + 1)
            if len(inner) > 2:
                inner = rng.sample(inner, 2)
            out += ["%d/%d:%s" % (i, var["inner"], v) for v in inner]
        else:
            out.append(str(i))
    return out


# --------------------------------------------------------------------------------------------------
# case lines for the model
# --------------------------------------------------------------------------------------------------

def attr_token(a):
    if a[0] in ("E", "M"):
        return a[0] + hexs(a[1])
    return "L" + "+".join(it[0] + (hexs(it[1]) if len(it) > 1 else "") for it in a[1])


def attrs_token(attrs):
    return ",".join(attr_token(a) for a in attrs) if attrs else "-"


def type_lines(t):
    out = []
    if t["kind"] == "enum":
        vs = " ".join("%s:%s%s:%s" % (hexs(v["ident"]), v["fields"][0], "" if v["fields"][0] == "u" else v["fields"][1],
                                      attrs_token(v["attrs"])) for v in t["variants"])
        out.append("type %d %s %s %s %s" % (t["tid"], "senum" if t["static"] else "enum", hexs(t["ident"]),
                                           attrs_token(t["cattrs"]), vs))
    elif t["kind"] == "unit":
        out.append("type %d %s %s %s" % (t["tid"], "sunit" if t["static"] else "unit", hexs(t["ident"]),
                                        attrs_token(t["cattrs"])))
    else:
        opt = lambda o: "~" if o is None else hexs(o)
        out.append("type %d edef %s %s %s %s %s" % (t["tid"], hexs(t["ident"]), opt(t["prefix"]), opt(t["suffix"]),
                                                   opt(t["table_name"]), " ".join(hexs(f) for f in t["fields"])))
    for m, r in sorted(t["methods"].items()):
        out.append("meth %d %s %s" % (t["tid"], hexs(m), hexs(r)))
    return out


def closure(types, tid, acc=None):
    """the type ids a type depends on (flatten targets), dependencies first"""
    if acc is None:
        acc = []
    t = types[tid]
    for v in t.get("variants", []):
        if v["inner"] is not None:
            closure(types, v["inner"], acc)
    if tid not in acc:
        acc.append(tid)
    return acc


# --------------------------------------------------------------------------------------------------
# Rust source
# --------------------------------------------------------------------------------------------------

def rust_lit(s):
    out = []
    for ch in s:
        if ch == '"' or ch == "\\":
            out.append("\\" + ch)
        elif " " <= ch <= "~":
            out.append(ch)
        else:
            out.append("\\u{%x}" % ord(ch))
    return '"' + "".join(out) + '"'


def rust_attr(a):
    if a[0] == "E":
        return "#[iden = %s]" % rust_lit(a[1])
    if a[0] == "M":
        return "#[method = %s]" % rust_lit(a[1])
    items = []
    for it in a[1]:
        items.append("flatten" if it[0] == "f" else "%s = %s" % ({"r": "rename", "m": "method"}[it[0]], rust_lit(it[1])))
    return "#[iden(%s)]" % ", ".join(items)


def rust_type_path(types, tid):
    t = types[tid]
    name = edef_enum_name(t) if t["kind"] == "edef" else t["ident"]
    return "crate::t%d::%s" % (tid, name)


def rust_typedef(types, t):
    # the derives expand to method calls (self.unquoted(..), delegated.as_str()) that need the traits in scope
    L = ["pub mod t%d {" % t["tid"], "    use sea_query::{Iden as _, IdenStatic as _};"]
    if t["kind"] == "edef":
        args = []
        for k in ("prefix", "suffix", "table_name"):
            if t[k] is not None:
                args.append("%s = %s" % (k, rust_lit(t[k])))
        L.append("    #[sea_query::enum_def%s]" % ("(%s)" % ", ".join(args) if args else ""))
        L.append("    pub struct %s { %s }" % (t["ident"], ", ".join("pub %s: u8" % f for f in t["fields"])))
    else:
        derives = "sea_query::IdenStatic, Clone, Copy" if t["static"] else "sea_query::Iden"
        L.append("    #[derive(%s)]" % derives)
        for a in t["cattrs"]:
            L.append("    " + rust_attr(a))
        if t["kind"] == "unit":
            L.append("    pub struct %s;" % t["ident"])
        else:
            L.append("    pub enum %s {" % t["ident"])
            for v in t["variants"]:
                for a in v["attrs"]:
                    L.append("        " + rust_attr(a))
                k, n = v["fields"]
                if v["inner"] is not None:
                    ty = rust_type_path(types, v["inner"])
                    body = "(%s)" % ty if k == "t" else "{ inner: %s }" % ty
                elif k == "u":
                    body = ""
                elif k == "t":
                    body = "(%s)" % ", ".join(["u8"] * n)
                else:
                    body = "{ %s }" % ", ".join("f%d: u8" % j for j in range(n))
                L.append("        %s%s," % (v["ident"], body))
            L.append("    }")
            if t["methods"]:
                L.append("    impl %s {" % t["ident"])
                for m, r in sorted(t["methods"].items()):
                    L.append("        pub fn %s(&self) -> &'static str { %s }" % (m, rust_lit(r)))
                L.append("    }")
    L.append("}")
    return "\n".join(L)


def rust_value(types, tid, value):
    t = types[tid]
    path = rust_type_path(types, tid)
    if t["kind"] == "unit":
        return path
    i, inner = parse_value(value)
    if t["kind"] == "edef":
        vname = "Table" if i == 0 else spec_pascal(t["fields"][i - 1])
        return "%s::%s" % (path, vname)
    v = t["variants"][i]
    k, n = v["fields"]
    if inner is not None:
        e = rust_value(types, inner[0], inner[1])
        return "%s::%s%s" % (path, v["ident"], "(%s)" % e if k == "t" else "{ inner: %s }" % e)
    if k == "u":
        return "%s::%s" % (path, v["ident"])
    if k == "t":
        return "%s::%s(%s)" % (path, v["ident"], ", ".join(["0"] * n))
    return "%s::%s { %s }" % (path, v["ident"], ", ".join("f%d: 0" % j for j in range(n)))


PRELUDE = r'''// generated by tools/derive_gen.py — do not edit
#![allow(dead_code, non_camel_case_types, non_snake_case, unused_variables, unused_imports)]
use sea_query::{Alias, Iden, IdenStatic, Quote};

fn hex(s: &str) -> String {
    if s.is_empty() { "-".to_string() } else { s.bytes().map(|b| format!("{:02x}", b)).collect() }
}
fn tyname<T>() -> String {
    std::any::type_name::<T>().rsplit("::").next().unwrap().to_string()
}
fn prep(v: &dyn Iden, q: u8) -> String {
    let mut s = String::new();
    v.prepare(&mut s, Quote::new(q));
    s
}
fn unhex(h: &str) -> String {
    if h == "-" { return String::new(); }
    let b: Vec<u8> = (0..h.len() / 2).map(|i| u8::from_str_radix(&h[2 * i..2 * i + 2], 16).unwrap()).collect();
    String::from_utf8(b).unwrap()
}
// --heck <file>: one hex name per line -> snake_case and PascalCase by the heck the macro is built with
fn heck_mode(path: &str) {
    use heck::{ToPascalCase, ToSnakeCase};
    use std::io::Write;
    let text = std::fs::read_to_string(path).unwrap();
    let out = std::io::stdout();
    let mut out = std::io::BufWriter::new(out.lock());
    for line in text.lines() {
        let s = unhex(line.trim());
        writeln!(out, "{} {}", hex(&s.to_snake_case()), hex(&s.to_pascal_case())).unwrap();
    }
}
// one output line per value: to_string, prepare under ` and ", the general quoting of the same text
// computed by the trait's default methods on a plain Alias, as_str, Debug name, type name
fn row<T: Iden>(v: T, as_str: Option<&'static str>, dbg: Option<String>) {
    let ts = v.to_string();
    let a = Alias::new(ts.clone());
    println!("{} {} {} {} {} {} {} {}", hex(&ts), hex(&prep(&v, b'`')), hex(&prep(&v, b'"')),
        hex(&prep(&a, b'`')), hex(&prep(&a, b'"')),
        as_str.map(hex).unwrap_or_else(|| "~".to_string()),
        dbg.map(|d| hex(&d)).unwrap_or_else(|| "~".to_string()), hex(&tyname::<T>()));
}
'''


PRELUDE += r'''fn row_s<T: IdenStatic>(v: T) {
    let a = IdenStatic::as_str(&v);
    row(v, Some(a), None);
}
fn row_e<T: IdenStatic + std::fmt::Debug>(v: T) {
    let a = IdenStatic::as_str(&v);
    let d = format!("{:?}", v);
    row(v, Some(a), Some(d));
}
'''


def rust_source(types, queries):
    """queries: list of (tid, value)"""
    L = [PRELUDE]
    for t in ([types[k] for k in sorted(types)] if isinstance(types, dict) else types):
        L.append(rust_typedef(types, t))
    chunks = [queries[i:i + 150] for i in range(0, len(queries), 150)]
    for ci, ch in enumerate(chunks):
        L.append("fn rows_%d() {" % ci)
        for tid, value in ch:
            t = types[tid]
            e = rust_value(types, tid, value)
            if t["kind"] == "edef":
                L.append("    row_e(%s);" % e)
            elif t["static"]:
                L.append("    row_s(%s);" % e)
            else:
                L.append("    row(%s, None, None);" % e)
        L.append("}")
    L.append("fn main() {")
    L.append("    let a: Vec<String> = std::env::args().collect();")
    L.append("    if a.len() == 3 && a[1] == \"--heck\" { heck_mode(&a[2]); return; }")
    for ci in range(len(chunks)):
        L.append("    rows_%d();" % ci)
    L.append("}")
    return "\n".join(L) + "\n"


CARGO_TOML = '''[package]
name = "sqv-c19"
version = "0.1.0"
edition = "2021"

[workspace]

[dependencies]
sea-query = { path = "/repo", default-features = false, features = ["derive", "attr", "backend-mysql", "backend-postgres", "backend-sqlite"] }
# the same heck (version from /repo's Cargo.lock, same feature set as sea-query-derive asks for) for the dense name check
heck = { version = "0.4", default-features = false }

[profile.dev]
opt-level = 0
debug = false
incremental = false
'''


class BuildFailed(Exception):
    pass


def build(source, timeout=3000):
    """write the crate and compile it against /repo's working tree (offline); returns the binary"""
    os.makedirs(os.path.join(CRATE, "src"), exist_ok=True)
    os.makedirs(TARGET, exist_ok=True)
    with open(os.path.join(CRATE, "Cargo.toml"), "w") as f:
        f.write(CARGO_TOML.replace('path = "/repo"', 'path = "%s"' % REPO))
    with open(os.path.join(CRATE, "src", "main.rs"), "w") as f:
        f.write(source)
    subprocess.run(["cp", os.path.join(REPO, "Cargo.lock"), os.path.join(CRATE, "Cargo.lock")], check=False)
    env = dict(os.environ)
    env.update({"CARGO_NET_OFFLINE": "true", "CARGO_TARGET_DIR": TARGET})
    p = subprocess.run(["cargo", "build", "--offline", "--quiet"], cwd=CRATE, env=env, stdout=subprocess.PIPE,
                       stderr=subprocess.STDOUT, timeout=timeout)
    out = p.stdout.decode("utf-8", "replace")
    if p.returncode != 0:
        raise BuildFailed(out)
    return os.path.join(TARGET, "debug", "sqv-c19")
