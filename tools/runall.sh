#!/bin/sh
# usage: tools/runall.sh [tier] : every check once (after ./check --setup); prints one line per check and the
# list of checks that raised an alarm. Run this after ANY change to shared code (harness, tools, extract, coq).
cd "$(dirname "$0")/.."
TIER="${1:-quick}"
./check --setup 2>&1 | tail -n 1
BAD=""
for i in 01 02 03 04 05 06 07 08 09 10 11 12 13 14 15 16 17 18 19 20; do
  ./check C$i "$TIER" > .cache/runall_C$i.log 2>&1
  rc=$?
  echo "C$i rc=$rc $(tail -n 1 .cache/runall_C$i.log | cut -c1-90)"
  [ $rc -ne 0 ] && BAD="$BAD C$i"
done
echo "alarms:${BAD:- none}"
