"""C20: translate the public type graph of /repo (sea_query) into Gallina.

Source of truth: rustdoc JSON (`cargo +nightly rustdoc ... --output-format json
--document-private-items`) of /repo built with a given feature set. For every struct/enum of the
crate (public or not) the translator lists the types of ALL fields (private ones and every enum
variant payload included) over the small type language of coq/Spec/AutoTrait.v. Generic types are
monomorphised: every instantiation that occurs in a field (SeaRc<dyn Iden>) is a node of its own,
and every generic type is also instantiated with a Send + Sync dummy (SeaRc<SqvDummy>).

The same graph is rendered three ways: Gallina (coq/Generated/TypeGraph*.v), a Rust statement list
for harness_c20 (rustc decides Send / Sync of every nameable public type), and a Python structure
used only to explain a failure (offending field path).
"""
import json
import os
import re
import subprocess

import vlib

REPO = vlib.REPO
CACHE = os.path.join(vlib.CACHE, "c20")
HARNESS_DIR = os.path.join(vlib.ROOT, "harness_c20")

VALUE_FEATURES = ["with-json", "with-chrono", "with-uuid", "with-rust_decimal", "with-bigdecimal", "with-time",
                  "with-ipnetwork", "with-mac_address", "postgres-array", "postgres-vector"]

# the two configurations whose graphs are committed under coq/Generated
CFG_TS = ("ts-all", ["thread-safe", "all-types", "hashable-value"])
CFG_NOTS = ("nots-all", ["all-types", "hashable-value"])
GENERATED = {"ts-all": "TypeGraph.v", "nots-all": "TypeGraphNoTS.v"}


class Unsupported(Exception):
    """the type language of Spec/AutoTrait.v cannot express something found in /repo"""


# std type constructors and their class in Spec/AutoTrait.v
STD_CTORS = {
    "alloc::boxed::Box": "own", "alloc::vec::Vec": "own", "core::option::Option": "own",
    "core::result::Result": "own", "alloc::collections::vec_deque::VecDeque": "own",
    "alloc::collections::btree::map::BTreeMap": "own", "alloc::collections::btree::set::BTreeSet": "own",
    "alloc::collections::binary_heap::BinaryHeap": "own", "alloc::collections::linked_list::LinkedList": "own",
    "std::collections::hash::map::HashMap": "own", "std::collections::hash::set::HashSet": "own",
    "core::marker::PhantomData": "own",
    "alloc::rc::Rc": "rc", "alloc::rc::Weak": "rc",
    "alloc::sync::Arc": "arc", "alloc::sync::Weak": "arc",
    "core::cell::Cell": "cell", "core::cell::RefCell": "cell", "core::cell::UnsafeCell": "cell",
    "core::cell::once::OnceCell": "cell",
    "std::sync::poison::mutex::Mutex": "mutex", "std::sync::mutex::Mutex": "mutex",
    "std::sync::poison::rwlock::RwLock": "rwlock", "std::sync::rwlock::RwLock": "rwlock",
}
STD_LEAVES = {"alloc::string::String": "String", "std::hash::random::RandomState": "RandomState",
              "std::collections::hash::map::RandomState": "RandomState"}
STD_CRATES = ("std", "core", "alloc")
AUTO = {"core::marker::Send": "Send", "core::marker::Sync": "Sync"}


# "no-default" is not a feature of sea-query: it stands for `default-features = false` (configurations that
# compile only some of the backends, round 12)
DEFAULT_FEATURES = ["derive", "backend-mysql", "backend-postgres", "backend-sqlite"]


def features_arg(feats):
    return ",".join(f for f in feats if f != "no-default")


def doc_target(key):
    return os.path.join(vlib.TARGET, "c20doc-" + key)


def rustdoc_json(key, feats, timeout=1500, target_key=None):
    """run rustdoc (nightly, offline) on /repo with the feature set; output under /verif/.cache only.
    The previous JSON is removed first so that what is read was written by this invocation."""
    tdir = doc_target(target_key or key)
    os.makedirs(tdir, exist_ok=True)
    path = os.path.join(tdir, "doc", "sea_query.json")
    try:
        os.remove(path)
    except FileNotFoundError:
        pass
    env = dict(vlib.ENV)
    env["CARGO_TARGET_DIR"] = tdir
    cmd = ["cargo", "+nightly", "rustdoc", "--offline", "--quiet", "--lib", "--manifest-path",
           os.path.join(REPO, "Cargo.toml")]
    if "no-default" in feats:
        cmd += ["--no-default-features"]
    if features_arg(feats):
        cmd += ["--features", features_arg(feats)]
    cmd += ["--", "-Z", "unstable-options", "--output-format", "json", "--document-private-items",
            "--cap-lints", "allow"]
    rc, out = vlib.sh(cmd, cwd=REPO, timeout=timeout, env=env)
    if rc != 0 or not os.path.exists(path):
        raise vlib.BuildError("rustdoc JSON (%s) failed:\n%s" % (key, out[-3000:]))
    return path


# --------------------------------------------------------------------------------------------------
# rustdoc JSON -> graph
# --------------------------------------------------------------------------------------------------

class Graph:
    def __init__(self, key, feats):
        self.key = key
        self.feats = list(feats)
        self.nodes = []        # dict(name, item_path, public_path, rust, fields=[(label, ty)], generic, visibility)
        self.aliases = {}      # alias name -> node index
        self.ext_leaves = set()
        self.dyn_leaves = {}
        self.notes = []
        self.manual_auto_impls = []
        self.format_version = None

    def scope(self):
        return [i for i, n in enumerate(self.nodes) if n["rust"]]


def _kind(item):
    return next(iter(item["inner"].keys()))


class Translator:
    def __init__(self, doc, key, feats):
        self.d = doc
        self.idx = doc["index"]
        self.paths = doc["paths"]
        self.g = Graph(key, feats)
        self.g.format_version = doc.get("format_version")
        self.inst = {}   # (item id, args tuple) -> node index
        self.pub = self.public_paths()

    # -- public (nameable) paths -------------------------------------------------------------------
    def public_paths(self):
        best = {}

        def register(i, path):
            old = best.get(i)
            if old is None or (len(path), path) < (len(old), old):
                best[i] = path

        seen = set()

        def collect(mod_id, prefix):
            k = (mod_id, tuple(prefix))
            if k in seen or len(prefix) > 6:
                return
            seen.add(k)
            mod = self.idx.get(str(mod_id))
            if mod is None or "module" not in mod["inner"]:
                return
            for it in mod["inner"]["module"]["items"]:
                x = self.idx.get(str(it))
                if x is None or x["visibility"] != "public":
                    continue
                kind = _kind(x)
                if kind == "module":
                    collect(it, prefix + [x["name"]])
                elif kind == "use":
                    u = x["inner"]["use"]
                    tgt = u.get("id")
                    if tgt is None or str(tgt) not in self.idx:
                        continue
                    t = self.idx[str(tgt)]
                    if u.get("is_glob"):
                        if "module" in t["inner"]:
                            collect(tgt, prefix)
                    elif "module" in t["inner"]:
                        collect(tgt, prefix + [u["name"]])
                    else:
                        register(tgt, prefix + [u["name"]])
                elif kind in ("struct", "enum", "trait", "type_alias", "union"):
                    register(it, prefix + [x["name"]])

        root = self.d["root"]
        collect(root, [self.idx[str(root)]["name"]])
        return best

    # -- helpers -----------------------------------------------------------------------------------
    def full_path(self, i):
        p = self.paths.get(str(i))
        return "::".join(p["path"]) if p else None

    def trait_autos(self, trait_id, seen=None):
        """auto traits implied by a trait: itself if it is Send/Sync, else its supertraits (local traits only)"""
        seen = seen if seen is not None else set()
        if trait_id in seen:
            return set()
        seen.add(trait_id)
        fp = self.full_path(trait_id)
        if fp in AUTO:
            return {AUTO[fp]}
        it = self.idx.get(str(trait_id))
        if it is None or "trait" not in it["inner"]:
            return set()      # trait of another crate: its supertraits are not in this JSON; none assumed
        t = it["inner"]["trait"]
        bounds = list(t.get("bounds", []))
        for wp in t["generics"].get("where_predicates", []):
            bp = wp.get("bound_predicate")
            if bp and bp["type"] == {"generic": "Self"}:
                bounds += bp["bounds"]
        out = set()
        for b in bounds:
            tb = b.get("trait_bound")
            if tb and tb.get("modifier", "none") == "none":
                out |= self.trait_autos(tb["trait"]["id"], seen)
        return out

    # -- types -------------------------------------------------------------------------------------
    def conv_args(self, args, env, where):
        out = []
        if not args:
            return out
        if "angle_bracketed" not in args:
            raise Unsupported("%s: parenthesized generic args" % where)
        for a in args["angle_bracketed"]["args"]:
            if "type" in a:
                out.append(self.conv(a["type"], env, where))
            elif "lifetime" in a:
                continue
            else:
                raise Unsupported("%s: const generic argument %s" % (where, json.dumps(a)[:100]))
        if args["angle_bracketed"].get("constraints"):
            raise Unsupported("%s: associated type constraints" % where)
        return out

    def conv(self, t, env, where):
        k = next(iter(t.keys()))
        v = t[k]
        if k == "primitive":
            if v == "never":
                return ("leaf", "prim", "!")
            return ("leaf", "prim", v)
        if k == "tuple":
            return ("own", "tuple", tuple(self.conv(x, env, where) for x in v))
        if k == "slice":
            return ("own", "slice", (self.conv(v, env, where),))
        if k == "array":
            return ("own", "array", (self.conv(v["type"], env, where),))
        if k == "borrowed_ref":
            inner = self.conv(v["type"], env, where)
            return ("mutref" if v["is_mutable"] else "ref", inner)
        if k == "raw_pointer":
            return ("rawptr", self.conv(v["type"], env, where))
        if k == "function_pointer":
            return ("leaf", "fnptr")
        if k == "generic":
            if v in env:
                return env[v]
            raise Unsupported("%s: unbound type parameter %s" % (where, v))
        if k == "dyn_trait":
            autos, names, explicit = set(), [], []
            for tr in v["traits"]:
                tid = tr["trait"]["id"]
                fp = self.full_path(tid) or tr["trait"]["path"]
                if fp in AUTO:
                    autos.add(AUTO[fp])
                    explicit.append(AUTO[fp])
                else:
                    names.append(tr["trait"]["path"].split("::")[-1])
                    autos |= self.trait_autos(tid)
            name = "dyn " + " + ".join(names + sorted(explicit))
            self.g.dyn_leaves[name] = {"send": "Send" in autos, "sync": "Sync" in autos,
                                       "rust": self.render_dyn(v)}
            return ("leaf", "dyn", name, "Send" in autos, "Sync" in autos)
        if k == "resolved_path":
            return self.conv_path(v, env, where)
        raise Unsupported("%s: type form %s" % (where, k))

    def render_dyn(self, v):
        """Rust spelling of a dyn type usable from another crate, or None"""
        parts = []
        for tr in v["traits"]:
            tid = tr["trait"]["id"]
            fp = self.full_path(tid)
            if tid in self.pub:
                parts.append("::".join(self.pub[tid]))
            elif fp in AUTO:
                parts.append(AUTO[fp])
            else:
                return None
        return "dyn " + " + ".join(parts)

    def conv_path(self, v, env, where):
        i = v["id"]
        local = self.idx.get(str(i))
        pinfo = self.paths.get(str(i))
        args = self.conv_args(v.get("args"), env, where)
        if local is not None and local.get("crate_id", 0) == 0:
            kind = _kind(local)
            if kind in ("struct", "enum"):
                return ("node", self.instance(i, tuple(args)))
            if kind == "type_alias":
                ta = local["inner"]["type_alias"]
                params = [p["name"] for p in ta["generics"]["params"] if "type" in p["kind"]]
                if len(params) != len(args):
                    raise Unsupported("%s: alias %s arity" % (where, local["name"]))
                return self.conv(ta["type"], dict(zip(params, args)), where + " via alias " + local["name"])
            if kind == "union":
                raise Unsupported("%s: union %s" % (where, local["name"]))
            raise Unsupported("%s: path to %s %s" % (where, kind, local["name"]))
        if pinfo is None:
            raise Unsupported("%s: unresolved path %s" % (where, v.get("path")))
        fp = "::".join(pinfo["path"])
        crate = pinfo["path"][0]
        if fp in STD_LEAVES:
            return ("leaf", "prim", STD_LEAVES[fp])
        if fp in STD_CTORS:
            cls = STD_CTORS[fp]
            short = pinfo["path"][-1]
            if cls == "own":
                return ("own", short, tuple(args))
            if len(args) < 1:
                raise Unsupported("%s: %s without type argument" % (where, fp))
            return (cls, args[0])
        if crate in STD_CRATES:
            raise Unsupported("%s: std type %s is not in the rule set" % (where, fp))
        # type of another crate: a leaf, assumed Send + Sync (checked only through rustc's verdict on
        # the crate types that contain it)
        name = fp
        if args:
            name += "<" + ", ".join(show_ty(a, self.g) for a in args) + ">"
        self.g.ext_leaves.add(name)
        return ("leaf", "ext", name)

    # -- nodes -------------------------------------------------------------------------------------
    def type_params(self, item):
        kind = _kind(item)
        gen = item["inner"][kind]["generics"]
        names = []
        for p in gen["params"]:
            if "type" in p["kind"]:
                names.append(p["name"])
            elif "const" in p["kind"]:
                raise Unsupported("%s: const generic parameter" % item["name"])
        return names

    def instance(self, item_id, args):
        key = (item_id, args)
        if key in self.inst:
            return self.inst[key]
        item = self.idx[str(item_id)]
        n = len(self.g.nodes)
        self.inst[key] = n
        if n > 5000:
            raise Unsupported("monomorphisation does not terminate (polymorphic recursion?)")
        name = item["name"]
        if args:
            name += "<" + ", ".join(show_ty(a, self.g) for a in args) + ">"
        node = {"name": name, "item": item["name"], "item_path": self.full_path(item_id) or item["name"],
                "visibility": item["visibility"], "fields": [], "generic_args": list(args),
                "span": "%s:%s" % (item["span"]["filename"], item["span"]["begin"][0]) if item.get("span") else "",
                "rust": None}
        self.g.nodes.append(node)
        params = self.type_params(item)
        if len(params) != len(args):
            raise Unsupported("%s: arity mismatch" % name)
        env = dict(zip(params, args))
        node["fields"] = self.fields_of(item, env)
        node["rust"] = self.rust_name(item_id, item, args)
        return n

    def fields_of(self, item, env):
        out = []
        kind = _kind(item)
        body = item["inner"][kind]

        def field(fid, label):
            f = self.idx[str(fid)]
            where = "%s.%s" % (item["name"], label)
            out.append((label, self.conv(f["inner"]["struct_field"], env, where)))

        def struct_kind(k, prefix):
            if k == "unit" or k == "plain":
                return
            if "tuple" in k:
                for pos, fid in enumerate(k["tuple"]):
                    if fid is None:
                        raise Unsupported("%s: stripped field (rustdoc must run with --document-private-items)" % item["name"])
                    field(fid, "%s%d" % (prefix, pos))
            else:
                body2 = k.get("plain") or k.get("struct")
                if body2.get("has_stripped_fields"):
                    raise Unsupported("%s: stripped fields" % item["name"])
                for fid in body2["fields"]:
                    field(fid, prefix + self.idx[str(fid)]["name"])

        if kind == "struct":
            struct_kind(body["kind"], "")
        else:
            if body.get("has_stripped_variants"):
                raise Unsupported("%s: stripped variants" % item["name"])
            for vid in body["variants"]:
                var = self.idx[str(vid)]
                struct_kind(var["inner"]["variant"]["kind"], var["name"] + ".")
        return out

    def rust_name(self, item_id, item, args):
        """a Rust type expression naming this instance from another crate, or None"""
        if item["visibility"] != "public" or item_id not in self.pub:
            return None
        base = "::".join(self.pub[item_id])
        if not args:
            return base
        rs = []
        for a in args:
            if a[0] == "leaf" and a[1] == "param":
                rs.append("crate::SqvDummy")
            elif a[0] == "leaf" and a[1] == "dyn":
                r = self.g.dyn_leaves[a[2]]["rust"]
                if r is None:
                    return None
                rs.append(r)
            elif a[0] == "node" and self.g.nodes[a[1]]["rust"]:
                rs.append(self.g.nodes[a[1]]["rust"])
            elif a[0] == "leaf" and a[1] == "prim" and a[2] not in ("!",):
                rs.append(a[2])
            else:
                return None
        return "%s<%s>" % (base, ", ".join(rs))

    # -- whole crate -------------------------------------------------------------------------------
    def run(self):
        roots = []
        for k, it in self.idx.items():
            if it.get("crate_id", 0) != 0:
                continue
            kind = _kind(it)
            if kind in ("struct", "enum"):
                roots.append((self.full_path(it["id"]) or it["name"], it["id"]))
            elif kind == "union":
                raise Unsupported("union %s" % it["name"])
            elif kind == "impl":
                im = it["inner"]["impl"]
                tr = im.get("trait")
                if tr and not im.get("is_synthetic") and not im.get("blanket_impl"):
                    fp = self.full_path(tr["id"])
                    if fp in AUTO:
                        self.g.manual_auto_impls.append("%s%s for %s" % (
                            "!" if im.get("is_negative") else "", AUTO[fp], json.dumps(im.get("for"))[:120]))
        roots.sort()
        dummy = ("leaf", "param", "SqvDummy", True, True)
        for _, i in roots:
            item = self.idx[str(i)]
            params = self.type_params(item)
            self.instance(i, tuple(dummy for _ in params))
        if self.g.manual_auto_impls:
            self.g.notes.append("manual Send/Sync impls in the crate are NOT modelled: %s" % self.g.manual_auto_impls)
        # aliases that denote a node
        for k, it in self.idx.items():
            if it.get("crate_id", 0) == 0 and _kind(it) == "type_alias":
                ta = it["inner"]["type_alias"]
                if any("type" in p["kind"] for p in ta["generics"]["params"]):
                    continue
                try:
                    t = self.conv(ta["type"], {}, "alias " + it["name"])
                except Unsupported:
                    continue
                if t[0] == "node":
                    self.g.aliases[it["name"]] = t[1]
        # unique display names
        seen = {}
        for n in self.g.nodes:
            seen.setdefault(n["name"], []).append(n)
        for name, lst in seen.items():
            if len(lst) > 1:
                for n in lst:
                    n["name"] = n["item_path"] + n["name"][len(n["item"]):]
        return self.g


def show_ty(t, g=None):
    k = t[0]
    if k == "leaf":
        if t[1] == "fnptr":
            return "fn"
        return t[2]
    if k == "node":
        return g.nodes[t[1]]["name"] if g and t[1] < len(g.nodes) else "#%d" % t[1]
    if k == "own":
        if t[1] == "tuple":
            return "(" + ", ".join(show_ty(x, g) for x in t[2]) + ")"
        return "%s<%s>" % (t[1], ", ".join(show_ty(x, g) for x in t[2]))
    names = {"rc": "Rc", "arc": "Arc", "cell": "Cell", "ref": "&", "mutref": "&mut ", "mutex": "Mutex",
             "rwlock": "RwLock", "rawptr": "*"}
    if k in ("ref", "mutref", "rawptr"):
        return names[k] + show_ty(t[1], g)
    return "%s<%s>" % (names[k], show_ty(t[1], g))


def load_graph(key, feats, json_path=None, target_key=None):
    json_path = json_path or rustdoc_json(key, feats, target_key=target_key)
    doc = json.load(open(json_path))
    return Translator(doc, key, feats).run()


# --------------------------------------------------------------------------------------------------
# graph -> Gallina
# --------------------------------------------------------------------------------------------------

def cstr(s):
    if any(ord(c) > 126 or ord(c) < 32 for c in s):
        s = "".join(c if 32 <= ord(c) <= 126 else "?" for c in s)
    return '"%s"' % s.replace('"', '""')


def cbool(b):
    return "true" if b else "false"


def coq_ty(t):
    k = t[0]
    if k == "leaf":
        if t[1] == "prim":
            return "TLeaf (LPrim %s)" % cstr(t[2])
        if t[1] == "ext":
            return "TLeaf (LExt %s)" % cstr(t[2])
        if t[1] == "dyn":
            return "TLeaf (LDyn %s %s %s)" % (cstr(t[2]), cbool(t[3]), cbool(t[4]))
        if t[1] == "param":
            return "TLeaf (LParam %s %s %s)" % (cstr(t[2]), cbool(t[3]), cbool(t[4]))
        return "TLeaf LFnPtr"
    if k == "node":
        return "TNode %d" % t[1]
    if k == "own":
        return "TOwn %s [%s]" % (cstr(t[1]), "; ".join(coq_ty(x) for x in t[2]))
    ctor = {"rc": "TRc", "arc": "TArc", "cell": "TCell", "ref": "TRef", "mutref": "TMutRef", "mutex": "TMutex",
            "rwlock": "TRwLock", "rawptr": "TRawPtr"}[k]
    return "%s (%s)" % (ctor, coq_ty(t[1]))


def coq_ident(name):
    s = re.sub(r"[^A-Za-z0-9]+", "_", name).strip("_")
    return "n_" + s


def to_coq(g):
    lines = []
    lines.append("(* GENERATED by tools/typegraph.py from the rustdoc JSON of /repo - do not edit.")
    lines.append("   features: %s" % (" ".join(g.feats) or "(default only)"))
    lines.append("   every struct / enum of sea_query with the types of all its fields; see Spec/AutoTrait.v *)")
    lines.append("From Coq Require Import String List.")
    lines.append("Require Import SQV.Spec.AutoTrait.")
    lines.append("Import ListNotations.")
    lines.append("Open Scope string_scope.")
    lines.append("")
    lines.append("Definition features : list string := [%s]." % "; ".join(cstr(f) for f in g.feats))
    lines.append("")
    lines.append("Definition nodes : list (string * list ty) := [")
    rows = []
    for i, n in enumerate(g.nodes):
        fs = ";\n      ".join(coq_ty(t) for _, t in n["fields"])
        rows.append("  (* %d *) (%s, [%s%s])" % (i, cstr(n["name"]), "\n      " if fs else "", fs))
    lines.append(";\n".join(rows))
    lines.append("].")
    lines.append("")
    lines.append("Definition graph : graph := map snd nodes.")
    lines.append("Definition names : list string := map fst nodes.")
    lines.append("")
    lines.append("(* the public types another crate can name: the property quantifies over these *)")
    sc = g.scope()
    chunks = ["; ".join(str(x) for x in sc[i:i + 20]) for i in range(0, len(sc), 20)]
    lines.append("Definition scope : list nat := [\n  %s]." % ";\n  ".join(chunks))
    lines.append("")
    used = {}
    for i, n in enumerate(g.nodes):
        ident = coq_ident(n["name"])
        if ident in used:
            ident = "%s_%d" % (ident, i)
        used[ident] = i
        lines.append("Definition %s : nat := %d." % (ident, i))
    for a, i in sorted(g.aliases.items()):
        ident = coq_ident(a)
        if ident not in used:
            used[ident] = i
            lines.append("Definition %s : nat := %d. (* type alias *)" % (ident, i))
    lines.append("")
    return "\n".join(lines)


def write_generated(g, path):
    import regen
    return regen.write_if_changed(path, to_coq(g))


# --------------------------------------------------------------------------------------------------
# graph -> Rust (rustc decides)
# --------------------------------------------------------------------------------------------------

def to_rust(g):
    rows = ["{"]
    for i in g.scope():
        n = g.nodes[i]
        rows.append("    row!(%d, %s);" % (i, n["rust"]))
    rows.append("}")
    return "\n".join(rows) + "\n"


def prepare_lock():
    """harness_c20/Cargo.lock always starts from /repo's (same dependency versions as the crate under
    test); resolved once here so that parallel builds do not rewrite it"""
    dst = os.path.join(HARNESS_DIR, "Cargo.lock")
    tmp = dst + ".tmp%d" % os.getpid()
    with open(os.path.join(REPO, "Cargo.lock"), "rb") as f:
        data = f.read()
    with open(tmp, "wb") as f:
        f.write(data)
    os.replace(tmp, dst)
    vlib.sh(["cargo", "metadata", "--offline", "--format-version", "1"], cwd=HARNESS_DIR, timeout=300)


def harness_build(g, target_key=None, demo=False, timeout=1500, lock_ready=False):
    """build harness_c20 against /repo with g's feature set and run it: {node index: (send, sync)}"""
    import regen
    cdir = os.path.join(CACHE, g.key)
    os.makedirs(cdir, exist_ok=True)
    types_rs = os.path.join(cdir, "types.rs")
    regen.write_if_changed(types_rs, to_rust(g))
    if not lock_ready:
        prepare_lock()
    tdir = os.path.join(vlib.TARGET, "c20-" + (target_key or g.key))
    env = dict(vlib.ENV)
    env["CARGO_TARGET_DIR"] = tdir
    env["SQV_C20_TYPES"] = types_rs
    # harness_c20 depends on sea-query with default-features = false: the default set is named here unless the
    # configuration asks for "no-default"
    fl = [f for f in g.feats if f != "no-default"] + ([] if "no-default" in g.feats else DEFAULT_FEATURES)
    feats = ["sea-query/" + f for f in fl]
    cmd = ["cargo", "build", "--offline", "--quiet"]
    if feats:
        cmd += ["--features", ",".join(feats)]
    rc, out = vlib.sh(cmd + ["--bin", "sqv-c20"], cwd=HARNESS_DIR, timeout=timeout, env=env)
    if rc != 0:
        raise vlib.BuildError("harness_c20 build (%s) failed:\n%s" % (g.key, out[-3000:]))
    exe = os.path.join(tdir, "debug", "sqv-c20")
    rc, out = vlib.sh([exe], timeout=120, env=env)
    if rc != 0:
        raise vlib.BuildError("harness_c20 run (%s) failed:\n%s" % (g.key, out[-2000:]))
    if "SELFTEST ok" not in out:
        raise vlib.BuildError("harness_c20 self-test of the Send/Sync probe failed (%s):\n%s" % (g.key, out[-500:]))
    table = {}
    for line in out.splitlines():
        f = line.split(" ")
        if f[0] == "T" and len(f) == 4:
            table[int(f[1])] = (f[2] == "true", f[3] == "true")
    demo_line = None
    if demo:
        # separate binary: if the statement types are not Send + Sync it does not compile, and the
        # table above says which type is responsible
        rc, out = vlib.sh(cmd + ["--bin", "sqv-c20-demo"], cwd=HARNESS_DIR, timeout=timeout, env=env)
        if rc != 0:
            m = re.search(r"error(\[E\d+\])?: .*", out)
            demo_line = "DEMO does not compile: " + (m.group(0)[:300] if m else out[-300:])
        else:
            rc, out = vlib.sh([os.path.join(tdir, "debug", "sqv-c20-demo")], timeout=120, env=env)
            demo_line = ([l for l in out.splitlines() if l.startswith("DEMO")] or ["DEMO failed: " + out[-300:]])[0]
    return table, demo_line


# --------------------------------------------------------------------------------------------------
# model verdicts: Coq evaluates Spec/AutoTrait.solve on the generated graph
# --------------------------------------------------------------------------------------------------

def coq_verdicts(g, workdir, generated_module=None, timeout=600):
    """returns (list of (send, sync) per node, stable?) as computed by coqc (vm_compute) — the same
    [solve] the theorems of Properties/C20.v speak about"""
    os.makedirs(workdir, exist_ok=True)
    modname = "C20Eval_" + re.sub(r"[^A-Za-z0-9]", "_", g.key)
    path = os.path.join(workdir, modname + ".v")
    if generated_module:
        body = "Require Import SQV.Spec.AutoTrait.\nRequire SQV.Generated.%s.\n" % generated_module
        gname = "%s.graph" % generated_module
    else:
        body = to_coq(g)
        gname = "graph"
    body += "\nGoal stable %s (solve %s). Proof. vm_compute. reflexivity. Qed.\n" % (gname, gname)
    body += ("From Coq Require Import String Ascii.\n"
             "Fixpoint c20_render (v : verdicts) : string :=\n"
             "  match v with\n  | nil => EmptyString\n"
             "  | cons (a, b) t => String (if a then \"1\" else \"0\")%char (String (if b then \"1\" else \"0\")%char\n"
             "                       (String \" \"%char (c20_render t)))\n  end.\n"
             "Set Printing Depth 1000000.\nSet Printing Width 1000000.\n"
             "Eval vm_compute in (c20_render (solve " + gname + ")).\n")
    with open(path, "w") as f:
        f.write(body)
    rc, out = vlib.sh(["coqc", "-Q", vlib.COQ, "SQV", "-w", "-notation-overridden", path], cwd=workdir, timeout=timeout)
    if rc != 0:
        raise vlib.BuildError("coq evaluation of the model (%s) failed:\n%s" % (g.key, out[-2000:]))
    m = re.search(r'= "([01 \n]*)"', out)
    if not m:
        raise vlib.BuildError("coq evaluation of the model (%s): unexpected output:\n%s" % (g.key, out[-1000:]))
    return [(w[0] == "1", w[1] == "1") for w in m.group(1).split()]


# --------------------------------------------------------------------------------------------------
# explanation of a failure on the graph (diagnostic only; the verdicts come from Coq and rustc)
# --------------------------------------------------------------------------------------------------

def why_not(g, verdicts, n, trait, depth=0, seen=None):
    """a field path from node n to a constructor that makes `trait` fail; [] if none is found"""
    seen = seen if seen is not None else set()
    if (n, trait) in seen:
        return None
    seen.add((n, trait))
    node = g.nodes[n]
    for label, t in node["fields"]:
        r = why_ty(g, verdicts, t, trait, seen)
        if r is not None:
            return ["%s.%s : %s" % (node["name"], label, show_ty(t, g))] + r
    return None


def why_ty(g, verdicts, t, trait, seen):
    k = t[0]
    idx = 0 if trait == "Send" else 1
    if k == "leaf":
        if t[1] in ("dyn", "param") and not t[3 + idx]:
            return ["%s does not declare %s" % (t[2], trait)]
        return None
    if k == "node":
        if t[1] < len(verdicts) and verdicts[t[1]][idx]:
            return None
        return why_not(g, verdicts, t[1], trait, seen=seen)
    if k == "rc":
        return ["Rc<%s> is never %s" % (show_ty(t[1], g), trait)]
    if k == "rawptr":
        return ["raw pointer is never %s" % trait]
    if k == "arc":
        for tr in ("Send", "Sync"):
            r = why_ty(g, verdicts, t[1], tr, seen)
            if r is not None:
                return ["Arc<T>: %s needs T: %s" % (trait, tr)] + r
        return None
    if k == "own":
        for x in t[2]:
            r = why_ty(g, verdicts, x, trait, seen)
            if r is not None:
                return r
        return None
    if k == "cell":
        if trait == "Sync":
            return ["Cell/RefCell is never Sync"]
        return why_ty(g, verdicts, t[1], "Send", seen)
    if k == "ref":
        r = why_ty(g, verdicts, t[1], "Sync", seen)
        return None if r is None else ["&T: %s needs T: Sync" % trait] + r
    if k == "mutref":
        return why_ty(g, verdicts, t[1], trait, seen)
    if k == "mutex":
        r = why_ty(g, verdicts, t[1], "Send", seen)
        return None if r is None else ["Mutex<T>: %s needs T: Send" % trait] + r
    if k == "rwlock":
        for tr in (("Send",) if trait == "Send" else ("Send", "Sync")):
            r = why_ty(g, verdicts, t[1], tr, seen)
            if r is not None:
                return ["RwLock<T>: %s needs T: %s" % (trait, tr)] + r
        return None
    return None


def reaches_special(g):
    """nodes whose field graph reaches an Rc / Arc / dyn / reference / external leaf (non-trivial verdicts)"""
    def special(t):
        k = t[0]
        if k == "leaf":
            return t[1] in ("dyn", "ext", "param")
        if k == "node":
            return False
        if k == "own":
            return any(special(x) for x in t[2])
        return True

    def refs(t):
        k = t[0]
        if k == "node":
            return [t[1]]
        if k == "leaf":
            return []
        if k == "own":
            return [r for x in t[2] for r in refs(x)]
        return refs(t[1])

    good = set(i for i, n in enumerate(g.nodes) if any(special(t) for _, t in n["fields"]))
    changed = True
    while changed:
        changed = False
        for i, n in enumerate(g.nodes):
            if i not in good and any(r in good for _, t in n["fields"] for r in refs(t)):
                good.add(i)
                changed = True
    return good


# --------------------------------------------------------------------------------------------------
# regeneration entry points (used by ./check --setup and checks/c20.py)
# --------------------------------------------------------------------------------------------------

@vlib.locked
def regen_generated(graphs=None):
    """rewrite coq/Generated/TypeGraph.v and TypeGraphNoTS.v from /repo"""
    out = {}
    for key, feats in (CFG_TS, CFG_NOTS):
        g = (graphs or {}).get(key) or load_graph(key, feats)
        write_generated(g, os.path.join(vlib.COQ, "Generated", GENERATED[key]))
        out[key] = g
    return out


def setup():
    gs = regen_generated()
    prepare_lock()
    for key, g in gs.items():
        harness_build(g, demo=(key == "ts-all"), lock_ready=True)
    return gs


if __name__ == "__main__":
    import sys
    gs = regen_generated()
    for key, g in gs.items():
        print(key, len(g.nodes), "nodes,", len(g.scope()), "public;", len(g.ext_leaves), "external leaves")
        if "-v" in sys.argv:
            for i, n in enumerate(g.nodes):
                print(i, n["name"], n["rust"], [(l, show_ty(t, g)) for l, t in n["fields"]])
