"""Schema-aware generator of builder programs that are valid on a fixed SQLite schema (C07, C09).
Schema:  t(id INTEGER PRIMARY KEY, a INT, b INT, c TEXT, q INT, q<dquote> INT, q<backtick> INT)   u(id INTEGER PRIMARY KEY, a INT, d INT)
         (the three q columns differ only by a trailing quote character of one of the dialects: an identifier that
         loses it on one backend reads another column there)
         p(id INTEGER PRIMARY KEY, k INT, v INT) with the partial unique index p_k (k) WHERE k > 0
Statements are valid by construction (existing columns, matching arities), so a syntax error of the
engine on a rendering is a finding, not a generator accident."""
from vlib import hexs

SCHEMA = """
CREATE TABLE t (id INTEGER PRIMARY KEY, a INT, b INT, c TEXT, q INT DEFAULT 70, [q"] INT DEFAULT 80, "q`" INT DEFAULT 90);
CREATE TABLE u (id INTEGER PRIMARY KEY, a INT, d INT);
INSERT INTO t VALUES (1, 1, 10, 'x', 7, 8, 9), (2, 2, NULL, 'y', 17, 28, 39), (3, NULL, 30, NULL, 1, 2, NULL), (4, 2, 10, 'X', NULL, 5, 6), (5, 3, 5, 'zz', 3, NULL, 4), (6, NULL, NULL, 'n', 2, 2, 2);
INSERT INTO u VALUES (1, 1, 7), (2, 2, NULL), (3, 9, 9), (4, NULL, 1), (5, NULL, NULL);
CREATE TABLE p (id INTEGER PRIMARY KEY, k INT, v INT);
CREATE UNIQUE INDEX p_k ON p (k) WHERE k > 0;
INSERT INTO p VALUES (1, 1, 10), (2, 2, 20), (3, 0, 30), (4, 0, 40), (5, NULL, 50);
"""
TABLES = {"t": ["id", "a", "b", "c"], "u": ["id", "a", "d"]}
INT_COLS = {"t": ["id", "a", "b", "q", 'q"', "q`"], "u": ["id", "a", "d"]}


def h(s):
    return hexs(s)


import sqlite3 as _sqlite3
HAVING_WITHOUT_GROUP_BY = _sqlite3.sqlite_version_info >= (3, 39, 0)


class SG:
    def __init__(self, rng, portable=False):
        self.r = rng
        self.portable = portable    # only features common to the three backends (C09)

    def col(self, tbl, c, qualified=True):
        return "(col %s %s)" % (h(tbl), h(c)) if qualified else "(col %s)" % h(c)

    def ival(self):
        # mostly small numbers, in every integer type of Value; now and then a number at or beyond the edge of a
        # narrower type (a backend that narrows or re-types a bound integer binds another number)
        r = self.r
        if r.random() < 0.12:
            ty, v = r.choice([("u32", 3000000000), ("u32", 4294967295), ("u32", 2147483648), ("i64", 9000000000),
                              ("i64", -9000000000), ("u64", 9223372036854775807), ("u64", 5000000000),
                              ("i32", 2147483647), ("i32", -2147483648), ("u16", 65535), ("u16", 40000), ("u8", 255),
                              ("u8", 200), ("i16", -32768), ("i8", -128)])
            return "(val i:%s:%d)" % (ty, v)
        v = r.choice([0, 1, 2, 3, 5, 10, -1, 30])
        ty = r.choice(["i32", "i32", "i32", "i8", "i16", "i64"] + ([] if v < 0 else ["u8", "u16", "u32", "u64"]))
        return "(val i:%s:%d)" % (ty, v)

    def sval(self):
        # besides plain words: characters whose literal spelling differs by dialect (backslash, quotes, control
        # characters incl. U+001A, LIKE wildcards, non-ASCII)
        return "(val s:%s)" % h(self.r.choice(["x", "y", "X", "zz", "it's", "", "x", "y", "zz",
                                               "a\x1ab", "back\\slash", 'd"q', "nl\nx", "t\tx", "p%_c", "\u00e9\u4e2d", "cr\rx", "b\x08s"]))

    def int_expr(self, tbl, depth=2, alias=None):
        r = self.r
        a = alias or tbl
        if depth <= 0 or r.random() < 0.35:
            return self.col(a, r.choice(INT_COLS[tbl])) if r.random() < 0.7 else self.ival()
        k = r.random()
        d = depth - 1
        if k < 0.45:
            return "(bin %s %s %s)" % (r.choice(["add", "sub", "mul"]), self.int_expr(tbl, d, alias), self.int_expr(tbl, d, alias))
        if k < 0.55:
            return "(fn abs %s)" % self.int_expr(tbl, d, alias)
        if k < 0.65:
            return "(fn ifnull %s %s)" % (self.int_expr(tbl, d, alias), self.int_expr(tbl, d, alias))
        if k < 0.72:
            return "(fn coalesce %s %s %s)" % (self.int_expr(tbl, d, alias), self.int_expr(tbl, d, alias), self.ival())
        if k < 0.85:
            return "(case (w %s %s) (else %s))" % (self.cond_expr(tbl, d, alias), self.int_expr(tbl, d, alias), self.int_expr(tbl, d, alias))
        if k < 0.92 and not self.portable:
            return "(fn %s %s %s)" % (r.choice(["greatest", "least"]), self.int_expr(tbl, d, alias), self.int_expr(tbl, d, alias))
        return "(bin %s %s %s)" % (r.choice(["bitand", "bitor"]), self.int_expr(tbl, d, alias), self.ival())

    def cond_expr(self, tbl, depth=2, alias=None):
        r = self.r
        a = alias or tbl
        k = r.random()
        d = depth - 1
        if depth <= 0 or k < 0.4:
            op = r.choice(["eq", "ne", "lt", "le", "gt", "ge"])
            return "(bin %s %s %s)" % (op, self.int_expr(tbl, 0, alias), self.int_expr(tbl, max(0, d), alias))
        if k < 0.5:
            return "(%s %s)" % (r.choice(["isnull", "isnotnull"]), self.col(a, r.choice(TABLES[tbl])))
        if k < 0.6:
            return "(%s %s %s)" % (r.choice(["isin", "isnotin"]), self.int_expr(tbl, 0, alias),
                                   " ".join("i:i32:%d" % r.choice([1, 2, 3, 10]) for _ in range(r.randrange(0, 4))))
        if k < 0.68:
            return "(%s %s %s %s)" % (r.choice(["between", "notbetween"]), self.int_expr(tbl, d, alias), self.int_expr(tbl, d, alias), self.int_expr(tbl, d, alias))
        if k < 0.75 and tbl == "t":
            esc = " %s" % h("|") if r.random() < 0.3 else ""
            return "(%s %s %s%s)" % (r.choice(["likeapi", "notlikeapi"]), self.col(a, "c"), h(r.choice(["x%", "%", "z_", "|%"])), esc)
        if k < 0.83:
            return "(not %s)" % self.cond_expr(tbl, d, alias)
        if k < 0.95:
            return "(bin %s %s %s)" % (r.choice(["and", "or"]), self.cond_expr(tbl, d, alias), self.cond_expr(tbl, d, alias))
        other = "u" if tbl == "t" else "t"
        return "(insub %s (select (col (col %s)) (from (t %s))))" % (self.int_expr(tbl, 0, alias), h("a"), h(other))

    def cond_prog(self, tbl, depth=2, alias=None):
        r = self.r
        ops = []
        for _ in range(r.randrange(0, 4)):
            k = r.random()
            if k < 0.55 or depth <= 0:
                ops.append("(add %s)" % self.cond_expr(tbl, 1, alias))
            elif k < 0.8:
                ops.append("(add %s)" % self.cond_prog(tbl, depth - 1, alias))
            elif k < 0.9:
                ops.append("(addnone)")
            else:
                ops.append("(not)")
        return "(cond %s%s)" % (r.choice(["any", "all"]), "".join(" " + o for o in ops))

    def where(self, tbl, alias=None, kw="where", chain_ok=True):
        r = self.r
        out = []
        if kw == "where" and chain_ok and r.random() < 0.1:
            # the doc-hidden and_or_where(LogicalChainOper) - never mixed with and_where / cond_where (the code panics)
            return ["(andorwhere %s %s)" % (r.choice(["and", "and", "and", "or"]), self.cond_expr(tbl, 2, alias))
                    for _ in range(r.choice([1, 2, 2, 3]))]
        for _ in range(r.choice([0, 1, 1, 2])):
            if r.random() < 0.5:
                out.append("(and%s %s)" % (kw, self.cond_expr(tbl, 2, alias)))
            else:
                out.append("(cond%s %s)" % (kw, self.cond_prog(tbl, 2, alias)))
        return out

    def order(self, tbl, alias=None, total=True):
        r = self.r
        a = alias or tbl
        out = []
        for _ in range(r.choice([0, 1, 1])):
            # a sort key must not be a bare integer literal (SQL reads that as a column position)
            e = "(bin add %s %s)" % (self.col(a, r.choice(INT_COLS[tbl])), self.int_expr(tbl, 1, alias))
            kk = r.random()
            if kk < 0.25:
                e = self.col(a, r.choice(INT_COLS[tbl][1:]))       # a nullable column itself
            elif kk < 0.45:
                c1, c2 = INT_COLS[tbl][1], INT_COLS[tbl][2]
                e = r.choice(["(fn ifnull %s %s)", "(fn coalesce %s %s)"]) % (self.col(a, c1), self.col(a, c2))
            elif kk < 0.65:
                # a sort key whose top-level operator binds looser than IS NULL (MySQL's NULLS FIRST/LAST emulation
                # appends IS NULL to it): logical, NOT, BETWEEN and comparison expressions over nullable columns
                c1, c2 = INT_COLS[tbl][1], INT_COLS[tbl][2]
                e = r.choice(["(bin and %s %s)", "(bin or %s %s)", "(not %s)", "(between %s (val i:i32:1) %s)",
                              "(bin eq %s %s)", "(bin lt %s %s)"])
                e = e % ((self.col(a, c1), self.col(a, c2)) if e.count("%s") == 2 else (self.col(a, c1),))
            k = r.random()
            if k < 0.5:
                out.append("(orderby %s %s)" % (e, r.choice(["asc", "desc"])))
            elif k < 0.8:
                out.append("(orderby %s %s %s)" % (e, r.choice(["asc", "desc"]), r.choice(["first", "last"])))
            else:
                out.append("(orderby %s (field %s))" % (self.col(a, "a"), " ".join("i:i32:%d" % v for v in r.sample([1, 2, 3, 9], r.randrange(1, 3)))))
        if total:
            out.append("(orderby %s asc)" % self.col(a, "id"))
        return out

    # ---- SELECT shapes ----
    def select_simple(self, ordered=True, ncols=None):
        r = self.r
        tbl = r.choice(["t", "u"])
        cs = []
        if r.random() < 0.15:
            cs.append("(distinct distinct)")
        n = ncols or r.randrange(1, 4)
        for i in range(n):
            k = r.random()
            if k < 0.4:
                cs.append("(col %s)" % self.col(tbl, r.choice(TABLES[tbl])))
            elif k < 0.8:
                cs.append("(expr %s)" % self.int_expr(tbl, 2))
            else:
                cs.append("(expras %s %s)" % (self.int_expr(tbl, 2), h("x%d" % i)))
        cs.append("(from (t %s))" % h(tbl))
        joined = False
        if r.random() < 0.3:
            other = "u" if tbl == "t" else "t"
            jt = r.choice(["inner", "left", "join", "cross"] + ([] if self.portable else ["right", "full"]))
            on = "(bin eq %s %s)" % (self.col(tbl, "a"), self.col("o", "a"))
            k = r.random()
            if k < 0.15:
                # a member-less condition tree as ON: all() is TRUE, any() is FALSE, and the negation of either
                on = "(cond %s%s)" % (r.choice(["any", "all"]), r.choice(["", " (not)", " (addnone)", " (addnone) (not)"]))
            elif k < 0.3:
                on = "(cond %s (add %s)%s)" % (r.choice(["any", "all"]), on, r.choice(["", " (not)", " (add %s)" % self.cond_expr(tbl, 1)]))
            cs.append("(join %s (ta %s %s) %s)" % (jt, h("o"), h(other), on))
            joined = True
        cs += self.where(tbl)
        is_ordered = False
        if ordered and not joined and "(distinct distinct)" not in cs:
            cs += self.order(tbl)
            is_ordered = True
            if r.random() < 0.4:
                cs.append("(limit %d)" % r.choice([0, 1, 2, 10]))
                if r.random() < 0.5:
                    cs.append("(offset %d)" % r.choice([0, 1, 3]))
        return "(select %s)" % " ".join(cs), is_ordered

    def select_agg(self):
        r = self.r
        tbl = r.choice(["t", "u"])
        g = r.choice(INT_COLS[tbl][1:])
        aggs = []
        for _ in range(r.randrange(1, 3)):
            f = r.choice(["max", "min", "sum", "count", "avg"] if not self.portable else ["max", "min", "sum", "count"])
            aggs.append("(expr (fn %s %s))" % (f, self.int_expr(tbl, 1)))
        if r.random() < 0.2:
            aggs.append("(expr (countdistinct %s))" % self.col(tbl, INT_COLS[tbl][1]))
        if r.random() < 0.2 and HAVING_WITHOUT_GROUP_BY:
            # whole-table aggregate filtered by HAVING, no GROUP BY (SQLite >= 3.39, MySQL, Postgres)
            cs = aggs + ["(from (t %s))" % h(tbl)] + self.where(tbl)
            cs.append("(andhaving (bin %s (fn count %s) %s))" % (r.choice(["gt", "ge", "eq", "lt"]), self.col(tbl, "id"), self.ival()))
            return "(select %s)" % " ".join(cs), False
        cs = ["(col %s)" % self.col(tbl, g)] + aggs + ["(from (t %s))" % h(tbl)] + self.where(tbl) + ["(groupby %s)" % self.col(tbl, g)]
        if r.random() < 0.4:
            cs.append("(andhaving (bin %s (fn count %s) %s))" % (r.choice(["gt", "ge", "eq"]), self.col(tbl, "id"), self.ival()))
        return "(select %s)" % " ".join(cs), False

    def select_compound(self):
        r = self.r
        n = r.randrange(1, 3)
        first, _ = self.select_simple(ordered=False, ncols=n)
        out = first[:-1]
        for _ in range(r.randrange(1, 3)):
            s, _ = self.select_simple(ordered=False, ncols=n)
            out += " (union %s %s)" % (r.choice(["all", "distinct", "intersect", "except"]), s)
        return out + ")", False

    def select_from_sub(self):
        r = self.r
        inner, _ = self.select_simple(ordered=False, ncols=1)
        inner = inner.replace("(select ", "(select ", 1)
        # give the single column a known alias
        inner = "(select (expras %s %s) (from (t %s)))" % (self.int_expr("t", 1), h("v"), h("t"))
        k = r.random()
        if k < 0.6 or self.portable:
            return "(select (col (col %s %s)) (expr (bin add (col %s %s) (val i:i32:1))) (from (tsub %s %s)))" % (
                h("s"), h("v"), h("s"), h("v"), inner, h("s")), False
        rows = " ".join("(row i:i32:%d s:%s)" % (r.randrange(0, 5), h(r.choice(["p", "q"]))) for _ in range(r.randrange(1, 4)))
        return "(select (col (star)) (from (tvalues %s %s)))" % (h("vv"), rows), False

    def select_window(self):
        r = self.r
        tbl = "t"
        f = r.choice(["sum", "max", "min", "count"])
        w = ["(partition %s)" % self.col(tbl, "a")] if r.random() < 0.7 else []
        w.append("(orderby %s asc)" % self.col(tbl, "id"))
        if r.random() < 0.5:
            fr = r.choice(["(frame rows up)", "(frame rows (pre 1) cur)", "(frame rows up uf)", "(frame rows cur (fol 2))",
                           "(frame rows (pre 2))", "(frame rows (pre 3) (pre 1))", "(frame rows (pre 2) (pre 1))",
                           "(frame rows (pre 3) (pre 1))", "(frame rows (fol 1) (fol 3))",
                           "(frame rows (pre 2) (fol 1))", "(frame rows (pre 1) (pre 1))", "(frame rows cur cur)"])
            w.append(fr)
        win = "(window %s)" % " ".join(w)
        k = r.random()
        if k < 0.7 or self.portable:
            return "(select (col %s) (exprwinas (fn %s %s) %s %s) (from (t %s)) (orderby %s asc))" % (
                self.col(tbl, "id"), f, self.col(tbl, "b"), win, h("w"), h(tbl), self.col(tbl, "id")), True
        return "(select (col %s) (exprwinnameas (fn %s %s) %s %s) (from (t %s)) (orderby %s asc) (window %s %s))" % (
            self.col(tbl, "id"), f, self.col(tbl, "b"), h("wn"), h("w"), h(tbl), self.col(tbl, "id"), h("wn"), win), True

    def select_cte(self):
        r = self.r
        mat = r.choice(["", "", " mat", " notmat"]) if not self.portable else ""
        if r.random() < 0.35:
            # CommonTableExpression::from_select: the table is named cte_<first FROM table>, the columns are the
            # aliases (a plain column reference gives its own name only when it has no alias).  The aliases are the
            # names of OTHER columns, so that taking the wrong name returns other rows, not an error
            inner = "(select (expras %s %s) (expras %s %s) (col %s) (from (t %s))%s)" % (
                self.col("t", "a"), h("b"), self.col("t", "b"), h("a"), self.col("t", "id", qualified=False), h("t"),
                "".join(" " + w for w in self.where("t")))
            body = "(select (col (col %s %s)) (expr (bin add (col %s %s) (val i:i32:1))) (col (col %s %s)) (from (t %s)))" % (
                h("cte_t"), h("a"), h("cte_t"), h("b"), h("cte_t"), h("id"), h("cte_t"))
            return "(withq (with (ctefs %s%s)) %s)" % (inner, mat, body), False
        inner = "(select (col %s) (col %s) (from (t %s))%s)" % (self.col("t", "id"), self.col("t", "a"), h("t"),
                                                          "".join(" " + w for w in self.where("t")))
        cte = "(cte %s (cols %s %s) %s%s)" % (h("w"), h("k"), h("v"), inner, mat)
        body = "(select (col (col %s %s)) (expr (bin mul (col %s %s) (val i:i32:2))) (from (t %s)))" % (h("w"), h("k"), h("w"), h("v"), h("w"))
        return "(withq (with %s) %s)" % (cte, body), False

    def select(self):
        k = self.r.random()
        if k < 0.4:
            return self.select_simple()
        if k < 0.55:
            return self.select_agg()
        if k < 0.7:
            return self.select_compound()
        if k < 0.8:
            return self.select_from_sub()
        if k < 0.9:
            return self.select_window()
        return self.select_cte()

    # ---- DML ----
    def returning(self, tbl):
        r = self.r
        if self.portable or r.random() < 0.6:
            return []
        k = r.randrange(3)
        if k == 0:
            return ["(returning all)"]
        if k == 1:
            return ["(returning cols %s)" % " ".join("(col %s)" % h(c) for c in r.sample(TABLES[tbl], 2))]
        return ["(returning exprs %s)" % self.int_expr(tbl, 1, alias=None).replace("(col %s " % h(tbl), "(col ")]

    def insert(self):
        r = self.r
        tbl = r.choice(["t", "u"])
        cols = ["a", "b", "c"] if tbl == "t" else ["a", "d"]
        use = r.sample(cols, r.randrange(1, len(cols) + 1))
        with_id = r.random() < 0.4
        if with_id:
            use = ["id"] + use
        cs = []
        if r.random() < 0.1 and not self.portable:
            cs.append("(replace)")
        cs.append("(into (t %s))" % h(tbl))
        k = r.random()
        if k < 0.1 and not self.portable:
            cs.append("(ordefault)")
            return "(insert %s)" % " ".join(cs + self.returning(tbl)), False
        cs.append("(columns %s)" % " ".join(h(c) for c in use))
        if k < 0.75:
            rows_acc = []
            for _ in range(r.randrange(1, 4)):
                row = []
                for c in use:
                    if c == "id":
                        row.append("(val i:i32:%d)" % r.choice([1, 2, 6, 7, 8]))
                    elif c == "c":
                        row.append(self.sval() if r.random() < 0.8 else "(val n:s)")
                    else:
                        row.append(self.ival() if r.random() < 0.8 else "(bin add %s %s)" % (self.ival(), self.ival()))
                rows_acc.append(" ".join(row))
            # rows one by one (values_panic) and / or in bulk (values_from_panic), in a random split
            cut = r.randrange(0, len(rows_acc) + 1)
            for rw in rows_acc[:cut]:
                cs.append("(valuespanic %s)" % rw)
            if rows_acc[cut:]:
                if r.random() < 0.5:
                    cs.append("(valuesfrompanic %s)" % " ".join("(row %s)" % rw for rw in rows_acc[cut:]))
                else:
                    for rw in rows_acc[cut:]:
                        cs.append("(valuesfrompanic (row %s))" % rw)
        else:
            src = "u" if tbl == "t" else "t"
            sel = []
            for c in use:
                if c == "c":
                    sel.append("(expr %s)" % self.sval())
                elif c == "id":
                    sel.append("(expr (bin add %s (val i:i32:100)))" % self.col(src, "id"))
                else:
                    sel.append("(expr %s)" % self.int_expr(src, 1))
            cs.append("(selectfrom (select %s (from (t %s))%s))" % (" ".join(sel), h(src), "".join(" " + w for w in self.where(src))))
        if with_id and self.portable:
            pass      # upsert has no common form across the three backends
        elif with_id and r.random() < 0.8:
            k2 = r.random()
            if k2 < 0.3:
                cs.append("(onconflict (cols %s) (nothing))" % h("id"))
            elif k2 < 0.7:
                cs.append("(onconflict (cols %s) (updcol %s))" % (h("id"), h(use[-1])))
            elif self.portable:
                cs.append("(onconflict (cols %s) (updcol %s))" % (h("id"), h(use[-1])))
            else:
                cs.append("(onconflict (cols %s) (updexpr %s %s)%s)" % (
                    h("id"), h("a"), self.ival(), " (awhere (bin gt (col %s %s) (val i:i32:0)))" % (h(tbl), h("id")) if r.random() < 0.5 else ""))
        elif with_id and not self.portable and "(replace)" not in cs:
            cs.insert(0, "(replace)")
        return "(insert %s)" % " ".join(cs + self.returning(tbl)), False

    def update(self):
        r = self.r
        tbl = r.choice(["t", "u"])
        cs = ["(table (t %s))" % h(tbl)]
        frm = (not self.portable) and r.random() < 0.2
        if frm:
            other = "u" if tbl == "t" else "t"
            cs.append("(from (ta %s %s))" % (h("o"), h(other)))
        for c in r.sample(INT_COLS[tbl][1:], r.randrange(1, 3)):
            e = self.int_expr(tbl, 1)
            if frm and r.random() < 0.5:
                e = "(bin add %s %s)" % (e, self.col("o", "a"))
            cs.append("(value %s %s)" % (h(c), e))
        if frm:
            cs.append("(andwhere (bin eq %s %s))" % (self.col(tbl, "id"), self.col("o", "id")))
        cs += self.where(tbl, chain_ok=not frm)
        if (not self.portable) and not frm and r.random() < 0.35:
            if r.random() < 0.6:
                cs.append("(orderby %s %s %s)" % (self.col(tbl, INT_COLS[tbl][1]), r.choice(["asc", "desc"]), r.choice(["first", "last"])))
            cs.append("(orderby %s %s)" % (self.col(tbl, "id"), r.choice(["asc", "desc"])))
            cs.append("(limit %d)" % r.choice([1, 2]))
        return "(update %s)" % " ".join(cs + self.returning(tbl)), False

    def delete(self):
        r = self.r
        tbl = r.choice(["t", "u"])
        cs = ["(from (t %s))" % h(tbl)] + self.where(tbl)
        if (not self.portable) and r.random() < 0.35:
            if r.random() < 0.6:
                cs.append("(orderby %s %s %s)" % (self.col(tbl, INT_COLS[tbl][1]), r.choice(["asc", "desc"]), r.choice(["first", "last"])))
            cs.append("(orderby %s %s)" % (self.col(tbl, "id"), r.choice(["asc", "desc"])))
            cs.append("(limit %d)" % r.choice([1, 2]))
        return "(delete %s)" % " ".join(cs + self.returning(tbl)), False

    def upsert_partial(self):
        """INSERT into p with a conflict target on the PARTIAL unique index p_k (k) WHERE k > 0: the target
        needs its own WHERE (conflict-target predicate) for SQLite to match the index"""
        r = self.r
        rows = []
        for _ in range(r.randrange(1, 4)):
            rows.append("(valuespanic (val i:i32:%d) (val i:i32:%d))" % (r.choice([0, 1, 2, 3, 7]), r.choice([5, 60, 70])))
        # the predicate of a partial-index conflict target must be a constant expression for the engine to match it
        # with the index (a bound parameter is not comparable with the index predicate): SimpleExpr::Constant
        tw = "(twhere (bin gt (col %s) (const i:i32:0)))" % h("k")
        k = r.random()
        if k < 0.45:
            act = "(nothing)"
        elif k < 0.75:
            act = "(updcol %s)" % h("v")
        else:
            act = "(updexpr %s %s)%s" % (h("v"), self.ival(),
                                         " (awhere (bin gt (col %s %s) (val i:i32:1)))" % (h("p"), h("id")) if r.random() < 0.5 else "")
        return "(insert (into (t %s)) (columns %s %s) %s (onconflict (cols %s) %s %s))" % (
            h("p"), h("k"), h("v"), " ".join(rows), h("k"), tw, act), False

    def with_dml(self):
        """WITH .. INSERT / UPDATE / DELETE: the data-modifying statement is the main statement of a WithQuery (its
        own dialect forms - function names, NULLS ordering, RETURNING - must be those of the backend)"""
        r = self.r
        inner = "(select (col %s) (col %s) (from (t %s))%s)" % (self.col("t", "id"), self.col("t", "a"), h("t"),
                                                          "".join(" " + w for w in self.where("t", chain_ok=False)))
        cte = "(cte %s (cols %s %s) %s)" % (h("w"), h("k"), h("v"), inner)
        dml, _ = r.choice([self.update, self.delete, self.insert])()
        return "(withq (with %s) %s)" % (cte, dml), False

    def statement(self):
        k = self.r.random()
        if k < 0.06:
            return self.with_dml()
        if k < 0.55:
            return self.select()
        if k < 0.60 and not self.portable:
            return self.upsert_partial()
        if k < 0.72:
            return self.insert()
        if k < 0.87:
            return self.update()
        return self.delete()
