"""Precedence-climbing parser over the engine token stream (the `etok` output of the extracted Coq
tokenizer), per dialect.  It is the executable counterpart of coq/Spec/PrattT.v + Spec/Prec.v used as
an oracle on the implementation's own output: a rendering and a fully parenthesised rendering of the
same tree must parse to the same tree.  Strict on purpose (see Pratt.v)."""

# levels must agree with coq/Spec/Prec.v (checked by tools/check_prec_sync in the C05 check)
LEVELS = {
    "sl": {"OR": 1, "AND": 2, "NOT": 3,
           "=": 4, "<>": 4, "IS": 4, "IS NOT": 4, "IN": 4, "NOT IN": 4, "LIKE": 4, "NOT LIKE": 4,
           "BETWEEN": 4, "NOT BETWEEN": 4, "GLOB": 4, "MATCH": 4,
           "<": 5, "<=": 5, ">": 5, ">=": 5, "ESCAPE": 6,
           "&": 7, "|": 7, "<<": 7, ">>": 7, "+": 8, "-": 8, "*": 9, "/": 9, "%": 9,
           "||": 10, "->": 10, "->>": 10},
    "pg": {"OR": 2, "AND": 4, "NOT": 6, "IS": 8, "IS NOT": 8,
           "=": 10, "<>": 10, "<": 10, "<=": 10, ">": 10, ">=": 10,
           "BETWEEN": 12, "NOT BETWEEN": 12, "IN": 12, "NOT IN": 12, "LIKE": 12, "NOT LIKE": 12,
           "ILIKE": 12, "NOT ILIKE": 12, "ESCAPE": 13,
           "+": 16, "-": 16, "*": 18, "/": 18, "%": 18},   # every other symbolic operator: 14
    "my": {"OR": 2, "AND": 6, "NOT": 8, "BETWEEN": 10, "NOT BETWEEN": 10,
           "=": 12, "<>": 12, "<": 12, "<=": 12, ">": 12, ">=": 12, "IS": 12, "IS NOT": 12,
           "LIKE": 12, "NOT LIKE": 12, "IN": 12, "NOT IN": 12, "ESCAPE": 13,
           "|": 14, "&": 16, "<<": 18, ">>": 18, "+": 20, "-": 20, "*": 22, "/": 22, "%": 22},
}
PG_OTHER = 14
UNKNOWN = 1000   # an operator with no defined level: its operands must be primaries

STATEMENT_WORDS = {"SELECT", "WITH", "VALUES", "INSERT", "UPDATE", "DELETE", "REPLACE"}
KEYWORD_ATOMS = {"NULL", "TRUE", "FALSE", "CURRENT_DATE", "CURRENT_TIME", "CURRENT_TIMESTAMP", "DEFAULT"}


class ParseError(Exception):
    pass


def toks_of(line):
    """'I6162 W4e4f54 ... .' -> list of (kind, text)"""
    if line == "LEXFAIL" or not line.endswith("."):
        raise ParseError("not lexable")
    out = []
    for t in line.split(" ")[:-1]:
        k, body = t[0], t[1:]
        if k in "ISWNOC":
            out.append((k, bytes.fromhex(body).decode("utf-8") if body != "-" else ""))
        elif k == "Y":
            out.append((k, body))
        elif k == "P":
            out.append((k, body))
    return out


class Parser:
    def __init__(self, backend, toks):
        self.b = backend
        self.t = toks
        self.i = 0
        self.lv = LEVELS[backend]
        self.notp = self.lv["NOT"]

    def peek(self, k=0):
        return self.t[self.i + k] if self.i + k < len(self.t) else None

    def is_w(self, word, k=0):
        p = self.peek(k)
        return p is not None and p[0] == "W" and p[1] == word

    def is_c(self, ch, k=0):
        p = self.peek(k)
        return p is not None and p[0] == "C" and p[1] == ch

    def expect_c(self, ch):
        if not self.is_c(ch):
            raise ParseError("expected %r at %d, got %r" % (ch, self.i, self.peek()))
        self.i += 1

    def expect_w(self, w):
        if not self.is_w(w):
            raise ParseError("expected %s at %d, got %r" % (w, self.i, self.peek()))
        self.i += 1

    # ---- operators ----
    def operator(self):
        """the binary operator at the cursor: (name, level, ntokens) or None"""
        p = self.peek()
        if p is None:
            return None
        if p[0] == "O":
            name = p[1]
            lv = self.lv.get(name)
            if lv is None:
                lv = PG_OTHER if self.b == "pg" else UNKNOWN
            return name, lv, 1
        if p[0] == "W":
            w = p[1]
            if w in ("AND", "OR", "LIKE", "ILIKE", "IN", "BETWEEN", "GLOB", "MATCH", "ESCAPE"):
                if w in self.lv:
                    return w, self.lv[w], 1
                return None
            if w == "IS":
                if self.is_w("NOT", 1):
                    return "IS NOT", self.lv["IS NOT"], 2
                return "IS", self.lv["IS"], 1
            if w == "NOT":
                q = self.peek(1)
                if q is not None and q[0] == "W" and ("NOT " + q[1]) in self.lv:
                    return "NOT " + q[1], self.lv["NOT " + q[1]], 2
                return None
        return None

    def skip_balanced(self):
        """cursor after an opening paren: returns tokens up to the matching close (exclusive), cursor after it"""
        depth, start = 1, self.i
        while self.i < len(self.t):
            p = self.t[self.i]
            if p == ("C", "("):
                depth += 1
            elif p == ("C", ")"):
                depth -= 1
                if depth == 0:
                    body = self.t[start:self.i]
                    self.i += 1
                    return body
            self.i += 1
        raise ParseError("unbalanced parentheses")

    def args(self):
        """comma separated expressions up to the closing paren (cursor after the opening paren)"""
        out = []
        if self.is_c(")"):
            self.i += 1
            return out
        while True:
            distinct = False
            if self.is_w("DISTINCT"):
                distinct = True
                self.i += 1
            e = self.expr(0)
            if self.is_w("AS"):
                # CAST(x AS type ...): the type is raw text up to the closing paren / comma at depth 0
                self.i += 1
                depth, start = 0, self.i
                while self.i < len(self.t):
                    p = self.t[self.i]
                    if p == ("C", "("):
                        depth += 1
                    elif p == ("C", ")"):
                        if depth == 0:
                            break
                        depth -= 1
                    elif p == ("C", ",") and depth == 0:
                        break
                    self.i += 1
                e = ("as", e, tuple(self.t[start:self.i]))
            out.append(("distinct", e) if distinct else e)
            if self.is_c(","):
                self.i += 1
                continue
            self.expect_c(")")
            return out

    def primary(self, min_level):
        p = self.peek()
        if p is None:
            raise ParseError("unexpected end")
        k, v = p
        if k == "W" and v == "NOT":
            if min_level > self.notp:
                raise ParseError("prefix NOT where an operand of level %d is expected" % min_level)
            self.i += 1
            x = self.expr(self.notp)
            return ("not", x)
        if k == "C" and v == "(":
            self.i += 1
            q = self.peek()
            if q is not None and q[0] == "W" and q[1] in STATEMENT_WORDS:
                return ("sub", tuple(self.skip_balanced()))
            if self.is_c(")"):
                self.i += 1
                return ("tuple",)
            e = self.expr(0)
            if self.is_c(","):
                items = [e]
                while self.is_c(","):
                    self.i += 1
                    items.append(self.expr(0))
                self.expect_c(")")
                return ("tuple",) + tuple(items)
            self.expect_c(")")
            return e          # parentheses dropped
        if k == "W" and v == "CASE":
            self.i += 1
            whens = []
            while self.is_w("WHEN"):
                self.i += 1
                c = self.expr(0)
                self.expect_w("THEN")
                r = self.expr(0)
                whens.append((c, r))
            els = None
            if self.is_w("ELSE"):
                self.i += 1
                els = self.expr(0)
            self.expect_w("END")
            return ("case", tuple(whens), els)
        if k == "W" and self.is_c("(", 1):
            self.i += 2
            q = self.peek()
            if q is not None and q[0] == "W" and q[1] in STATEMENT_WORDS:
                return ("call", v, ("sub", tuple(self.skip_balanced())))
            return ("call", v) + tuple(self.args())
        if k == "O" and v in ("-", "+") and self.peek(1) is not None and self.peek(1)[0] == "N":
            self.i += 2
            return ("atom", (p, self.t[self.i - 1]))
        if k == "O" and v == "*":
            self.i += 1
            return ("atom", (p,))
        if k == "I":
            # identifier chain a.b.c / a.*
            toks = [p]
            self.i += 1
            while self.is_c("."):
                nxt = self.peek(1)
                if nxt is not None and (nxt[0] == "I" or nxt == ("O", "*")):
                    toks += [self.peek(), nxt]
                    self.i += 2
                else:
                    break
            return ("atom", tuple(toks))
        if k in "SNYP":
            self.i += 1
            return ("atom", (p,))
        if k == "W" and v == "ARRAY" and self.is_c("[", 1):
            start = self.i
            self.i += 2
            depth = 1
            while self.i < len(self.t) and depth:
                if self.t[self.i] == ("C", "["):
                    depth += 1
                elif self.t[self.i] == ("C", "]"):
                    depth -= 1
                self.i += 1
            return ("atom", tuple(self.t[start:self.i]))
        if k == "W":
            # bare word: keyword atom or custom identifier/keyword
            self.i += 1
            return ("atom", (p,))
        raise ParseError("unexpected token %r at %d" % (p, self.i))

    def expr(self, min_level):
        lhs = self.primary(min_level)
        # a prefix NOT consumed its operand at notp; continue with lower operators
        while True:
            op = self.operator()
            if op is None:
                return lhs
            name, lv, n = op
            if lv < min_level:
                return lhs
            self.i += n
            if name in ("BETWEEN", "NOT BETWEEN"):
                lo = self.expr(lv + 1)
                self.expect_w("AND")
                hi = self.expr(lv + 1)
                lhs = ("between", name, lhs, lo, hi)
            else:
                rhs = self.expr(lv + 1)
                lhs = ("bin", name, lhs, rhs)


def parse_select_expr(backend, tokline):
    """parse `SELECT <expr>` (the shape produced by the expr op); returns the tree"""
    toks = toks_of(tokline)
    if not toks or toks[0] != ("W", "SELECT"):
        raise ParseError("not a SELECT")
    p = Parser(backend, toks)
    p.i = 1
    e = p.expr(0)
    if p.i != len(toks):
        raise ParseError("trailing tokens at %d: %r" % (p.i, toks[p.i:p.i + 4]))
    return e
