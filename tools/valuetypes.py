#!/usr/bin/env python3
"""Translator: /repo/src/value.rs (source text)  ->  coq/Generated/ValueTypes.v   (properties C12, C18)

What is read from the source, item by item (nothing is executed):
  * enum Value / enum ArrayType: the variant lists in declaration order (= discriminants);
  * every  impl From<T> for Value,  impl Nullable for T,  impl ValueType for T  -- written by hand or
    produced by a macro_rules! of the file (type_to_value!, type_to_box_value!, fmt_uuid_to_box_value!,
    whatever their names: every flat macro of the file is expanded textually, invocations inside cfg'd
    modules included) -- and from each the variant it builds / matches, whether the payload is boxed and
    which representation change is applied; ValueType::array_type; the NotU8 marker impls;
  * the generic impls for Option<T> and Vec<T>, ValueType::unwrap, Value::unwrap, IntoValueTuple /
    FromValueTuple (hand-written arities and the two macros with their invocations), ValueTuple::into_iter:
    these are modelled by hand in coq/Model/ValueConv.v, so the translator only accepts them if their text
    is exactly the text the model was written from (whitespace-insensitive);
  * the arms of Value::as_null and Value::dummy_value;
  * mod hashable_value: the arms of PartialEq / Hash for Value (which comparison / hash each variant uses)
    and the helper functions cmp_*/hash_* (accepted only if their text is the modelled one).

Anything that does not fit one of the accepted shapes raises Untranslatable: the translator never guesses.
The check then keeps the previous Generated/ValueTypes.v for the executable model, writes
Generated/ValueTypesStatus.v with translation_ok := false, and the proof obligation
`translation_complete` fails (the check reports the proof as broken)."""
import os
import re
import sys

REPO_FILE = "/repo/src/value.rs"


class Untranslatable(Exception):
    pass


def fail(msg):
    raise Untranslatable(msg)


# ------------------------------------------------------------------------------------------------
# lexical helpers
# ------------------------------------------------------------------------------------------------

def strip_comments(src):
    """remove // and /* */ comments; string and char literals are kept verbatim"""
    out = []
    i, n = 0, len(src)
    while i < n:
        c = src[i]
        if src.startswith("//", i):
            j = src.find("\n", i)
            i = n if j < 0 else j
        elif src.startswith("/*", i):
            depth, i = 1, i + 2
            while i < n and depth:
                if src.startswith("/*", i):
                    depth += 1
                    i += 2
                elif src.startswith("*/", i):
                    depth -= 1
                    i += 2
                else:
                    i += 1
        elif c == '"':
            j = i + 1
            while j < n and src[j] != '"':
                j += 2 if src[j] == "\\" else 1
            out.append(src[i:j + 1])
            i = j + 1
        elif c == "'" and re.match(r"'(\\.|[^\\'])'", src[i:i + 4]):
            m = re.match(r"'(\\.|[^\\'])'", src[i:i + 4])
            out.append(m.group(0))
            i += len(m.group(0))
        else:
            out.append(c)
            i += 1
    return "".join(out)


def match_close(src, i, open_c="{", close_c="}"):
    """src[i] == open_c; returns index of the matching close (string literals skipped)"""
    assert src[i] == open_c, (src[i:i + 20], open_c)
    depth, n = 0, len(src)
    while i < n:
        c = src[i]
        if c == '"':
            j = i + 1
            while j < n and src[j] != '"':
                j += 2 if src[j] == "\\" else 1
            i = j + 1
            continue
        if c == open_c:
            depth += 1
        elif c == close_c:
            depth -= 1
            if depth == 0:
                return i
        i += 1
    fail("unbalanced %s" % open_c)


def nows(s):
    return re.sub(r"\s+", "", s)


def split_top(s, sep=","):
    """split at top-level separators (outside () [] {} <>)"""
    parts, depth, cur = [], 0, []
    for ch in s:
        if ch in "([{<":
            depth += 1
        elif ch in ")]}>":
            depth -= 1
        if ch == sep and depth == 0:
            parts.append("".join(cur))
            cur = []
        else:
            cur.append(ch)
    if "".join(cur).strip():
        parts.append("".join(cur))
    return [p.strip() for p in parts]


def split_arms(s):
    """split the inside of a `match { .. }` (whitespace already removed) into `pattern=>body` arms;
    a braced body keeps its braces"""
    arms, i, n = [], 0, len(s)
    while i < n:
        depth, j = 0, i
        while j < n and not (depth == 0 and s.startswith("=>", j)):
            if s[j] in "([{":
                depth += 1
            elif s[j] in ")]}":
                depth -= 1
            j += 1
        if j >= n:
            fail("match arm without => : %s" % s[i:i + 60])
        pat = s[i:j]
        j += 2
        if j < n and s[j] == "{":
            e = match_close(s, j)
            body = s[j:e + 1]
            j = e + 1
            if j < n and s[j] == ",":
                j += 1
        else:
            depth, k = 0, j
            while k < n and not (depth == 0 and s[k] == ","):
                if s[k] in "([{":
                    depth += 1
                elif s[k] in ")]}":
                    depth -= 1
                k += 1
            body = s[j:k]
            j = k + 1
        arms.append(pat + "=>" + body)
        i = j
    return arms


def remove_blocks(src, header_re):
    """remove every `header { ... }` whose header matches"""
    while True:
        m = re.search(header_re, src)
        if not m:
            return src
        b = src.index("{", m.end() - 1)
        e = match_close(src, b)
        src = src[:m.start()] + src[e + 1:]


# ------------------------------------------------------------------------------------------------
# macro expansion (flat macros only:  ( $a: frag, $b: frag ) => { body };  )
# ------------------------------------------------------------------------------------------------

def collect_macros(src):
    """returns ({name: (params or None, body)}, src without the macro definitions)"""
    macros = {}
    while True:
        m = re.search(r"macro_rules!\s*(\w+)\s*\{", src)
        if not m:
            return macros, src
        b = m.end() - 1
        e = match_close(src, b)
        inner = src[b + 1:e].strip()
        if not inner.startswith("("):
            fail("macro %s: unexpected rule syntax" % m.group(1))
        pe = match_close(inner, 0, "(", ")")
        pattern = inner[1:pe]
        rest = inner[pe + 1:].strip()
        if not rest.startswith("=>"):
            fail("macro %s: missing =>" % m.group(1))
        rest = rest[2:].strip()
        be = match_close(rest, 0)
        body = rest[1:be]
        tail = rest[be + 1:].strip()
        if tail not in ("", ";"):
            fail("macro %s has more than one rule; not translated" % m.group(1))
        params = None
        if "$(" not in pattern:
            params = []
            for p in split_top(pattern):
                pm = re.fullmatch(r"\$(\w+)\s*:\s*(\w+)", p)
                if not pm:
                    fail("macro %s: parameter %r not understood" % (m.group(1), p))
                params.append(pm.group(1))
        macros[m.group(1)] = (params, body, pattern)
        src = src[:m.start()] + src[e + 1:]


def expand_flat(src, macros):
    """replace invocations name!(args); of flat macros by their expansion (repeat until none left)"""
    flat = {k: v for k, v in macros.items() if v[0] is not None}
    for _ in range(10):
        changed = False
        for name, (params, body, _) in flat.items():
            while True:
                m = re.search(r"\b%s!\s*\(" % re.escape(name), src)
                if not m:
                    break
                b = m.end() - 1
                e = match_close(src, b, "(", ")")
                args = split_top(src[b + 1:e])
                if len(args) != len(params):
                    fail("macro %s invoked with %d arguments, %d expected" % (name, len(args), len(params)))
                text = body
                for p, a in sorted(zip(params, args), key=lambda t: -len(t[0])):
                    text = re.sub(r"\$%s\b" % re.escape(p), a.replace("\\", "\\\\"), text)
                if "$" in text:
                    fail("macro %s: unexpanded metavariable in %r" % (name, text[:80]))
                end = e + 1
                while end < len(src) and src[end] in " \t":
                    end += 1
                if end < len(src) and src[end] == ";":
                    end += 1
                src = src[:m.start()] + text + src[end:]
                changed = True
        if not changed:
            return src
    fail("macro expansion does not terminate")


# ------------------------------------------------------------------------------------------------
# item extraction
# ------------------------------------------------------------------------------------------------

def impl_blocks(src):
    """yield (header, body) of every impl block (at any module depth)"""
    for m in re.finditer(r"\bimpl\b", src):
        b = src.find("{", m.end())
        if b < 0:
            continue
        header = " ".join(src[m.start():b].split())
        e = match_close(src, b)
        yield header, src[b + 1:e]


def fn_body(body, name, required=True):
    m = re.search(r"\bfn\s+%s\b" % name, body)
    if not m:
        if required:
            fail("fn %s not found" % name)
        return None
    b = body.index("{", m.end())
    e = match_close(body, b)
    sig = " ".join(body[m.start():b].split())
    return sig, body[b + 1:e]


def canon_type(t):
    t = nows(t)
    t = t.replace("Cow<'_,str>", "Cow<str>")
    return t


def enum_variants(src, name):
    m = re.search(r"\benum\s+%s\s*\{" % name, src)
    if not m:
        fail("enum %s not found" % name)
    b = m.end() - 1
    e = match_close(src, b)
    inner = re.sub(r"#\[[^\]]*\]", "", src[b + 1:e])
    inner = re.sub(r"#\[[^\]]*\([^\)]*\([^\)]*\)[^\)]*\)\]", "", inner)
    vs = []
    for part in split_top(inner):
        part = re.sub(r"#\[.*?\]\s*", "", part, flags=re.S).strip()
        if not part:
            continue
        pm = re.match(r"(\w+)\s*(\(.*\))?$", part, flags=re.S)
        if not pm:
            fail("enum %s: variant %r not understood" % (name, part[:60]))
        vs.append((pm.group(1), nows(pm.group(2) or "")))
    return vs


def strip_attrs(s):
    """remove #[...] attributes (with nested parentheses)"""
    out, i = [], 0
    while i < len(s):
        if s.startswith("#[", i):
            i = match_close(s, i + 1, "[", "]") + 1
        else:
            out.append(s[i])
            i += 1
    return "".join(out)


# ------------------------------------------------------------------------------------------------
# accepted shapes
# ------------------------------------------------------------------------------------------------

FROM_SHAPES = [
    (r"Value::(\w+)\(Some\(x\)\)", False, "CvId"),
    (r"Value::(\w+)\(Some\(Box::new\(x\)\)\)", True, "CvId"),
    (r"Value::(\w+)\(Some\(Box::<Vec<u8>>::new\(x\.into\(\)\)\)\)", True, "CvOwned"),
    (r"letstring:String=x\.into\(\);Value::(\w+)\(Some\(Box::new\(string\)\)\)", True, "CvOwned"),
    (r"Value::(\w+)\(Some\(Box::new\(x\.into_uuid\(\)\)\)\)", True, "CvUuidFmt"),
    (r"letv=DateTime::<FixedOffset>::from_naive_utc_and_offset\(x\.naive_utc\(\),x\.offset\(\)\.fix\(\)\);"
     r"Value::(\w+)\(Some\(Box::new\(v\)\)\)", True, "CvRefix"),
]
FROM_VIA_STRING = r"x\.into_owned\(\)\.into\(\)"
FROM_OPTION = "matchx{Some(v)=>v.into(),None=>T::null(),}"
FROM_VEC = "Value::Array(T::array_type(),Some(Box::new(x.into_iter().map(|e|e.into()).collect())),)"

TRY_SHAPE = r"matchv\{Value::(\w+)\(Some\(x\)\)=>Ok\((.+?)\),_=>Err\(ValueTypeErr\),\}"
TRY_EXPRS = {"x": (False, "CvId"), "*x": (True, "CvId"), "(*x).into()": (True, "CvOwned"),
             "x.braced()": (True, "CvUuidFmt"), "x.hyphenated()": (True, "CvUuidFmt"),
             "x.simple()": (True, "CvUuidFmt"), "x.urn()": (True, "CvUuidFmt")}
TRY_OPTION = "ifv==T::null(){Ok(None)}else{Ok(Some(T::try_from(v)?))}"
TRY_VEC = ("matchv{Value::Array(ty,Some(v))ifT::array_type()==ty=>{Ok(v.into_iter().map(|e|e.unwrap()).collect())}"
           "_=>Err(ValueTypeErr),}")
NULL_VEC = "Value::Array(T::array_type(),None)"

TRAIT_UNWRAP = "Self::try_from(v).unwrap()"
VALUE_UNWRAP = "T::unwrap(self)"

INTO_ITER = ("matchself{ValueTuple::One(v)=>vec![v].into_iter(),ValueTuple::Two(v,w)=>vec![v,w].into_iter(),"
             "ValueTuple::Three(u,v,w)=>vec![u,v,w].into_iter(),ValueTuple::Many(vec)=>vec.into_iter(),}")
INTO_TUPLE = {
    "ValueTuple": ("self", None),
    "V": ("ValueTuple::One(self.into())", (1, "KOne")),
    "(V,W)": ("ValueTuple::Two(self.0.into(),self.1.into())", (2, "KTwo")),
    "(U,V,W)": ("ValueTuple::Three(self.0.into(),self.1.into(),self.2.into())", (3, "KThree")),
}
INTO_TUPLE_MACRO = ("impl<$($T),+>IntoValueTuplefor($($T),+)where$($T:Into<Value>),+{fninto_value_tuple(self)->ValueTuple{"
                    "ValueTuple::Many(vec![$(self.$idx.into()),+])}}")
INTO_TUPLE_MACRO_PAT = "$($idx:tt:$T:ident),+$(,)?"
FROM_TUPLE = {
    "V": ('matchi.into_value_tuple(){ValueTuple::One(u)=>u.unwrap(),_=>panic!("notValueTuple::One"),}', (1, "KOne")),
    "(V,W)": ('matchi.into_value_tuple(){ValueTuple::Two(v,w)=>(v.unwrap(),w.unwrap()),_=>panic!("notValueTuple::Two"),}',
              (2, "KTwo")),
    "(U,V,W)": ('matchi.into_value_tuple(){ValueTuple::Three(u,v,w)=>(u.unwrap(),v.unwrap(),w.unwrap()),'
                '_=>panic!("notValueTuple::Three"),}', (3, "KThree")),
}
FROM_TUPLE_MACRO = ("impl<$($T),+>FromValueTuplefor($($T),+)where$($T:Into<Value>+ValueType),+{fnfrom_value_tuple<Z>(i:Z)->Self"
                    "whereZ:IntoValueTuple,{matchi.into_value_tuple(){ValueTuple::Many(vec)ifvec.len()==$len=>{"
                    "letmutiter=vec.into_iter();($(<$TasValueType>::unwrap(iter.next().unwrap())),+)}"
                    '_=>panic!("notValueTuple::Manywithlengthof{}",$len),}}}')
FROM_TUPLE_MACRO_PAT = "$len:expr,$($T:ident),+$(,)?"

HASHABLE_FNS = {
    "hash_f32": 'matchv{Some(v)=>OrderedFloat(*v).hash(state),None=>"null".hash(state),}',
    "hash_f64": 'matchv{Some(v)=>OrderedFloat(*v).hash(state),None=>"null".hash(state),}',
    "cmp_f32": "match(l,r){(Some(l),Some(r))=>OrderedFloat(*l).eq(&OrderedFloat(*r)),(None,None)=>true,_=>false,}",
    "cmp_f64": "match(l,r){(Some(l),Some(r))=>OrderedFloat(*l).eq(&OrderedFloat(*r)),(None,None)=>true,_=>false,}",
    "hash_json": 'matchv{Some(v)=>serde_json::to_string(v).unwrap().hash(state),None=>"null".hash(state),}',
    "cmp_json": "match(l,r){(Some(l),Some(r))=>serde_json::to_string(l).unwrap().eq(&serde_json::to_string(r).unwrap()),"
                "(None,None)=>true,_=>false,}",
    "hash_vector": 'matchv{Some(v)=>{for&valueinv.as_slice().iter(){hash_f32(&Some(value),state);}}None=>"null".hash(state),}',
    "cmp_vector": "match(l,r){(Some(l),Some(r))=>{let(l,r)=(l.as_slice(),r.as_slice());ifl.len()!=r.len(){returnfalse;}"
                  "for(l,r)inl.iter().zip(r.iter()){if!cmp_f32(&Some(*l),&Some(*r)){returnfalse;}}true}"
                  "(None,None)=>true,_=>false,}",
}
EQ_KINDS = {"l==r": "EqPlain", "cmp_f32(l,r)": "EqF32", "cmp_f64(l,r)": "EqF64", "cmp_json(l,r)": "EqJson",
            "cmp_vector(l,r)": "EqVector"}
HASH_KINDS = {"X.hash(state)": "HsPlain", "hash_f32(X,state)": "HsF32", "hash_f64(X,state)": "HsF64",
              "hash_json(X,state)": "HsJson", "hash_vector(X,state)": "HsVector"}


# ------------------------------------------------------------------------------------------------
# the translation
# ------------------------------------------------------------------------------------------------

def model_vtags():
    p = os.path.join(os.path.dirname(os.path.dirname(os.path.abspath(__file__))), "coq", "Model", "Value.v")
    src = open(p).read()
    m = re.search(r"Inductive vtag :=(.*?)\.", src, flags=re.S)
    return re.findall(r"\bT(\w+)", m.group(1))


def translate(path=REPO_FILE):
    raw = open(path).read()
    src = strip_comments(raw)
    # unit tests are not part of the library
    src = remove_blocks(src, r"#\[cfg\(test\)\]\s*mod\s+\w+\s*\{")
    src = remove_blocks(src, r"#\[test\]\s*fn\s+\w+\s*\(\s*\)\s*\{")
    macros, src = collect_macros(src)
    known_tags = model_vtags()

    def tag(name, what):
        if name not in known_tags:
            fail("%s: variant %s has no tag in coq/Model/Value.v (model out of date)" % (what, name))
        return "T" + name

    # ---- enums -----------------------------------------------------------------------------
    value_variants = enum_variants(src, "Value")
    array_variants = enum_variants(src, "ArrayType")
    value_order = []
    for v, payload in value_variants:
        if v == "Array":
            if payload != "(ArrayType,Option<Box<Vec<Value>>>)":
                fail("Value::Array payload %s not understood" % payload)
            value_order.append(None)
        else:
            if not re.fullmatch(r"\(Option<.+>\)", payload):
                fail("Value::%s payload %s is not an Option" % (v, payload))
            value_order.append(tag(v, "enum Value"))
    array_order = [tag(v, "enum ArrayType") for v, _ in array_variants]
    tuple_variants = enum_variants(src, "ValueTuple")
    if [(v, p) for v, p in tuple_variants] != [("One", "(Value)"), ("Two", "(Value,Value)"),
                                               ("Three", "(Value,Value,Value)"), ("Many", "(Vec<Value>)")]:
        fail("enum ValueTuple changed: %r" % (tuple_variants,))

    # ---- tuple macros (repetition macros: accepted only verbatim) --------------------------
    into_arities, from_arities = {}, {}
    for name, (params, body, pattern) in macros.items():
        if params is not None:
            continue
        if nows(body) == INTO_TUPLE_MACRO and nows(pattern) == INTO_TUPLE_MACRO_PAT:
            for m in re.finditer(r"\b%s!\s*\(" % name, src):
                e = match_close(src, m.end() - 1, "(", ")")
                args = split_top(src[m.end():e])
                for k, a in enumerate(args):
                    if nows(a) != "%d:T%d" % (k, k):
                        fail("%s!: component %d is %r (expected %d:T%d)" % (name, k, a, k, k))
                into_arities[len(args)] = "KMany"
        elif nows(body) == FROM_TUPLE_MACRO and nows(pattern) == FROM_TUPLE_MACRO_PAT:
            for m in re.finditer(r"\b%s!\s*\(" % name, src):
                e = match_close(src, m.end() - 1, "(", ")")
                args = split_top(src[m.end():e])
                n = int(args[0])
                if [nows(a) for a in args[1:]] != ["T%d" % k for k in range(n)]:
                    fail("%s!(%s): type parameters do not match the length" % (name, ",".join(args)))
                from_arities[n] = "KMany"
        elif name == "box_to_opt_ref":
            pass
        else:
            fail("macro %s uses repetitions and is not one of the modelled tuple macros" % name)
    src = expand_flat(src, macros)
    if re.search(r"\b(type_to_value|type_to_box_value|fmt_uuid_to_box_value)!", src):
        fail("unexpanded value-type macro invocation left")

    # ---- impls -------------------------------------------------------------------------------
    rows = {}     # canonical type -> dict
    order = []

    def row(t):
        t = canon_type(t)
        if t not in rows:
            rows[t] = {"from": None, "null": None, "try": None, "arr": None, "notu8": False}
            order.append(t)
        return rows[t]

    seen_generic = set()
    notu8_generic_datetime = False
    trait_unwrap_ok = value_unwrap_ok = False
    # trait default method and Value::unwrap
    m = re.search(r"\btrait\s+ValueType\s*:\s*Sized\s*\{", src)
    if not m:
        fail("trait ValueType not found")
    tb = src[m.end() - 1:match_close(src, m.end() - 1) + 1]
    sig, b = fn_body(tb, "unwrap")
    if nows(sig) != "fnunwrap(v:Value)->Self" or nows(b) != TRAIT_UNWRAP:
        fail("ValueType::unwrap changed: %s {%s}" % (sig, nows(b)))
    trait_unwrap_ok = True

    for header, body in impl_blocks(src):
        h = header
        # -- From<T> for Value
        m = re.fullmatch(r"impl(<T>)? From<(.+)> for Value( where .*)?", h)
        if m:
            t = canon_type(m.group(2))
            sig, b = fn_body(body, "from")
            sm = re.fullmatch(r"fnfrom\((\w+):(.+)\)->Value", nows(sig))
            if not sm or canon_type(sm.group(2)) != t:
                fail("From<%s>: signature %s not understood" % (t, sig))
            b = nows(re.sub(r"\b%s\b" % sm.group(1), "x", b)) if sm.group(1) != "x" else nows(b)
            if t == "Option<T>":
                if b != FROM_OPTION or nows(m.group(3) or "") != "whereT:Into<Value>+Nullable,":
                    fail("From<Option<T>> changed: %s" % b)
                seen_generic.add("from_option")
                continue
            if t == "Vec<T>":
                if b != FROM_VEC or nows(m.group(3) or "") != "whereT:Into<Value>+NotU8+ValueType,":
                    fail("From<Vec<T>> changed: %s" % b)
                seen_generic.add("from_vec")
                continue
            if m.group(1):
                fail("generic impl %s not modelled" % h)
            r = row(t)
            if r["from"] is not None:
                fail("two From<%s> impls" % t)
            if re.fullmatch(FROM_VIA_STRING, b):
                r["from"] = ("VIA_STRING",)
                continue
            for shape, boxed, conv in FROM_SHAPES:
                fm = re.fullmatch(shape, b)
                if fm:
                    r["from"] = (tag(fm.group(1), "From<%s>" % t), boxed, conv)
                    break
            else:
                fail("From<%s> for Value: body not understood: %s" % (t, b))
            continue
        if re.match(r"impl(<.*>)? From<", h) and h.endswith("for Value"):
            fail("impl not understood: %s" % h)
        # -- Nullable
        m = re.fullmatch(r"impl(<T>)? Nullable for (.+?)( where .*)?", h)
        if m:
            t = canon_type(m.group(2))
            sig, b = fn_body(body, "null")
            b = nows(b)
            if t == "Vec<T>":
                if b != NULL_VEC:
                    fail("Nullable for Vec<T> changed: %s" % b)
                seen_generic.add("null_vec")
                continue
            if m.group(1):
                fail("generic impl %s not modelled" % h)
            nm = re.fullmatch(r"Value::(\w+)\(None\)", b)
            if not nm:
                fail("Nullable for %s: body not understood: %s" % (t, b))
            r = row(t)
            if r["null"] is not None:
                fail("two Nullable impls for %s" % t)
            r["null"] = tag(nm.group(1), "Nullable for %s" % t)
            continue
        # -- ValueType
        m = re.fullmatch(r"impl(<T>)? ValueType for (.+?)( where .*)?", h)
        if m:
            t = canon_type(m.group(2))
            sig, b = fn_body(body, "try_from")
            if nows(sig) != "fntry_from(v:Value)->Result<Self,ValueTypeErr>":
                fail("ValueType for %s: try_from signature changed" % t)
            b = nows(b)
            if fn_body(body, "unwrap", required=False) or fn_body(body, "expect", required=False):
                fail("ValueType for %s overrides unwrap/expect; not modelled" % t)
            _, ab = fn_body(body, "array_type")
            ab = nows(ab)
            if t == "Option<T>":
                if b != TRY_OPTION or ab != "T::array_type()" or nows(m.group(3) or "") != "whereT:ValueType+Nullable,":
                    fail("ValueType for Option<T> changed: %s" % b)
                seen_generic.add("try_option")
                continue
            if t == "Vec<T>":
                if b != TRY_VEC or ab != "T::array_type()" or nows(m.group(3) or "") != "whereT:NotU8+ValueType,":
                    fail("ValueType for Vec<T> changed: %s" % b)
                seen_generic.add("try_vec")
                continue
            if m.group(1):
                fail("generic impl %s not modelled" % h)
            tm = re.fullmatch(TRY_SHAPE, b)
            if not tm or tm.group(2) not in TRY_EXPRS:
                fail("ValueType for %s: try_from body not understood: %s" % (t, b))
            r = row(t)
            if r["try"] is not None:
                fail("two ValueType impls for %s" % t)
            boxed, conv = TRY_EXPRS[tm.group(2)]
            r["try"] = (tag(tm.group(1), "ValueType for %s" % t), boxed, conv)
            am = re.fullmatch(r"ArrayType::(\w+)", ab)
            if am:
                r["arr"] = tag(am.group(1), "array_type of %s" % t)
            elif ab.startswith("unimplemented!("):
                r["arr"] = None
            else:
                fail("ValueType for %s: array_type body not understood: %s" % (t, ab))
            continue
        # -- NotU8
        m = re.fullmatch(r"impl(<Tz>)? NotU8 for (.+?)( where .*)?", h)
        if m:
            t = canon_type(m.group(2))
            if m.group(1):
                if t != "DateTime<Tz>" or nows(m.group(3) or "") != "whereTz:chrono::TimeZone":
                    fail("generic NotU8 impl not understood: %s" % h)
                notu8_generic_datetime = True
            else:
                row(t)["notu8"] = True
            continue
        # -- tuples
        m = re.fullmatch(r"impl(<[\w, ]+>)? IntoValueTuple for (.+?)( where .*)?", h)
        if m:
            t = nows(m.group(2))
            _, b = fn_body(body, "into_value_tuple")
            if t not in INTO_TUPLE or nows(b) != INTO_TUPLE[t][0]:
                fail("IntoValueTuple for %s not understood / changed: %s" % (t, nows(b)))
            if INTO_TUPLE[t][1]:
                n, k = INTO_TUPLE[t][1]
                into_arities[n] = k
            continue
        m = re.fullmatch(r"impl(<[\w, ]+>)? FromValueTuple for (.+?)( where .*)?", h)
        if m:
            t = nows(m.group(2))
            _, b = fn_body(body, "from_value_tuple")
            if t not in FROM_TUPLE or nows(b) != FROM_TUPLE[t][0]:
                fail("FromValueTuple for %s not understood / changed: %s" % (t, nows(b)))
            n, k = FROM_TUPLE[t][1]
            from_arities[n] = k
            continue
        if h == "impl IntoIterator for ValueTuple":
            _, b = fn_body(body, "into_iter")
            if nows(b) != INTO_ITER:
                fail("ValueTuple::into_iter changed: %s" % nows(b))
            seen_generic.add("into_iter")
            continue
        if h == "impl Value" and re.search(r"\bfn\s+unwrap\b", body):
            sig, b = fn_body(body, "unwrap")
            if nows(sig) != "fnunwrap<T>(self)->TwhereT:ValueType," or nows(b) != VALUE_UNWRAP:
                fail("Value::unwrap changed")
            value_unwrap_ok = True
    need = {"from_option", "from_vec", "null_vec", "try_option", "try_vec", "into_iter"}
    if seen_generic != need:
        fail("generic impls missing: %s" % sorted(need - seen_generic))
    if not (trait_unwrap_ok and value_unwrap_ok):
        fail("unwrap definitions not found")
    # resolve From<Cow<str>> (delegates to From<String>) and the generic NotU8 for DateTime<Tz>
    for t, r in rows.items():
        if r["from"] == ("VIA_STRING",):
            s = rows.get("String", {}).get("from")
            if not s:
                fail("From<%s> delegates to From<String>, which was not found" % t)
            r["from"] = (s[0], s[1], "CvViaString")
        if notu8_generic_datetime and re.fullmatch(r"DateTime<\w+>", t):
            r["notu8"] = True
        if r["from"] and r["try"] and r["from"][1] != r["try"][1]:
            fail("%s: boxed on one side only" % t)
    for t in order:
        r = rows[t]
        if not (r["from"] or r["null"] or r["try"]):
            # a NotU8 marker for a type with no conversion at all
            fail("NotU8 for %s but no conversion impl found" % t)

    # ---- as_null / dummy_value -----------------------------------------------------------------
    asnull, dummy = [], []
    asnull_array = dummy_array = False
    for header, body in impl_blocks(src):
        if header != "impl Value" or not re.search(r"\bfn\s+as_null\b", body):
            continue
        _, b = fn_body(body, "as_null")
        b = nows(strip_attrs(b))
        mm = re.fullmatch(r"matchself\{(.*)\}", b)
        if not mm:
            fail("as_null body not understood")
        for arm in split_arms(mm.group(1)):
            am = re.fullmatch(r"Self::(\w+)\(_\)=>Self::(\w+)\(None\)", arm)
            if am:
                asnull.append((tag(am.group(1), "as_null"), tag(am.group(2), "as_null")))
            elif arm == "Self::Array(ty,_)=>Self::Array(ty.clone(),None)":
                asnull_array = True
            else:
                fail("as_null arm not understood: %s" % arm)
        _, b = fn_body(body, "dummy_value")
        b = nows(strip_attrs(b))
        mm = re.fullmatch(r"matchself\{(.*)\}", b)
        if not mm:
            fail("dummy_value body not understood")
        for arm in split_arms(mm.group(1)):
            am = re.fullmatch(r"Self::(\w+)\(_\)=>\{?Self::(\w+)\(Some\((.+)\)\)\}?", arm)
            if am:
                kind = "DkDefault" if am.group(3) == "Default::default()" else "DkConst"
                dummy.append((tag(am.group(1), "dummy_value"), tag(am.group(2), "dummy_value"), kind))
            elif arm == "Self::Array(ty,_)=>Self::Array(ty.clone(),Some(Default::default()))":
                dummy_array = True
            else:
                fail("dummy_value arm not understood: %s" % arm)
    if not asnull or not dummy:
        fail("as_null / dummy_value not found")

    # ---- mod hashable_value ------------------------------------------------------------------------
    m = re.search(r"\bmod\s+hashable_value\s*\{", src)
    if not m:
        fail("mod hashable_value not found")
    hv = src[m.end() - 1:match_close(src, m.end() - 1) + 1]
    eq_arms, hash_arms = [], []
    eq_array = hash_array = False
    eq_seen = hash_seen = False
    for header, body in impl_blocks(hv):
        if header == "impl PartialEq for Value":
            eq_seen = True
            _, b = fn_body(body, "eq")
            b = nows(strip_attrs(b))
            mm = re.fullmatch(r"match\(self,other\)\{(.*)\}", b)
            if not mm:
                fail("PartialEq for Value: body not understood")
            arms = split_arms(mm.group(1))
            if arms[-1] != "_=>false":
                fail("PartialEq for Value: last arm is %s" % arms[-1])
            for arm in arms[:-1]:
                am = re.fullmatch(r"\(Self::(\w+)\(l\),Self::(\w+)\(r\)\)=>\{?(.+?)\}?", arm)
                if am and am.group(3) in EQ_KINDS:
                    if am.group(1) != am.group(2):
                        fail("PartialEq arm compares two different variants: %s" % arm)
                    eq_arms.append((tag(am.group(1), "PartialEq"), EQ_KINDS[am.group(3)]))
                elif arm == "(Self::Array(ty_l,values_l),Self::Array(ty_r,values_r))=>{ty_l==ty_r&&values_l==values_r}":
                    eq_array = True
                else:
                    fail("PartialEq arm not understood: %s" % arm)
        elif header == "impl Hash for Value":
            hash_seen = True
            _, b = fn_body(body, "hash")
            b = nows(strip_attrs(b))
            mm = re.fullmatch(r"mem::discriminant\(self\)\.hash\(state\);matchself\{(.*)\}", b)
            if not mm:
                fail("Hash for Value: body not understood (discriminant first?)")
            for arm in split_arms(mm.group(1)):
                am = re.fullmatch(r"Value::(\w+)\((\w+)\)=>(.+)", arm)
                if am:
                    e = re.sub(r"\b%s\b" % am.group(2), "X", am.group(3))
                    if e not in HASH_KINDS:
                        fail("Hash arm not understood: %s" % arm)
                    hash_arms.append((tag(am.group(1), "Hash"), HASH_KINDS[e]))
                elif arm == "Value::Array(array_type,vec)=>{array_type.hash(state);vec.hash(state);}":
                    hash_array = True
                else:
                    fail("Hash arm not understood: %s" % arm)
        elif header == "impl Eq for Value":
            pass
        else:
            fail("mod hashable_value: unexpected %s" % header)
    if not (eq_seen and hash_seen):
        fail("mod hashable_value: PartialEq / Hash for Value not found")
    for fname, want in HASHABLE_FNS.items():
        got = fn_body(hv, fname, required=False)
        if not got:
            fail("mod hashable_value: fn %s not found" % fname)
        if nows(got[1]) != want:
            fail("mod hashable_value: fn %s changed: %s" % (fname, nows(got[1])))
    m = re.search(r"((?:#\[[^\]]*\]\s*)*)pub\s+enum\s+ValueTuple\b", src)
    attrs = nows(m.group(1))
    if attrs != '#[derive(Clone,Debug,PartialEq)]#[cfg_attr(feature="hashable-value",derive(Hash,Eq))]':
        fail("derives of ValueTuple changed: %s" % attrs)
    m = re.search(r"((?:#\[[^\]]*\]\s*)*)pub\s+enum\s+Value\b", src)
    attrs = nows(m.group(1))
    if attrs != '#[derive(Clone,Debug)]#[cfg_attr(not(feature="hashable-value"),derive(PartialEq))]':
        fail("derives of Value changed: %s" % attrs)
    m = re.search(r"((?:#\[[^\]]*\]\s*)*)pub\s+enum\s+ArrayType\b", src)
    attrs = nows(m.group(1))
    if attrs != "#[derive(Clone,Debug,Eq,PartialEq,Hash)]":
        fail("derives of ArrayType changed: %s" % attrs)

    return {"rows": [(t, rows[t]) for t in order], "value_order": value_order, "array_order": array_order,
            "into_arities": into_arities, "from_arities": from_arities, "asnull": asnull, "asnull_array": asnull_array,
            "dummy": dummy, "dummy_array": dummy_array, "eq_arms": eq_arms, "eq_array": eq_array,
            "hash_arms": hash_arms, "hash_array": hash_array}


# ------------------------------------------------------------------------------------------------
# Gallina output
# ------------------------------------------------------------------------------------------------

def coq_bool(b):
    return "true" if b else "false"


def coq_side(s):
    if s is None:
        return "None"
    return "Some (mk_side %s %s %s)" % (s[0], coq_bool(s[1]), s[2])


def coq_opt(x):
    return "None" if x is None else "Some %s" % x


def render(tr):
    L = []
    L.append("(* GENERATED by tools/valuetypes.py from the source text of /repo/src/value.rs -- do not edit.")
    L.append("   One row per Rust type with a conversion impl: the variant built by From, the variant of")
    L.append("   Nullable::null, the variant matched by ValueType::try_from (with boxed flag and the")
    L.append("   representation change applied), ValueType::array_type, and the NotU8 marker. *)")
    L.append("Require Import SQV.Model.Str SQV.Model.Value SQV.Model.ValueRow.")
    L.append("From Coq Require Import String.")
    L.append("Open Scope string_scope.")
    L.append("")
    L.append("Definition value_types : list vrow := [")
    rows = []
    for t, r in tr["rows"]:
        rows.append('  mk_vrow (K "%s") (%s) (%s) (%s) (%s) %s' % (
            t, coq_side(r["from"]), coq_opt(r["null"]), coq_side(r["try"]), coq_opt(r["arr"]), coq_bool(r["notu8"])))
    L.append(";\n".join(rows))
    L.append("].")
    L.append("")
    L.append("(* enum Value in declaration order (None = the Array variant): position = discriminant *)")
    L.append("Definition value_enum_order : list (option vtag) := [%s]." % "; ".join(coq_opt(x) for x in tr["value_order"]))
    L.append("(* enum ArrayType in declaration order *)")
    L.append("Definition array_enum_order : list vtag := [%s]." % "; ".join(tr["array_order"]))
    L.append("")
    L.append("(* IntoValueTuple / FromValueTuple: constructor used for each implemented arity *)")
    L.append("Definition into_tuple_table : list (N * tctor) := [%s]." % "; ".join(
        "(%d, %s)" % (n, k) for n, k in sorted(tr["into_arities"].items())))
    L.append("Definition from_tuple_table : list (N * tctor) := [%s]." % "; ".join(
        "(%d, %s)" % (n, k) for n, k in sorted(tr["from_arities"].items())))
    L.append("")
    L.append("(* arms of Value::as_null: Self::A(_) => Self::B(None) *)")
    L.append("Definition as_null_arms : list (vtag * vtag) := [%s]." % "; ".join("(%s, %s)" % a for a in tr["asnull"]))
    L.append("Definition as_null_array_arm : bool := %s." % coq_bool(tr["asnull_array"]))
    L.append("(* arms of Value::dummy_value: Self::A(_) => Self::B(Some(..)) *)")
    L.append("Definition dummy_arms : list (vtag * (vtag * dummy_kind)) := [%s]." % "; ".join("(%s, (%s, %s))" % a for a in tr["dummy"]))
    L.append("Definition dummy_array_arm : bool := %s." % coq_bool(tr["dummy_array"]))
    L.append("")
    L.append("(* mod hashable_value: comparison / hash used by the arm of each variant *)")
    L.append("Definition eq_arms : list (vtag * eq_kind) := [%s]." % "; ".join("(%s, %s)" % a for a in tr["eq_arms"]))
    L.append("Definition eq_array_arm : bool := %s." % coq_bool(tr["eq_array"]))
    L.append("Definition hash_arms : list (vtag * hash_kind) := [%s]." % "; ".join("(%s, %s)" % a for a in tr["hash_arms"]))
    L.append("Definition hash_array_arm : bool := %s." % coq_bool(tr["hash_array"]))
    L.append("")
    return "\n".join(L)


def rows_of_generated(text):
    """recover the rows from an existing Generated/ValueTypes.v (used when the translation of the
    current source fails and the previous table is kept for the executable model)"""
    rows = []
    side = r"\((?:None|Some \(mk_side (T\w+) (true|false) (\w+)\))\)"
    opt = r"\((?:None|Some (T\w+))\)"
    for m in re.finditer(r'mk_vrow \(K "([^"]+)"\) %s %s %s %s (true|false)' % (side, opt, side, opt), text):
        g = m.groups()
        rows.append((g[0], {"from": (g[1], g[2] == "true", g[3]) if g[1] else None, "null": g[4],
                            "try": (g[5], g[6] == "true", g[7]) if g[5] else None, "arr": g[8],
                            "notu8": g[9] == "true"}))
    return rows


def status(ok, err=""):
    err = re.sub(r'[^A-Za-z0-9 _.,:;<>()\[\]{}=!&*+/|$-]', "?", err)[:900]
    return ("(* GENERATED by tools/valuetypes.py: did the translation of /repo/src/value.rs succeed? *)\n"
            "From Coq Require Import String.\n"
            "Definition translation_ok : bool := %s.\n"
            "Definition translation_error : string := \"%s\"%%string.\n" % (coq_bool(ok), err))


if __name__ == "__main__":
    try:
        tr = translate(sys.argv[1] if len(sys.argv) > 1 else REPO_FILE)
    except Untranslatable as e:
        print("UNTRANSLATABLE:", e)
        sys.exit(1)
    sys.stdout.write(render(tr))
