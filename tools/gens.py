"""shared generator helpers (all randomness comes from the ctx PRNG)"""
import itertools


def shortlex(alphabet, maxlen):
    for n in range(0, maxlen + 1):
        for t in itertools.product(alphabet, repeat=n):
            yield "".join(t)


INTERESTING = ["'", '"', "\\", "\0", "\b", "\t", "\n", "\r", "\x1a", "`", "[", "]", "?", "$", "%", "_",
               " ", "a", "z", "Z", "0", "9", "b", "n", "r", "t", ".", "(", ")", ",", ";", "-", "*", "/",
               "é", "ł", "　", "\U0001F600", " ", " ", "﻿", "\x7f", "\x80".encode("latin1").decode("latin1")]


def rand_unicode_char(rng):
    r = rng.random()
    if r < 0.45:
        return rng.choice(INTERESTING)
    if r < 0.7:
        return chr(rng.randrange(0x20, 0x7F))
    if r < 0.8:
        return chr(rng.randrange(0, 0x20))
    while True:
        c = rng.randrange(0x80, 0x110000)
        if not (0xD800 <= c <= 0xDFFF):
            return chr(c)


def rand_string(rng, maxlen=12):
    n = rng.randrange(0, maxlen + 1)
    return "".join(rand_unicode_char(rng) for _ in range(n))
