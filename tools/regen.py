"""Regeneration of coq/Generated/*.v from /repo (DESIGN.md §4.1). Files are only rewritten when
their content changes, so that make does not rebuild needlessly."""
import os
import vlib


def write_if_changed(path, content):
    old = None
    if os.path.exists(path):
        old = open(path).read()
    if old != content:
        with open(path, "w") as f:
            f.write(content)
        return True
    return False


def dump(harness_exe, what, outfile):
    rc, out = vlib.sh([harness_exe, "--dump", what], timeout=600)
    if rc != 0 or "GENERATED" not in out:
        raise vlib.BuildError("dump %s failed: %s" % (what, out[-2000:]))
    return write_if_changed(os.path.join(vlib.COQ, "Generated", outfile), out)


def regen_alpha(exe):
    return dump(exe, "alpha", "Alpha.v")


def regen_all(exe):
    regen_alpha(exe)
