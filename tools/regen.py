"""Regeneration of coq/Generated/*.v from /repo (DESIGN.md §4.1). Files are only rewritten when
their content changes, so that make does not rebuild needlessly."""
import os
import vlib


def write_if_changed(path, content):
    old = None
    if os.path.exists(path):
        old = open(path).read()
    if old != content:
        with open(path, "w") as f:
            f.write(content)
        return True
    return False


def dump(harness_exe, what, outfile):
    rc, out = vlib.sh([harness_exe, "--dump", what], timeout=600)
    if rc != 0 or "GENERATED" not in out:
        raise vlib.BuildError("dump %s failed: %s" % (what, out[-2000:]))
    return write_if_changed(os.path.join(vlib.COQ, "Generated", outfile), out)


@vlib.locked
def regen_alpha(exe):
    return dump(exe, "alpha", "Alpha.v")


@vlib.locked
def regen_valuetypes(exe=None):
    """coq/Generated/ValueTypes.v + ValueTypesStatus.v from the source text of /repo/src/value.rs
    (tools/valuetypes.py). Returns (ok, error text). On failure the previous ValueTypes.v is kept (the
    executable model still builds) and ValueTypesStatus.v records the failure, which breaks the proof
    obligation translation_complete."""
    import valuetypes
    gen = os.path.join(vlib.COQ, "Generated")
    try:
        text = valuetypes.render(valuetypes.translate())
    except valuetypes.Untranslatable as e:
        write_if_changed(os.path.join(gen, "ValueTypesStatus.v"), valuetypes.status(False, str(e)))
        if not os.path.exists(os.path.join(gen, "ValueTypes.v")):
            raise vlib.BuildError("tools/valuetypes.py cannot translate /repo/src/value.rs and there is no "
                                  "previous Generated/ValueTypes.v: %s" % e)
        return False, str(e)
    write_if_changed(os.path.join(gen, "ValueTypes.v"), text)
    write_if_changed(os.path.join(gen, "ValueTypesStatus.v"), valuetypes.status(True))
    return True, ""


@vlib.locked
def regen_takes(exe=None):
    """coq/Generated/Takes.v + TakesProps.v from the source text of /repo/src (tools/takes.py, property C15).
    Returns the translator's error list; on errors the previous files are kept (checks/c15.py then counts the
    proof obligation as broken)."""
    import takes
    summary, errors = takes.regen()
    gen = os.path.join(vlib.COQ, "Generated")
    if errors and not (os.path.exists(os.path.join(gen, "Takes.v")) and os.path.exists(os.path.join(gen, "TakesProps.v"))):
        raise vlib.BuildError("tools/takes.py cannot translate /repo/src and there is no previous Generated/Takes.v: %s"
                              % "; ".join(errors))
    return errors


@vlib.locked
def regen_all(exe):
    regen_alpha(exe)
    regen_exprtables(None)
    regen_valuetypes(exe)
    regen_takes(exe)
    regen_coltypes(exe)


@vlib.locked
def regen_exprtables(ctx):
    """Generated/ExprTables.v (feature set fa) and ExprTablesMore.v (fc = option-more-parentheses)"""
    exe_fa = vlib.harness_build("fa")
    exe_fc = vlib.harness_build("fc")
    a = dump(exe_fa, "exprtables", "ExprTables.v")
    b = dump(exe_fc, "exprtables", "ExprTablesMore.v")
    return a or b


@vlib.locked
def regen_coltypes(exe):
    """Generated/ColTypes.v (properties C13, C14): column type names per ColumnType shape x backend x
    auto-increment flag, obtained by executing prepare_column_def (harness/src/ddl.rs)"""
    return dump(exe, "coltypes", "ColTypes.v")
