#!/bin/sh
# usage: tools/try_mutation.sh <patch.diff> <Cxx> [tier] : apply the patch to /repo, run the check, undo.
# Works from any copy of the verification tree (the copy this script lives in is the one that runs).
set -u
V="$(cd "$(dirname "$0")/.." && pwd)"
P="$1"; ID="$2"; TIER="${3:-quick}"
cd /repo || exit 2
if [ -n "$(git status --porcelain)" ]; then echo "/repo not clean"; exit 2; fi
git apply "$P" || { echo "patch does not apply"; exit 2; }
cd "$V"
./check "$ID" "$TIER" > "$V/.cache/try_$ID.log" 2>&1
RC=$?
git -C /repo checkout -- .
# restore the committed Generated files (they were regenerated from the mutated tree)
git -C "$V" checkout -- coq/Generated 2>/dev/null
# the evidence file was rewritten from the mutated tree: restore the committed one
git -C "$V" checkout -- "evidence/$ID.json" 2>/dev/null
echo "rc=$RC"
grep -E "^VIOLATION|^KNOWN|PROOF BROKEN|done:" "$V/.cache/try_$ID.log" | cut -c1-300
