"""Generators of case-language programs (expressions, conditions, statements).
All randomness comes from the rng passed in (ctx.rng). Strings travel as hex of UTF-8."""
from vlib import hexs

COMMON_BINOPS = ["and", "or", "like", "notlike", "is", "isnot", "in", "notin", "between", "notbetween", "eq", "ne",
                 "lt", "gt", "le", "ge", "add", "sub", "mul", "div", "mod", "bitand", "bitor", "lshift", "rshift"]
PG_BINOPS = ["pg%d" % i for i in range(20)]
SL_BINOPS = ["sl%d" % i for i in range(4)]
FUNCS = ["max", "min", "sum", "avg", "abs", "count", "ifnull", "greatest", "least", "charlength", "coalesce", "lower",
         "upper", "bitand", "bitor", "round", "md5"]
PG_FUNCS = ["pg%d" % i for i in range(16)]
IDENTS = ["a", "b", "c", "t", "u", "id", "x y", 'q"q', "w`w", "Tbl", "é"]
PLAIN_IDENTS = ["a", "b", "c", "t", "u", "id", "v"]


class Gen:
    def __init__(self, rng, backend="pg", plain=False, allow_panic=True, max_depth=4, subqueries=True,
                 ops=None, weird_strings=True, no_marks=False, parseable=False, value_pool=None):
        self.r = rng
        self.b = backend
        self.plain = plain            # only plain identifiers / simple values
        self.allow_panic = allow_panic
        self.max_depth = max_depth
        self.subqueries = subqueries
        self.ops = ops
        self.weird = weird_strings
        self.no_marks = no_marks      # no placeholder marks in user-supplied raw SQL, no doubled marks
        self.parseable = parseable    # only constructs the oracle parser understands (no raw SQL text)
        # ready-made `v:<term>:<encoding>` atoms of every value kind (tools/richvalues.py make_value_pool); only the
        # renderer-correspondence checks pass one (C01, C02, C11): the oracles of C05-C10 parse or execute the SQL
        # and are not prepared for these literals.  Without a pool the random stream is exactly as before.
        self.value_pool = value_pool

    # ---- leaves ----
    def ident(self):
        return hexs(self.r.choice(PLAIN_IDENTS if self.plain else IDENTS))

    def string(self):
        r = self.r
        if self.plain or not self.weird:
            return r.choice(["x", "abc", "A%", "hello world"])
        # (quote characters next to multi-byte characters: a byte-wise rewrite of the escaper shows only there)
        pool = ["x", "abc", "it's", "a\\b", "%_", "", "é", "q\"q", "line\nbreak", "tab\t", "$1", "?", "a'b'c", "\\",
                "é'ü", "中\"文'", "\\é'"]
        return r.choice(pool)

    def value(self):
        r = self.r
        if self.value_pool and r.random() < 0.25:
            return r.choice(self.value_pool)
        k = r.random()
        if k < 0.45:
            tag = r.choice(["i32", "i32", "i32", "i64", "u8", "i8", "u32", "u64", "i16", "u16"])
            lim = {"i8": (-128, 127), "i16": (-32768, 32767), "i32": (-2 ** 31, 2 ** 31 - 1), "i64": (-2 ** 63, 2 ** 63 - 1),
                   "u8": (0, 255), "u16": (0, 65535), "u32": (0, 2 ** 32 - 1), "u64": (0, 2 ** 64 - 1)}[tag]
            v = r.choice([0, 1, 2, 3, 7, 42, lim[0], lim[1], r.randint(lim[0], lim[1])])
            v = max(lim[0], min(lim[1], v))
            return "i:%s:%d" % (tag, v)
        if k < 0.75:
            return "s:%s" % hexs(self.string())
        if k < 0.82:
            return "b:%d" % r.randint(0, 1)
        if k < 0.90:
            return "n:%s" % r.choice(["b", "i32", "s", "i64", "u8", "f64", "y", "c"])
        if k < 0.95:
            return "c:%s" % hexs(r.choice(["a", "|", "'", "\\", "é"] if not self.plain else ["a", "|"]))
        return "y:%s" % (bytes(r.randrange(256) for _ in range(r.randrange(0, 5))).hex() or "-")

    def colref(self):
        r = self.r
        k = r.random()
        if k < 0.6:
            return "(col %s)" % self.ident()
        if k < 0.9:
            return "(col %s %s)" % (self.ident(), self.ident())
        return "(col %s %s %s)" % (self.ident(), self.ident(), self.ident())

    def binop(self):
        r = self.r
        if self.ops:
            return r.choice(self.ops)
        k = r.random()
        if k < 0.8:
            return r.choice(COMMON_BINOPS)
        if k < 0.86:
            return "cust:%s" % hexs(r.choice(["~~", "<=>", "||", "@"] + ([] if self.parseable else ["SOUNDS LIKE"])))
        if self.b == "pg" or (self.allow_panic and k < 0.88):
            return r.choice(PG_BINOPS)
        if self.b == "sl" or (self.allow_panic and k < 0.9):
            return r.choice(SL_BINOPS)
        return r.choice(COMMON_BINOPS)

    def atom(self):
        r = self.r
        k = r.random()
        if k < 0.4:
            return self.colref()
        if k < 0.8:
            return "(val %s)" % self.value()
        if k < 0.85:
            return "(const %s)" % self.value()
        if k < 0.9:
            return "(kw %s)" % r.choice(["null", "cdate", "ctime", "cts", "cust:%s" % hexs("FOO")])
        if k < 0.95 and not self.parseable:
            return "(cust %s)" % hexs(r.choice(["1 + 1", "x", "NOW()", "a OR b"] + ([] if self.no_marks else ["?"])))
        return "(star)"

    # ---- expressions ----
    def expr(self, depth=None):
        r = self.r
        if depth is None:
            depth = self.max_depth
        if depth <= 0:
            return self.atom()
        k = r.random()
        d = depth - 1
        if k < 0.22:
            return self.atom()
        if k < 0.55:
            return "(bin %s %s %s)" % (self.binop(), self.expr(d), self.expr(d))
        if k < 0.62:
            return "(not %s)" % self.expr(d)
        if k < 0.68:
            n = r.randrange(0, 4)
            return "(tuple %s)" % " ".join(self.expr(d) for _ in range(n)) if n else "(tuple)"
        if k < 0.74:
            fn = r.choice(FUNCS + (PG_FUNCS if self.b == "pg" else []) + ["cust:%s" % hexs("MY_FN")])
            n = r.randrange(0, 3)
            args = [self.expr(d) for _ in range(n)]
            if fn in ("pg0", "pg1", "pg2", "pg3", "pg4") and r.random() < 0.7:
                # the documented shapes of the Postgres full-text constructors: (expr) or (regconfig, expr)
                args = ["(val i:u32:%d)" % r.choice([13043, 3748, 1])] * r.randrange(0, 2) + [self.expr(d)]
            elif fn in ("pg5", "pg6", "pg7") and r.random() < 0.7:
                args = [self.expr(d), self.expr(d)]
            elif fn in ("pg10", "pg11") and r.random() < 0.7:
                args = [self.expr(d)]
            elif fn == "pg12" and r.random() < 0.8:
                # DATE_TRUNC(unit, e): every unit of PgDateTruncUnit
                args = ["(val s:%s)" % hexs(r.choice(["microseconds", "milliseconds", "second", "minute", "hour", "day", "week",
                                                     "month", "quarter", "year", "decade", "century", "millennium"])), self.expr(d)]
            elif fn == "pg9" and r.random() < 0.7:
                args = [self.expr(d) for _ in range(2 * r.randrange(0, 3))]
            elif fn == "round" and r.random() < 0.5:
                args = [self.expr(d), self.expr(0)]
            n = len(args)
            if n >= 2 and r.random() < (0.4 if fn in ("greatest", "least", "coalesce", "ifnull") else 0.1):
                args = [args[0]] * n          # the same argument repeated (GREATEST(a, a), COALESCE(x, x))
            return "(fn %s %s)" % (fn, " ".join(args))
        if k < 0.76:
            return "(countdistinct %s)" % self.expr(d)
        if k < 0.80:
            arms = " ".join("(w %s %s)" % (self.cond_or_expr(d), self.expr(d)) for _ in range(r.randrange(1, 3)))
            els = " (else %s)" % self.expr(d) if r.random() < 0.6 else ""
            return "(case %s%s)" % (arms, els)
        if k < 0.83:
            return "(asenum %s %s)" % (hexs(r.choice(["ty", "ty[]", 'T"y'] if not self.plain else ["ty", "ty[]"])), self.expr(d))
        if k < 0.86:
            return "(vals %s)" % " ".join(self.value() for _ in range(r.randrange(1, 4)))
        if k < 0.90:
            return self.api_node(d)
        if k < 0.93 and not self.parseable:
            return self.custom_with(d)
        if k < 0.97 and self.subqueries:
            op = r.choice(["-", "-", "exists", "any", "some", "all"] if (self.b != "sl" or self.allow_panic) else ["-", "exists"])
            return "(sq %s %s)" % (op, self.select(d - 1))
        return "(bin %s %s %s)" % (self.binop(), self.expr(d), self.expr(d))

    def api_node(self, d):
        r = self.r
        k = r.randrange(10)
        x = self.expr(d)
        if k == 0:
            return "(between %s %s %s)" % (x, self.expr(d), self.expr(d))
        if k == 1:
            return "(notbetween %s %s %s)" % (x, self.expr(d), self.expr(d))
        if k == 2:
            esc = " %s" % hexs(r.choice(["|", "\\", "!"])) if r.random() < 0.5 else ""
            return "(%s %s %s%s)" % (r.choice(["likeapi", "notlikeapi"]), x, hexs(r.choice(["A%", "|_x", "%"])), esc)
        if k == 3:
            return "(%s %s %s)" % (r.choice(["isin", "isnotin"]), x, " ".join(self.value() for _ in range(r.randrange(0, 4))))
        if k == 4:
            return "(%s %s)" % (r.choice(["isnull", "isnotnull"]), x)
        if k == 5:
            if r.random() < 0.3:
                # Func::cast_as_quoted: the type name prepared between a quote character (doubled inside)
                # (with the backend's own quote character: a quote the dialect does not know is raw text of the caller's)
                qc = {"my": [96]}.get(self.b, [34])
                return "(fncastq %s %s %d)" % (x, hexs(r.choice(["MyType", 'q"t', "b`k", "text"])), r.choice(qc))
            return "(%s %s %s)" % (r.choice(["castas", "fncast"]), x, hexs(r.choice(["text", "integer", "MyType"])))
        if k == 6:
            return "(%s %s %s)" % (r.choice(["andapi", "orapi"]), x, self.expr(d))
        if k == 7:
            return "(notapi %s)" % x
        if k == 8 and self.subqueries:
            return "(%s %s %s)" % (r.choice(["insub", "insub", "notinsub"]), x, self.select(d - 1))
        if k == 9 and self.subqueries:
            return "(exists %s)" % self.select(d - 1)
        tw = r.randrange(1, 5)
        return "(intuples %s %s)" % (x, " ".join("(%s)" % " ".join(self.value() for _ in range(tw)) for _ in range(r.randrange(1, 3))))

    def custom_with(self, d):
        r = self.r
        mark = "$" if self.b == "pg" else "?"
        n = r.randrange(0, 3)
        parts = []
        for i in range(r.randrange(1, 5)):
            k = r.random()
            if k < 0.4:
                parts.append(r.choice(["a", "=", " ", "foo(", ")", "+", "'q%sq'" % mark, '"i%si"' % mark, "1",
                                       # operator spellings that only raw SQL can write (Postgres #>> / #> / ::, ||, @>):
                                       # `#` is an operator character there, not the start of a comment
                                       " #>> ", " #> ", "::text", " || ", " @> ", " # "]))
            elif k < 0.8 and n > 0:
                ph = mark + (str(r.randrange(1, n + 1)) if self.b == "pg" else "")
                parts.append((" " + ph + " ") if self.no_marks else ph)
            elif k < 0.9 and not self.no_marks:
                parts.append(mark + mark)
            else:
                parts.append(" ")
        tmpl = "".join(parts)
        # positional templates must not use more marks than values (would panic); keep some panics
        return "(custw %s %s)" % (hexs(tmpl), " ".join(self.expr(d) for _ in range(n + (1 if self.b != "pg" else 0) * tmpl.count("?"))))

    # ---- conditions ----
    def cond(self, depth):
        r = self.r
        ty = r.choice(["any", "all"])
        ops = []
        for _ in range(r.randrange(0, 4)):
            k = r.random()
            if k < 0.55:
                ops.append("(add %s)" % self.expr(max(0, depth - 1)))
            elif k < 0.8 and depth > 0:
                ops.append("(%s %s)" % (r.choice(["add", "addopt"]), self.cond(depth - 1)))
            elif k < 0.88:
                ops.append("(addnone)")
            else:
                ops.append("(not)")
        return "(cond %s%s)" % (ty, "".join(" " + o for o in ops))

    def cond_or_expr(self, depth):
        return self.cond(depth) if self.r.random() < 0.5 else self.expr(depth)

    # ---- table refs / order / window ----
    def tref(self, depth=0):
        r = self.r
        k = r.random()
        if k < 0.5:
            return "(t %s)" % self.ident()
        if k < 0.6:
            return "(t %s %s)" % (self.ident(), self.ident())
        if k < 0.65:
            return "(t %s %s %s)" % (self.ident(), self.ident(), self.ident())
        if k < 0.8:
            return "(ta %s %s)" % (self.ident(), " ".join(self.ident() for _ in range(r.randrange(1, 4))))
        if k < 0.92 and depth > 0 and self.subqueries:
            return "(tsub %s %s)" % (self.select(depth - 1), self.ident())
        if k < 0.96:
            w = r.randrange(1, 5)
            rows = " ".join("(row %s)" % " ".join(self.value() for _ in range(w)) for _ in range(r.randrange(1, 3)))
            return "(tvalues %s %s)" % (self.ident(), rows)
        if k < 0.99:
            # a function call as a table (TableRef::FunctionCall / from_function)
            fn = r.choice(["cust:%s" % hexs("generate_series"), "max", "coalesce", "random"])
            return "(tfn %s %s%s)" % (fn, self.ident(), "".join(" " + self.value_expr() for _ in range(r.randrange(0, 3))))
        return "(t %s)" % self.ident()

    def value_expr(self):
        return "(val %s)" % self.value()

    def order(self, depth):
        r = self.r
        o = r.choice(["asc", "desc", "asc", "desc", "(field %s)" % " ".join(self.value() for _ in range(r.randrange(0, 3)))])
        n = r.choice(["", "", " first", " last"])
        return "%s %s%s" % (self.expr(depth), o, n)

    def window(self, depth):
        r = self.r
        cs = []
        for _ in range(r.randrange(0, 3)):
            cs.append("(partition %s)" % self.expr(depth))
        for _ in range(r.randrange(0, 2)):
            cs.append("(orderby %s)" % self.order(depth))
        if r.random() < 0.5:
            fr = lambda: r.choice(["up", "cur", "uf", "(pre %d)" % r.randrange(0, 5), "(fol %d)" % r.randrange(0, 5)])
            cs.append("(frame %s %s%s)" % (r.choice(["rows", "range"]), fr(), " " + fr() if r.random() < 0.5 else ""))
        return "(window%s)" % "".join(" " + c for c in cs)

    def withclause(self, depth):
        r = self.r
        cs = []
        if r.random() < 0.3:
            cs.append("(recursive)")
        for i in range(r.randrange(1, 3)):
            cols = " ".join(self.ident() for _ in range(r.randrange(0, 3)))
            mat = r.choice(["", "", " mat", " notmat"])
            if r.random() < 0.2:
                # CommonTableExpression::from_select: name and columns derived from the SELECT.  Only when its first
                # FROM item is a plain table: otherwise no name is derived and rendering panics on the missing name -
                # but only if the statement is rendered at all, which the eager model reader cannot express
                sel = self.select(depth - 1)
                k = sel.find("(from ")
                if k >= 0 and (sel.startswith("(from (t ", k) or sel.startswith("(from (ta ", k)):
                    cs.append("(ctefs %s%s)" % (sel, mat))
                    continue
            cs.append("(cte %s (cols%s) %s%s)" % (self.ident(), " " + cols if cols else "", self.query(depth - 1, False), mat))
        if "(recursive)" in cs and r.random() < 0.4:
            cs.append("(search %s %s %s)" % (r.choice(["breadth", "depth"]), self.expr(0), self.ident()))
        if "(recursive)" in cs and r.random() < 0.4:
            cs.append("(cycle %s %s %s)" % (self.expr(0), self.ident(), self.ident()))
        return "(with %s)" % " ".join(cs)

    # ---- statements ----
    def where_calls(self, n, d):
        """n condition-adding calls: and_where / cond_where, or - never mixed with them, the code panics on a mix -
        the doc-hidden and_or_where(LogicalChainOper)"""
        r = self.r
        if n and r.random() < 0.1:
            return ["(andorwhere %s %s)" % (r.choice(["and", "and", "or"]), self.expr(d)) for _ in range(n)]
        return [r.choice(["(andwhere %s)" % self.expr(d), "(condwhere %s)" % self.cond(d)]) for _ in range(n)]

    def select(self, depth=2):
        r = self.r
        d = max(0, depth)
        cs = []
        if r.random() < 0.15:
            cs.append("(distinct distinct)")
        elif r.random() < 0.05:
            cs.append("(distincton %s)" % " ".join(self.colref() for _ in range(r.randrange(0, 3))))
        # an empty projection (SELECT FROM t) is what the builder gives when no column was added: rare, but rendered
        for _ in range(r.randrange(1, 4) if r.random() >= 0.03 else 0):
            k = r.random()
            if k < 0.4:
                cs.append("(col %s)" % self.colref())
            elif k < 0.7:
                cs.append("(expr %s)" % self.expr(d))
            elif k < 0.85:
                cs.append("(expras %s %s)" % (self.expr(d), self.ident()))
            elif k < 0.9:
                cs.append("(exprwin %s %s)" % (self.expr(d), self.window(0)))
            elif k < 0.93:
                cs.append("(exprwinas %s %s %s)" % (self.expr(d), self.window(0), self.ident()))
            elif k < 0.97:
                cs.append("(exprwinname %s %s)" % (self.expr(d), self.ident()))
            else:
                cs.append("(exprwinnameas %s %s %s)" % (self.expr(d), self.ident(), self.ident()))
        if r.random() < 0.85:
            for _ in range(r.randrange(1, 3)):
                cs.append("(from %s)" % self.tref(d))
            if self.b == "my" and r.random() < 0.15:
                cs.append("(hint %s %s %s)" % (r.choice(["use", "ignore", "force"]), r.choice(["join", "orderby", "groupby", "all"]), self.ident()))
        for _ in range(r.choice([0, 0, 0, 1, 2])):
            jt = r.choice(["join", "cross", "inner", "left", "right"] + (["full"] if (self.b != "my" or self.allow_panic) else []))
            cs.append("(join %s %s %s)" % (jt, self.tref(d), self.cond_or_expr(d)))
        cs += self.where_calls(r.choice([0, 0, 1, 1, 2, 3]), d)
        for _ in range(r.choice([0, 0, 0, 1, 2])):
            cs.append("(groupby %s)" % self.expr(d))
        for _ in range(r.choice([0, 0, 0, 1, 2])):
            cs.append(r.choice(["(andhaving %s)" % self.expr(d), "(condhaving %s)" % self.cond(d)]))
        if d > 0:
            for _ in range(r.choice([0, 0, 0, 0, 1, 2])):
                cs.append("(union %s %s)" % (r.choice(["intersect", "distinct", "except", "all"]), self.select(d - 1)))
        for _ in range(r.choice([0, 0, 1, 2])):
            cs.append("(orderby %s)" % self.order(d))
        if r.random() < 0.3:
            cs.append("(limit %d)" % r.choice([0, 1, 10, 2 ** 63, 2 ** 64 - 1]))
        if r.random() < 0.2:
            cs.append("(offset %d)" % r.choice([0, 5, 100]))
        if r.random() < 0.1:
            tables = " ".join(self.tref(0) for _ in range(r.randrange(0, 3)))
            cs.append("(lock %s (tables%s)%s)" % (r.choice(["update", "nokeyupdate", "share", "keyshare"]),
                                                 " " + tables if tables else "", r.choice(["", " nowait", " skip"])))
        if r.random() < 0.08:
            cs.append("(window %s %s)" % (self.ident(), self.window(0)))
        if r.random() < 0.08 and d > 0:
            cs.append(self.withclause(d))
        r.shuffle(cs) if r.random() < 0.1 else None
        return "(select %s)" % " ".join(cs)

    def returning(self, d):
        r = self.r
        k = r.randrange(3)
        if k == 0:
            return "(returning all)"
        if k == 1:
            return "(returning cols %s)" % " ".join(self.colref() for _ in range(r.randrange(1, 3)))
        return "(returning exprs %s)" % " ".join(self.expr(d) for _ in range(r.randrange(1, 3)))

    def onconflict(self, d):
        r = self.r
        cs = []
        k = r.random()
        if k < 0.6:
            cs.append("(cols %s)" % " ".join(self.ident() for _ in range(r.randrange(1, 3))))
        elif k < 0.8:
            cs.append("(texpr %s)" % self.expr(d))
        if r.random() < 0.2:
            cs.append("(twhere %s)" % self.expr(d))
        k = r.random()
        if k < 0.15:
            cs.append("(nothing)")
        elif k < 0.25:
            cs.append("(nothingon %s)" % " ".join(self.ident() for _ in range(r.randrange(1, 3))))
        elif k < 0.6:
            if r.random() < 0.3:
                # several columns, one of them assigned twice (the list is written as given, in call order)
                cols = [self.ident() for _ in range(r.randrange(2, 5))]
                cols.insert(r.randrange(len(cols) + 1), r.choice(cols))
                for c in cols:
                    cs.append(r.choice(["(updcol %s)" % c, "(updexpr %s %s)" % (c, self.expr(d))]))
            else:
                for _ in range(r.randrange(1, 3)):
                    cs.append(r.choice(["(updcol %s)" % self.ident(), "(updexpr %s %s)" % (self.ident(), self.expr(d))]))
            if r.random() < 0.3:
                cs.append("(awhere %s)" % self.expr(d))
        elif k < 0.92:
            # a HISTORY of action calls: do_nothing / do_nothing_on / update_column / value in any order (the last
            # kind of call decides the action, updates accumulate)
            for _ in range(r.randrange(2, 5)):
                cs.append(r.choice(["(nothing)", "(nothingon %s)" % self.ident(), "(updcol %s)" % self.ident(),
                                    "(updexpr %s %s)" % (self.ident(), self.expr(d))]))
            if r.random() < 0.3:
                cs.append("(awhere %s)" % self.expr(d))
        return "(onconflict %s)" % " ".join(cs)

    def insert(self, depth=2):
        r = self.r
        d = max(0, depth)
        cs = []
        if r.random() < 0.1:
            cs.append("(replace)")
        cs.append("(into %s)" % self.tref(0))
        ncol = r.choice([0, 1, 2, 2, 3])
        if ncol or r.random() < 0.5:
            cs.append("(columns %s)" % " ".join(self.ident() for _ in range(ncol)) if ncol else "(columns)")
        def row(n):
            return " ".join(self.expr(d) for _ in range(n))
        k = r.random()
        if k < 0.5:
            for _ in range(r.randrange(0, 4)):
                n = ncol if r.random() < 0.8 else r.randrange(0, 4)
                op = r.choice(["values", "values", "valuespanic"])
                cs.append("(%s %s)" % (op, row(n)) if n else "(%s)" % op)
        elif k < 0.65:
            # a HISTORY of source calls: rows one by one, rows in bulk (values_from_panic), a SELECT source, in any
            # order (a later kind of source replaces an earlier one, rows of the same kind accumulate)
            for _ in range(r.randrange(2, 5)):
                kk = r.random()
                if kk < 0.35:
                    cs.append("(%s %s)" % (r.choice(["values", "valuespanic"]), row(ncol)) if ncol else "(values)")
                elif kk < 0.7:
                    cs.append("(valuesfrompanic %s)" % " ".join("(row %s)" % row(ncol) if ncol else "(row)"
                                                                 for _ in range(r.randrange(0, 3))))
                elif kk < 0.9 and d > 0:
                    cs.append("(selectfrom %s)" % self.select(d - 1))
                else:
                    cs.append(r.choice(["(ordefault)", "(ordefaultmany %d)" % r.randrange(0, 3)]))
        elif k < 0.8 and d > 0:
            cs.append("(selectfrom %s)" % self.select(d - 1))
        elif k < 0.9:
            cs.append(r.choice(["(ordefault)", "(ordefaultmany %d)" % r.randrange(0, 4)]))
        if r.random() < 0.4:
            cs.append(self.onconflict(d))
        if r.random() < 0.25:
            cs.append(self.returning(d))
        if r.random() < 0.05 and d > 0:
            cs.append(self.withclause(d))
        return "(insert %s)" % " ".join(cs)

    def update(self, depth=2):
        r = self.r
        d = max(0, depth)
        cs = ["(table %s)" % self.tref(0)]
        for _ in range(r.choice([0, 0, 0, 1, 2])):
            cs.append("(from %s)" % self.tref(0))
        for _ in range(r.randrange(1, 4)):
            cs.append("(value %s %s)" % (self.ident(), self.expr(d)))
        cs += self.where_calls(r.choice([0, 1, 1, 2]), d)
        for _ in range(r.choice([0, 0, 1])):
            cs.append("(orderby %s)" % self.order(d))
        if r.random() < 0.3:
            cs.append("(limit %d)" % r.choice([1, 10]))
        if r.random() < 0.25:
            cs.append(self.returning(d))
        if r.random() < 0.05 and d > 0:
            cs.append(self.withclause(d))
        return "(update %s)" % " ".join(cs)

    def delete(self, depth=2):
        r = self.r
        d = max(0, depth)
        cs = ["(from %s)" % self.tref(0)]
        cs += self.where_calls(r.choice([0, 1, 1, 2]), d)
        for _ in range(r.choice([0, 0, 1])):
            cs.append("(orderby %s)" % self.order(d))
        if r.random() < 0.3:
            cs.append("(limit %d)" % r.choice([1, 10]))
        if r.random() < 0.25:
            cs.append(self.returning(d))
        if r.random() < 0.05 and d > 0:
            cs.append(self.withclause(d))
        return "(delete %s)" % " ".join(cs)

    def query(self, depth=2, allow_with=True):
        r = self.r
        k = r.random()
        if k < 0.55:
            return self.select(depth)
        if k < 0.7:
            return self.insert(depth)
        if k < 0.82:
            return self.update(depth)
        if k < 0.92:
            return self.delete(depth)
        if allow_with and depth > 0:
            return "(withq %s %s)" % (self.withclause(depth), self.query(depth - 1, False))
        return self.select(depth)
