"""./check --setup : full offline build (Coq from clean, extraction, harness feature sets)."""
import os
import vlib


def main():
    import regen
    try:
        exe = vlib.harness_build("base")
        regen.regen_all(exe)
    except vlib.BuildError as e:
        print(e)
        return 1
    try:
        # C20: coq/Generated/TypeGraph*.v from rustdoc JSON of /repo, and the two harness_c20 builds.
        # The committed Generated files are kept if this fails, so the Coq build below can still run.
        import typegraph
        typegraph.setup()
        print("SETUP: C20 type graphs regenerated, harness_c20 built")
    except Exception as e:  # noqa
        print("SETUP: C20 type graph regeneration failed (committed Generated/TypeGraph*.v kept): %s" % str(e)[-1500:])
    vlib.coq_makefile()
    rc, out = vlib.sh("make -j16", cwd=vlib.COQ, timeout=3000)
    print(out[-3000:])
    if rc != 0:
        print("SETUP: coq build failed")
        return 1
    try:
        for name in sorted(os.listdir(os.path.join(vlib.ROOT, 'extract'))):
            if os.path.exists(os.path.join(vlib.ROOT, 'extract', name, 'Extract.v')):
                vlib.model_build(name)
                print('SETUP: model %s built' % name)
        for feat in ("base", "fa", "fb", "fc"):
            vlib.harness_build(feat)
            print("SETUP: harness %s built" % feat)
    except vlib.BuildError as e:
        print(e)
        return 1
    print("SETUP: ok")
    return 0
