"""Value atoms of EVERY kind for the statement-level case language (C01, C02, C03, C11).

Atom: `v:<hex of value term>:<hex of model encoding>`.
  * value term: the syntax of harness/src/valueterm.rs `parse_value` (the harness builds the real `Value` from its
    constructor: payload-crate values from integer ids, arrays element by element);
  * model encoding: the s-expression printed by the harness op `venc <hex term>` (harness/src/valueenc.rs), which the
    OCaml driver decodes into the extracted `value` type.  It carries the text the external formatters print
    (chrono / time / uuid / rust_decimal / bigdecimal / ipnetwork / mac_address Display, serde_json::to_string, f32 / f64
    Display); valueenc.rs computes it by calling those crates directly, never through sea-query.

Kinds generated: the 31 `Value` variants with a payload, the NULL of each of them, arrays of each of the 30 element
kinds (non-empty with and without NULL elements, empty, NULL array).  Outside the generated domain, on purpose:
  * NaN / infinite floats (also as vector or array elements): C01/C02 quantify over finite numbers;
  * U+0000 inside strings / chars: the engines have no representation for it (C03 states the exclusion), and the
    engine tokenizer used by the C01 / C02 oracles would reject the literal on Postgres / SQLite.
All randomness comes from the rng passed in."""
import re

import gens
from vlib import hexs, unhexs

JSON_POOL = 31          # len(JSON_POOL) in harness/src/valueterm.rs (ids 0..22 are shared with C12 / C18)

INT_RANGE = {
    "TinyInt": (-128, 127), "SmallInt": (-32768, 32767), "Int": (-2 ** 31, 2 ** 31 - 1), "BigInt": (-2 ** 63, 2 ** 63 - 1),
    "TinyUnsigned": (0, 255), "SmallUnsigned": (0, 65535), "Unsigned": (0, 2 ** 32 - 1), "BigUnsigned": (0, 2 ** 64 - 1),
}
OPAQUE = ["Json", "ChronoDate", "ChronoTime", "ChronoDateTime", "ChronoDateTimeUtc", "ChronoDateTimeLocal",
          "ChronoDateTimeWithTimeZone", "TimeDate", "TimeTime", "TimeDateTime", "TimeDateTimeWithTimeZone", "Uuid",
          "Decimal", "BigDecimal", "IpNetwork", "MacAddress"]
BASIC = ["Bool"] + list(INT_RANGE) + ["Float", "Double", "String", "Char", "Bytes"]
ARRAY_ELEMS = BASIC + OPAQUE                    # = ArrayType: every variant except Vector and Array
VARIANTS = ARRAY_ELEMS + ["Vector"]             # every Value variant except Array
STRINGS = ["", "x", "abc", "it's", "a\\b", "%_", "é", "q\"q", "line\nbreak", "tab\t", "$1", "?", "a'b'c", "\\", "\\'",
           "NULL", "'{}'", "ARRAY [1]", "a,b", "{\"k\":1}", "\U0001F600", "\x1a", "--", "/*", "';--",
           "é'ü", "中\"文'", "\\é'\U0001F600"]


def finite_f32(rng):
    if rng.random() < 0.4:
        return "%08x" % rng.choice([0x00000000, 0x80000000, 0x00000001, 0x807fffff, 0x007fffff, 0x00800000, 0x3f800000,
                                    0xbf800000, 0x7f7fffff, 0xff7fffff, 0x3dcccccd, 0x4b800000, 0x3fc00000, 0xc2f70000])
    return "%08x" % ((rng.randrange(2) << 31) | (rng.randrange(0, 255) << 23) | rng.randrange(1 << 23))


def finite_f64(rng):
    if rng.random() < 0.4:
        return "%016x" % rng.choice([0, 1 << 63, 1, (1 << 63) | ((1 << 52) - 1), (1 << 52) - 1, 1 << 52,
                                     0x3ff0000000000000, 0xbff0000000000000, 0x7fefffffffffffff, 0xffefffffffffffff,
                                     0x3fb999999999999a, 0x4340000000000000, 0x3ff8000000000000, 0xc05ec00000000000])
    return "%016x" % ((rng.randrange(2) << 63) | (rng.randrange(0, 2047) << 52) | rng.randrange(1 << 52))


def no_nul(s):
    return s.replace("\0", "0")


def payload(tag, rng):
    """token of a non-NULL payload of the variant (valueterm.rs syntax)"""
    from checks import c12
    if tag == "Bool":
        return str(rng.randrange(2))
    if tag in INT_RANGE:
        lo, hi = INT_RANGE[tag]
        return str(max(lo, min(hi, rng.choice([0, 1, -1, 7, 42, lo, hi, rng.randint(lo, hi)]))))
    if tag == "Float":
        return finite_f32(rng)
    if tag == "Double":
        return finite_f64(rng)
    if tag == "String":
        return hexs(rng.choice(STRINGS) if rng.random() < 0.7 else no_nul(gens.rand_string(rng, 10)))
    if tag == "Char":
        return "%x" % ord(no_nul(rng.choice(["a", "|", "'", "\\", "é", "\"", "?", "$", gens.rand_unicode_char(rng)])))
    if tag == "Bytes":
        return bytes(rng.randrange(256) for _ in range(rng.randrange(0, 6))).hex() or "-"
    if tag == "Vector":
        n = rng.randrange(0, 5)
        return ".".join(finite_f32(rng) for _ in range(n)) if n else "-"
    if tag == "Json":
        return str(rng.randrange(JSON_POOL))
    return c12.opaque_token("T" + tag, rng)


def scalar_term(tag, rng):
    return "%s:%s" % (tag, payload(tag, rng))


def array_term(elem, rng, shape=None):
    shape = shape or rng.choice(["null", "empty", "plain", "plain", "plain", "withnull", "withnull"])
    if shape == "null":
        return "Array:%s:N" % elem
    if shape == "empty":
        return "Array:%s:[]" % elem
    items = [scalar_term(elem, rng) for _ in range(rng.randrange(1, 5))]
    if shape == "withnull":
        items.insert(rng.randrange(len(items) + 1), "%s:N" % elem)
    return "Array:%s:[%s]" % (elem, ",".join(items))


def random_term(rng):
    k = rng.random()
    if k < 0.12:
        return "%s:N" % rng.choice(VARIANTS)
    if k < 0.32:
        return array_term(rng.choice(ARRAY_ELEMS), rng)
    return scalar_term(rng.choice(VARIANTS), rng)


def kind_of_term(term):
    f = term.split(":", 2)
    if f[0] == "Array":
        if f[2] == "N":
            return "arraynull[%s]" % f[1]
        if f[2] == "[]":
            return "arrayempty[%s]" % f[1]
        return "array[%s]%s" % (f[1], "+nullelem" if re.search(r":N[,\]]", f[2]) else "")
    return ("null[%s]" % f[0]) if f[1] == "N" else f[0]


ATOM = re.compile(r"\bv:([0-9a-f]+):([0-9a-f]+)")


def kind_of_atom(atom):
    return kind_of_term(unhexs(atom.split(":")[1]))


def encode_terms(ctx, terms):
    """model encodings of value terms, from the harness (ONE batch): list of `v:` atoms"""
    outs = ctx.run_impl(["venc %s" % hexs(t) for t in terms], "venc")
    atoms = []
    for t, o in zip(terms, outs):
        if not re.fullmatch(r"[0-9a-f]+", o):
            raise RuntimeError("venc failed for value term %r: %s" % (t, o))
        atoms.append("v:%s:%s" % (hexs(t), o))
    return atoms


def make_value_pool(ctx, rng, n):
    """n atoms: first one of every kind (every variant, its NULL, every array element kind in every shape), then
    random terms"""
    terms = []
    for tag in VARIANTS:
        terms.append(scalar_term(tag, rng))
        terms.append("%s:N" % tag)
    for elem in ARRAY_ELEMS:
        for shape in ("plain", "withnull"):
            terms.append(array_term(elem, rng, shape))
    for elem in rng.sample(ARRAY_ELEMS, 6):
        terms.append(array_term(elem, rng, "null"))
        terms.append(array_term(elem, rng, "empty"))
    for j in range(23, JSON_POOL):          # the JSON texts with quotes / backslashes / marks / non-ASCII
        terms.append("Json:%d" % j)
    while len(terms) < n:
        terms.append(random_term(rng))
    seen, uniq = set(), []
    for t in terms:
        if t not in seen:
            seen.add(t)
            uniq.append(t)
    return encode_terms(ctx, uniq)


def distribution(lines):
    """value kinds of the `v:` atoms that actually occur in the case lines (coarse classes + per kind)"""
    per, total, plain = {}, 0, 0
    for l in lines:
        for m in ATOM.finditer(l):
            k = kind_of_term(unhexs(m.group(1)))
            per[k] = per.get(k, 0) + 1
            total += 1
        plain += len(re.findall(r"[( ](?:i:[iu]\d+:-?\d+|s:[0-9a-f-]+|b:[01]|n:\w+|c:[0-9a-f]+|y:[0-9a-f-]+)[) ]", l))
    coarse = {}
    for k, c in per.items():
        ck = k.split("[")[0] if "[" in k else ("basic-variant" if k in BASIC else "payload-crate" if k in OPAQUE else k)
        coarse[ck] = coarse.get(ck, 0) + c
    return {"rich_atoms": total, "legacy_atoms_approx": plain, "rich_by_class": dict(sorted(coarse.items())),
            "rich_by_kind": dict(sorted(per.items()))}


# ---- reading the model encoding back (C03 oracle: expected decoded content, from the case line alone) ----

def parse_enc(text):
    toks = text.replace("(", " ( ").replace(")", " ) ").split()
    pos = [0]

    def go():
        t = toks[pos[0]]
        pos[0] += 1
        if t != "(":
            return t
        l = []
        while toks[pos[0]] != ")":
            l.append(go())
        pos[0] += 1
        return l
    return go()


def _elem_texts(e):
    if isinstance(e, list):
        if e and e[0] in ("s", "c"):
            yield unhexs(e[1])
        elif e and e[0] == "o":
            yield unhexs(e[3])
        elif e and e[0] == "arr":
            for x in e[2:]:
                yield from _elem_texts(x)


def array_with_bracket(atom):
    """a non-empty array one of whose element texts contains `]`"""
    e = parse_enc(unhexs(atom.split(":")[2]))
    return isinstance(e, list) and e[0] == "arr" and any("]" in t for t in _elem_texts(e))


CONST_POS = re.compile(r"\((?:const|field) ([^()]*)\)")


def constant_atoms(line):
    """the `v:` atoms written at the positions that are inlined in BOTH rendering modes (Constant, ORDER BY FIELD)"""
    out = []
    for m in CONST_POS.finditer(line):
        out += [a for a in m.group(1).split(" ") if a.startswith("v:")]
    return out
