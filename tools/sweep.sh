#!/bin/sh
# usage: tools/sweep.sh [thorough-ids] : thorough tier of the given checks (default: all) once, then the quick
# tier of every check over several seeds (background robustness sweep; its results are not evidence)
./check --setup >/dev/null 2>&1
ALL="C01 C02 C03 C04 C05 C06 C07 C08 C09 C10 C11 C12 C13 C14 C15 C16 C17 C18 C19 C20"
TH="${1:-$ALL}"
for p in $TH; do echo "=== $p thorough"; timeout 7200 ./check $p thorough 2>&1 | grep -E "^VIOLATION|PROOF BROKEN|Traceback|Error|done:" | cut -c1-300; done
for s in 11 12 13 14 15 16 17 18; do
  for p in $ALL; do echo "=== $p quick seed $s"; VERIF_SEED=$s timeout 3000 ./check $p quick 2>&1 | grep -E "^VIOLATION|PROOF BROKEN|Traceback|Error|done:" | cut -c1-300; done
done
