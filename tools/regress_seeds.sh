#!/bin/bash
# usage: tools/regress_seeds.sh [seeded-id ...] : re-run recorded seeded changes (default: all of seeded/) against the
# current checks, each through the quick check of its own property; prints one line per change with the number of
# VIOLATION lines and of those that name no failing input.  A change that was caught when it was recorded and is not
# caught now is a regression of the generators (their random stream moved on): make the input deterministic.
# A development aid, not a check; needs a clean /repo and nothing else using it.
cd "$(dirname "$0")/.."
IDS="$@"; [ -z "$IDS" ] && IDS=$(ls seeded)
for id in $IDS; do
  prop=${id%%-*}
  out=$(tools/try_mutation.sh "$PWD/seeded/$id/patch.diff" "$prop" quick 2>&1)
  n=$(echo "$out" | grep -c "^VIOLATION")
  nf=$(echo "$out" | grep -c "no-failing-input-found")
  echo "$id violations=$n nofailing=$nf $(echo "$out" | grep -m1 'patch does not apply\|not clean')"
done
