#!/usr/bin/env python3
"""C15 translator (DESIGN.md §4.1, row Takes.v).

Reads the SOURCE TEXT of /repo/src and writes

  coq/Generated/Takes.v       one Gallina record per statement type that has `pub fn take(&mut self) -> Self`
                              or a `clear_* / reset_* / *_clear` method; `take`, the clear methods, `new()` and
                              `Default` are translated from their bodies
  coq/Generated/TakesProps.v  the per-type lemmas (proved by destruct + reflexivity) and the aggregated
                              Forall-lemmas over the generated lists

Nothing is guessed: a right-hand side that is not one of the recognised forms raises TranslateError naming the
item; the caller (checks/c15.py) then counts the proof obligation as broken.

Recognised right-hand sides in the struct literal of take():
    self.f.take()                          f : Option<_>   -> returns old, leaves None
    self.f.take()                          f : a record that itself has take() -> nested take
    std::mem::take(&mut self.f)            returns old, leaves Default::default() of the field type
    std::mem::replace(&mut self.f, X)      returns old, leaves the constant X
    self.f                                 (Copy field) returns old, leaves old
    self.f.clone()                         returns old, leaves old
    <constant>                             returns the constant (the field is LOST), leaves old
    ..Default::default() / ..Self::default() / ..Self::new()   unmentioned fields return the default (LOST), leave old
Recognised statements in clear/reset methods:  self.f = <constant>;   self.f.clear();   self.f.take();   self
Constants: None, Vec::new(), vec![], false, true, Default::default(), T::default(), T::new() (resolved through the
source of T::new), anything else becomes an opaque constant of the World record (universally quantified).
"""
import json
import os
import re
import sys

REPO_SRC = "/repo/src"
# the cargo features the model is generated for = the features of the shared harness (harness/Cargo.toml, set "base")
FEATURES_ON = {"backend-mysql", "backend-postgres", "backend-sqlite", "derive", "tests-cfg"}

# (struct, method) -> the field that holds the clause the method is documented to clear.  Methods not listed
# here are still translated; their specification is then "the single field the body touches" and they are
# reported as unpinned by the check.
EXPECTED_CLAUSE = {
    ("SelectStatement", "clear_selects"): "selects",
    ("SelectStatement", "from_clear"): "from",
    ("SelectStatement", "reset_limit"): "limit",
    ("SelectStatement", "reset_offset"): "offset",
    ("SelectStatement", "clear_order_by"): "orders",
    ("UpdateStatement", "clear_order_by"): "orders",
    ("DeleteStatement", "clear_order_by"): "orders",
    ("WindowStatement", "clear_order_by"): "order_by",
}

CLEAR_RE = re.compile(r"^(clear_\w+|reset_\w+|\w+_clear)$")


class TranslateError(Exception):
    pass


# ---------------------------------------------------------------------------------------------------
# lexical cleaning: comments and the contents of string / char literals are blanked (offsets preserved)
# ---------------------------------------------------------------------------------------------------

def clean(src):
    out = list(src)
    i, n = 0, len(src)

    def blank(a, b):
        for k in range(a, b):
            if out[k] != "\n":
                out[k] = " "

    while i < n:
        c = src[i]
        if src.startswith("//", i):
            j = src.find("\n", i)
            j = n if j < 0 else j
            blank(i, j)
            i = j
        elif src.startswith("/*", i):
            depth, j = 1, i + 2
            while j < n and depth:
                if src.startswith("/*", j):
                    depth += 1
                    j += 2
                elif src.startswith("*/", j):
                    depth -= 1
                    j += 2
                else:
                    j += 1
            blank(i, j)
            i = j
        elif c == "r" and re.match(r'r#*"', src[i:i + 12]) and (i == 0 or not (src[i - 1].isalnum() or src[i - 1] == "_")):
            m = re.match(r'r(#*)"', src[i:])
            close = '"' + m.group(1)
            j = src.find(close, i + len(m.group(0)))
            j = n if j < 0 else j + len(close)
            blank(i + len(m.group(0)), j - len(close))
            i = j
        elif c == '"':
            j = i + 1
            while j < n and src[j] != '"':
                j += 2 if src[j] == "\\" else 1
            blank(i + 1, min(j, n))
            i = j + 1
        elif c == "'":
            m = re.match(r"'(\\.[^']*|[^'\\])'", src[i:])
            if m:
                blank(i + 1, i + len(m.group(0)) - 1)
                i += len(m.group(0))
            else:
                i += 1  # lifetime
        else:
            i += 1
    return "".join(out)


def match_brace(txt, i, open_="{", close="}"):
    """txt[i] is the opening bracket; returns the index just after the matching close"""
    assert txt[i] == open_, (txt[i - 20:i + 20], open_)
    depth = 0
    for j in range(i, len(txt)):
        if txt[j] == open_:
            depth += 1
        elif txt[j] == close:
            depth -= 1
            if depth == 0:
                return j + 1
    raise TranslateError("unbalanced %s at offset %d" % (open_, i))


def split_top(txt, sep=","):
    """split at separators that are not inside () [] {} <>-free nesting"""
    parts, depth, cur = [], 0, []
    angle = 0
    for k, ch in enumerate(txt):
        if ch in "([{":
            depth += 1
        elif ch in ")]}":
            depth -= 1
        elif ch == "<":
            angle += 1
        elif ch == ">" and angle > 0 and (k == 0 or txt[k - 1] not in "-="):
            angle -= 1
        if ch == sep and depth == 0 and angle == 0:
            parts.append("".join(cur))
            cur = []
        else:
            cur.append(ch)
    parts.append("".join(cur))
    return [p for p in (x.strip() for x in parts) if p]


def nows(s):
    return re.sub(r"\s+", "", s)


# ---------------------------------------------------------------------------------------------------
# items
# ---------------------------------------------------------------------------------------------------

class Field:
    def __init__(self, name, rust_type, cfg):
        self.name = name            # without r#
        self.rust_type = rust_type  # whitespace-free
        self.cfg = cfg              # feature name or None


class Struct:
    def __init__(self, name, path, line):
        self.name, self.path, self.line = name, path, line
        self.derives = []
        self.fields = []
        self.methods = {}       # name -> (params, ret, body, path, line, trait)
        self.default_impl = None  # body of a hand-written impl Default


def cfg_of(attrs, item):
    """attrs: list of attribute texts (cleaned: string contents blanked) and original ones"""
    feat = None
    for a_clean, a_orig in attrs:
        a = nows(a_orig)
        if a.startswith("#[cfg("):
            m = re.match(r'#\[cfg\(feature="([^"]+)"\)\]$', a)
            if not m:
                raise TranslateError("%s: cfg attribute not understood: %s" % (item, a_orig))
            feat = m.group(1)
    return feat


def take_attrs(clean_txt, orig_txt):
    """strip leading #[...] attributes; returns (attrs, rest_clean, rest_orig)"""
    attrs = []
    while True:
        m = re.match(r"\s*#\[", clean_txt)
        if not m:
            break
        start = m.end() - 1
        end = match_brace(clean_txt, start, "[", "]")
        attrs.append((clean_txt[m.end() - 2:end], orig_txt[m.end() - 2:end]))
        clean_txt, orig_txt = clean_txt[end:], orig_txt[end:]
    return attrs, clean_txt, orig_txt


def scan_sources(root=REPO_SRC):
    structs = {}
    impls = []   # (type name, trait or None, body clean, body orig, path, offset)
    files = []
    for d, _, fs in sorted(os.walk(root)):
        for f in sorted(fs):
            if f.endswith(".rs"):
                files.append(os.path.join(d, f))
    for path in files:
        orig = open(path, encoding="utf-8").read()
        txt = clean(orig)
        rel = os.path.relpath(path, os.path.dirname(root))
        for m in re.finditer(r"\bstruct\s+(\w+)\s*(\{|<|;|\()", txt):
            name = m.group(1)
            line = txt.count("\n", 0, m.start()) + 1
            s = Struct(name, rel, line)
            # attributes directly above (walk back over attribute lines / visibility)
            head = txt[:m.start()]
            ohead = orig[:m.start()]
            k = len(head.rstrip())
            # strip visibility
            mv = re.search(r"(pub(\s*\([^)]*\))?\s*)$", head)
            if mv:
                k = mv.start()
            attr_txt = []
            while True:
                h = head[:k].rstrip()
                if h.endswith("]"):
                    # find the matching #[
                    depth, j = 0, len(h) - 1
                    while j >= 0:
                        if h[j] == "]":
                            depth += 1
                        elif h[j] == "[":
                            depth -= 1
                            if depth == 0:
                                break
                        j -= 1
                    if j > 0 and h[j - 1] == "#":
                        attr_txt.append(ohead[j - 1:len(h)])
                        k = j - 1
                        continue
                break
            for a in attr_txt:
                md = re.search(r"derive\(([^)]*)\)", a)
                if md:
                    s.derives += [x.strip() for x in md.group(1).split(",") if x.strip()]
            s.generic = m.group(2) == "<"
            s.braced = m.group(2) == "{"
            if s.braced:
                b0 = m.end() - 1
                b1 = match_brace(txt, b0)
                body_c, body_o = txt[b0 + 1:b1 - 1], orig[b0 + 1:b1 - 1]
                # split fields at top-level commas on the cleaned text, keep offsets
                pos, depth, angle, start = 0, 0, 0, 0
                pieces = []
                for pos, ch in enumerate(body_c):
                    if ch in "([{":
                        depth += 1
                    elif ch in ")]}":
                        depth -= 1
                    elif ch == "<":
                        angle += 1
                    elif ch == ">" and angle:
                        angle -= 1
                    elif ch == "," and depth == 0 and angle == 0:
                        pieces.append((start, pos))
                        start = pos + 1
                pieces.append((start, len(body_c)))
                for a, b in pieces:
                    fc, fo = body_c[a:b], body_o[a:b]
                    if not fc.strip():
                        continue
                    attrs, fc, fo = take_attrs(fc, fo)
                    mf = re.match(r"\s*(?:pub(?:\s*\([^)]*\))?\s+)?(r#)?(\w+)\s*:\s*(.+?)\s*$", fc, flags=re.S)
                    if not mf:
                        s.fields = None
                        s.field_error = "field not understood: %r" % fc.strip()
                        break
                    s.fields.append(Field(mf.group(2), nows(mf.group(3)), cfg_of(attrs, "%s.%s" % (name, mf.group(2)))))
            else:
                s.fields = None
                s.field_error = "not a struct with named fields"
            # first definition wins; duplicates (e.g. in test modules) are recorded
            if name in structs:
                structs[name].duplicates = getattr(structs[name], "duplicates", []) + [rel]
            else:
                structs[name] = s
        for m in re.finditer(r"\bimpl\b\s*(<[^>{]*>)?\s*([^{;]*?)\{", txt):
            head = m.group(2).strip()
            head = re.sub(r"\bwhere\b.*$", "", head, flags=re.S).strip()
            trait = None
            if re.search(r"\sfor\s", " " + head + " "):
                trait, _, ty = head.partition(" for ")
                trait, ty = trait.strip(), ty.strip()
            else:
                ty = head
            mt = re.match(r"^(\w+)$", nows(ty))
            if not mt:
                continue
            b0 = m.end() - 1
            try:
                b1 = match_brace(txt, b0)
            except TranslateError:
                continue
            impls.append((mt.group(1), nows(trait) if trait else None, txt[b0 + 1:b1 - 1], orig[b0 + 1:b1 - 1], rel,
                          txt.count("\n", 0, b0) + 1))
    # methods
    for ty, trait, body_c, body_o, rel, line0 in impls:
        if ty not in structs:
            continue
        s = structs[ty]
        depth = 0
        i = 0
        while i < len(body_c):
            ch = body_c[i]
            if ch == "{":
                i = match_brace(body_c, i)
                continue
            m = re.match(r"fn\s+(\w+)\s*(<[^(]*>)?\s*\(", body_c[i:]) if (ch == "f" and (i == 0 or not (body_c[i - 1].isalnum() or body_c[i - 1] == "_"))) else None
            if m:
                p0 = i + m.end() - 1
                p1 = match_brace(body_c, p0, "(", ")")
                params = body_c[p0 + 1:p1 - 1]
                # up to the body or a ';' (declaration forwarded by #[inherent])
                j = p1
                while j < len(body_c) and body_c[j] not in "{;":
                    j += 1
                sig_tail = body_c[p1:j]
                ret = None
                mr = re.match(r"\s*->\s*(.*?)(\bwhere\b.*)?$", sig_tail, flags=re.S)
                if mr:
                    ret = nows(mr.group(1))
                if j < len(body_c) and body_c[j] == "{":
                    e = match_brace(body_c, j)
                    fbody = body_c[j + 1:e - 1]
                    fbody_o = body_o[j + 1:e - 1]
                    pub = bool(re.search(r"pub\s*$", body_c[max(0, i - 12):i]))
                    key = m.group(1)
                    line = line0 + body_c.count("\n", 0, i)
                    entry = dict(params=nows(params), ret=ret, body=fbody, body_orig=fbody_o, path=rel, line=line,
                                 trait=trait, pub=pub, generics=m.group(2))
                    if trait == "Default" and key == "default":
                        s.default_impl = entry
                    elif key not in s.methods or s.methods[key]["trait"] is not None:
                        if not (key in s.methods and trait is not None):
                            s.methods[key] = entry
                    i = e
                    continue
                i = j + 1
                continue
            i += 1
    return structs


# ---------------------------------------------------------------------------------------------------
# type and constant translation
# ---------------------------------------------------------------------------------------------------

def ident(s):
    s = re.sub(r"[^A-Za-z0-9]+", "_", s).strip("_")
    return s or "x"


class Model:
    def __init__(self, structs):
        self.structs = structs
        self.records = []          # names, topological order
        self.leaf_types = {}       # coq name -> rust text
        self.leaf_defaults = {}    # leaf coq name -> rust text
        self.consts = {}           # coq name -> (coq type, rust text, where)
        self.errors = []
        self.info = {}             # per type summary for the check

    # -- types ---------------------------------------------------------------------------------
    def leaf(self, rust):
        n = "ty_" + ident(rust)
        self.leaf_types.setdefault(n, rust)
        return n

    def coq_type(self, rust):
        """returns (kind, coq text); kind in option/list/bool/record/leaf"""
        r = rust
        m = re.match(r"^(?:std::option::|core::option::)?Option<(.*)>$", r)
        if m:
            return "option", "option (%s W)" % self.leaf(strip_box(m.group(1)))
        m = re.match(r"^(?:std::vec::|alloc::vec::)?Vec<(.*)>$", r)
        if m:
            return "list", "list (%s W)" % self.leaf(strip_box(m.group(1)))
        if r == "bool":
            return "bool", "bool"
        r2 = strip_box(r)
        if r2 in self.records:
            return "record", r2
        return "leaf", "%s W" % self.leaf(r2)

    def default_of(self, rust, where):
        kind, ct = self.coq_type(rust)
        if kind == "option":
            return "None"
        if kind == "list":
            return "nil"
        if kind == "bool":
            return "false"
        if kind == "record":
            name = strip_box(rust)
            if not self.has_default(name):
                raise TranslateError("%s: Default::default() of %s, which has no translated Default" % (where, name))
            return "%s_default" % name
        leafname = ct[:-2]
        d = "dflt_" + leafname[3:]
        self.leaf_defaults[d] = (leafname, self.leaf_types[leafname])
        return "(%s W)" % d

    def has_default(self, name):
        s = self.structs[name]
        return "Default" in s.derives or s.default_impl is not None

    def const(self, expr, field, sname, where):
        """translate a constant expression of the field's type; returns (coq term, class)
        class: 'default' when the term is the Default value of the field type, else 'const'"""
        e = nows(expr)
        kind, ct = self.coq_type(field.rust_type)
        tyname = strip_box(field.rust_type)
        base = re.sub(r"<.*>$", "", tyname).split("::")[-1]
        if e == "None":
            if kind != "option":
                raise TranslateError("%s: None assigned to non-Option field %s" % (where, field.name))
            return "None", "default"
        if e in ("Vec::new()", "vec![]", "Vec::default()", "Vec::with_capacity(0)"):
            if kind != "list":
                raise TranslateError("%s: empty Vec assigned to non-Vec field %s" % (where, field.name))
            return "nil", "default"
        if e in ("false", "true"):
            if kind != "bool":
                raise TranslateError("%s: bool constant assigned to non-bool field %s" % (where, field.name))
            return e, ("default" if e == "false" else "const")
        if e in ("Default::default()", "%s::default()" % base, "<%s>::default()" % tyname,
                 "<%sasDefault>::default()" % tyname):
            return self.default_of(field.rust_type, where), "default"
        if e == "%s::new()" % base:
            if kind == "record":
                if self.new_term(base) is None:
                    raise TranslateError("%s: %s::new() is not a translated constant" % (where, base))
                return "%s_new" % base, ("default" if self.new_is_default(base) else "const")
            t = self.structs.get(base)
            if t is not None and "new" in t.methods and t.methods["new"]["params"] == "" and \
                    nows(t.methods["new"]["body"]) in ("Self::default()", "Default::default()", "%s::default()" % base):
                return self.default_of(field.rust_type, where), "default"
        if "self" in re.findall(r"\w+", e):
            raise TranslateError("%s: right-hand side %r is not one of the recognised forms" % (where, expr.strip()))
        # opaque constant: a field of World, universally quantified in every theorem
        n = "k_%s_%s_%s" % (sname, field.name, ident(e)[:40])
        self.consts[n] = (ct, expr.strip(), where)
        return "(%s W)" % n, "const"

    # -- new / default ---------------------------------------------------------------------------
    def literal_fields(self, body, sname, where):
        """parse `Self { a: x, b: y, ..rest }`; returns (dict name-> (expr, cfg), rest or None)"""
        b = body.strip()
        m = re.match(r"^(Self|%s)\s*\{(.*)\}$" % sname, b, flags=re.S)
        if not m:
            raise TranslateError("%s: body is not a single struct literal: %r" % (where, " ".join(b.split())[:120]))
        inner = m.group(2)
        entries, rest = {}, None
        for part in split_top(inner):
            attrs, pc, po = take_attrs(part, part)
            pc = pc.strip()
            if pc.startswith(".."):
                rest = nows(pc[2:])
                continue
            mf = re.match(r"^(r#)?(\w+)\s*(?::\s*(.+))?$", pc, flags=re.S)
            if not mf:
                raise TranslateError("%s: struct literal entry not understood: %r" % (where, pc))
            if mf.group(3) is None:
                raise TranslateError("%s: shorthand field %s (local variable) cannot be translated" % (where, mf.group(2)))
            cfg = None
            for a, _ in attrs:
                # string contents are blanked in the cleaned text; recover the feature from the struct field
                if nows(a).startswith("#[cfg("):
                    cfg = "?"
            entries[mf.group(2)] = (mf.group(3), cfg)
        return entries, rest

    def default_term(self, name):
        s = self.structs[name]
        where = "%s::default (%s)" % (name, s.path)
        if "Default" in s.derives:
            return "mk_%s %s" % (name, " ".join(self.default_of(f.rust_type, where) for f in s.active))
        if s.default_impl is not None:
            b = nows(s.default_impl["body"])
            if b in ("Self::new()", "%s::new()" % name):
                return self.new_literal(name)
            return self.literal_term(s.default_impl["body"], name, where)
        return None

    def literal_term(self, body, name, where):
        s = self.structs[name]
        entries, rest = self.literal_fields(body, name, where)
        args = []
        for f in s.active:
            if f.name in entries:
                t, _ = self.const(entries[f.name][0], f, name, where)
                args.append(t)
            elif rest in ("Default::default()", "Self::default()", "%s::default()" % name):
                args.append(self.default_of(f.rust_type, where))
            else:
                raise TranslateError("%s: field %s missing from the struct literal" % (where, f.name))
        return "mk_%s %s" % (name, " ".join(args))

    def new_literal(self, name):
        s = self.structs[name]
        m = s.methods.get("new")
        where = "%s::new (%s:%d)" % (name, m["path"], m["line"])
        return self.literal_term(m["body"], name, where)

    def new_term(self, name):
        s = self.structs[name]
        m = s.methods.get("new")
        if m is None or m["params"] != "" or m["generics"]:
            return None
        b = nows(m["body"])
        if b in ("Self::default()", "Default::default()", "%s::default()" % name):
            if not self.has_default(name):
                raise TranslateError("%s::new calls default() but no Default is translated" % name)
            return "%s_default" % name
        return self.new_literal(name)

    def new_is_default(self, name):
        s = self.structs[name]
        m = s.methods.get("new")
        return m is not None and nows(m["body"]) in ("Self::default()", "Default::default()", "%s::default()" % name)


def strip_box(r):
    while True:
        m = re.match(r"^(?:std::boxed::|alloc::boxed::)?Box<(.*)>$", r)
        if not m:
            return r
        r = m.group(1)


# ---------------------------------------------------------------------------------------------------
# translation of take() and the clear methods
# ---------------------------------------------------------------------------------------------------

TAKE_FNS = ("std::mem::take", "mem::take", "core::mem::take", "::std::mem::take", "::core::mem::take")
REPLACE_FNS = ("std::mem::replace", "mem::replace", "core::mem::replace", "::std::mem::replace", "::core::mem::replace")


def translate_take(model, s):
    """returns list per active field of dict(ret_term, ret_class, left_term, left_class)"""
    m = s.methods["take"]
    where = "%s::take (%s:%d)" % (s.name, m["path"], m["line"])
    entries, rest = model.literal_fields(m["body"], s.name, where)
    known = set(f.name for f in s.fields)
    for k in entries:
        if k not in known:
            raise TranslateError("%s: unknown field %s in the struct literal" % (where, k))
    out = []
    for f in s.fields:
        w = "%s field %s" % (where, f.name)
        if f.name in entries and (entries[f.name][1] is not None) != (f.cfg is not None):
            raise TranslateError("%s: cfg attribute differs between the struct definition and take()" % w)
        if f not in s.active:
            continue
        proj = "(%s_%s s)" % (s.name, f.name)
        kind, ct = model.coq_type(f.rust_type)
        if f.name not in entries:
            if rest in ("Default::default()", "Self::default()", "%s::default()" % s.name, "Self::new()"):
                out.append(dict(field=f.name, ret=model.default_of(f.rust_type, w), ret_class="lost-default",
                                left=proj, left_class="old", form="..%s" % rest))
                continue
            raise TranslateError("%s: field is not mentioned in take()" % w)
        e = nows(entries[f.name][0])
        sf = "self.%s" % f.name
        sfr = "self.r#%s" % f.name
        forms_self = (sf, sfr)
        if e in tuple(x + ".take()" for x in forms_self):
            if kind == "option":
                out.append(dict(field=f.name, ret=proj, ret_class="old", left="None", left_class="default", form="Option::take"))
            elif kind == "record":
                n = strip_box(f.rust_type)
                if "take" not in model.structs[n].methods:
                    raise TranslateError("%s: .take() on %s which has no take()" % (w, n))
                sub = model.info[n]["take"] if n in model.info else None
                if sub is None:
                    raise TranslateError("%s: nested %s::take() could not be translated" % (w, n))
                all_default = all(x["left_class"] == "default" for x in sub) and model.has_default(n)
                out.append(dict(field=f.name, ret="(fst (%s_take %s))" % (n, proj), ret_class="nested",
                                left="(snd (%s_take %s))" % (n, proj),
                                left_class="default" if all_default else "nested", form="nested take", nested=n))
            else:
                raise TranslateError("%s: .take() on a field of type %s (neither Option nor a statement with take())"
                                     % (w, f.rust_type))
        elif any(e == "%s(&mut%s)" % (fn, x) for fn in TAKE_FNS for x in forms_self):
            out.append(dict(field=f.name, ret=proj, ret_class="old", left=model.default_of(f.rust_type, w),
                            left_class="default", form="mem::take"))
        elif any(e.startswith("%s(&mut%s," % (fn, x)) for fn in REPLACE_FNS for x in forms_self):
            x = entries[f.name][0]
            inner = x[x.index("(") + 1:x.rindex(")")]
            args = split_top(inner)
            if len(args) != 2:
                raise TranslateError("%s: mem::replace with %d arguments" % (w, len(args)))
            t, cls = model.const(args[1], f, s.name, w)
            out.append(dict(field=f.name, ret=proj, ret_class="old", left=t, left_class=cls, form="mem::replace",
                            const=" ".join(args[1].split())))
        elif e in forms_self:
            out.append(dict(field=f.name, ret=proj, ret_class="old", left=proj, left_class="old", form="copy"))
        elif e in tuple(x + ".clone()" for x in forms_self):
            out.append(dict(field=f.name, ret=proj, ret_class="old", left=proj, left_class="old", form="clone"))
        else:
            t, cls = model.const(entries[f.name][0], f, s.name, w)   # raises when it mentions self
            out.append(dict(field=f.name, ret=t, ret_class="lost-" + cls, left=proj, left_class="old", form="constant",
                            const=" ".join(entries[f.name][0].split())))
    return out


def translate_clear(model, s, mname):
    m = s.methods[mname]
    where = "%s::%s (%s:%d)" % (s.name, mname, m["path"], m["line"])
    stmts = [x.strip() for x in split_top(m["body"], ";")]
    if not stmts or nows(stmts[-1]) != "self":
        raise TranslateError("%s: the body does not end with `self`" % where)
    byname = dict((f.name, f) for f in s.active)
    updates = []
    for st in stmts[:-1]:
        e = nows(st)
        ma = re.match(r"^self\.(?:r#)?(\w+)=(.+)$", e)
        mc = re.match(r"^self\.(?:r#)?(\w+)\.(clear|take)\(\)$", e)
        if ma and not ma.group(2).startswith("="):
            fn = ma.group(1)
            if fn not in byname:
                raise TranslateError("%s: assignment to unknown field %s" % (where, fn))
            rhs = st[st.index("=") + 1:]
            t, cls = model.const(rhs, byname[fn], s.name, where)
            updates.append(dict(field=fn, term=t, cls=cls, form=" ".join(st.split())))
        elif mc:
            fn = mc.group(1)
            if fn not in byname:
                raise TranslateError("%s: unknown field %s" % (where, fn))
            kind, _ = model.coq_type(byname[fn].rust_type)
            if (mc.group(2) == "clear" and kind != "list") or (mc.group(2) == "take" and kind != "option"):
                raise TranslateError("%s: .%s() on field %s of type %s" % (where, mc.group(2), fn, byname[fn].rust_type))
            updates.append(dict(field=fn, term="nil" if kind == "list" else "None", cls="default",
                                form=" ".join(st.split())))
        else:
            raise TranslateError("%s: statement %r is not one of the recognised forms" % (where, " ".join(st.split())))
    if not updates:
        raise TranslateError("%s: the body changes nothing" % where)
    return updates


# ---------------------------------------------------------------------------------------------------
# main translation
# ---------------------------------------------------------------------------------------------------

def translate(root=REPO_SRC):
    """returns (takes_v, props_v, info, errors)"""
    structs = scan_sources(root)
    model = Model(structs)
    wanted = []
    for name, s in structs.items():
        ms = s.methods
        has_take = "take" in ms and ms["take"]["params"] == "&mutself" and ms["take"]["ret"] == "Self" and ms["take"]["pub"]
        clears = sorted(k for k, v in ms.items() if CLEAR_RE.match(k) and v["params"] == "&mutself" and v["ret"] == "&mutSelf"
                        and (v["pub"] or v["trait"]))
        if has_take or clears:
            s.has_take, s.clears = has_take, clears
            wanted.append(name)
    errors = []
    ok = []
    for name in sorted(wanted):
        s = structs[name]
        if s.fields is None or getattr(s, "generic", False):
            errors.append("%s (%s:%d): %s" % (name, s.path, s.line, getattr(s, "field_error", "generic struct")))
            continue
        if getattr(s, "duplicates", None):
            errors.append("%s: defined more than once (%s, %s)" % (name, s.path, s.duplicates))
            continue
        s.active = [f for f in s.fields if f.cfg is None or f.cfg in FEATURES_ON]
        ok.append(name)
    # topological order: a record is placed after the records its fields mention directly
    order, placed = [], set()

    def place(n, stack=()):
        if n in placed:
            return
        if n in stack:
            raise TranslateError("recursive direct nesting at %s" % n)
        for f in structs[n].active:
            t = strip_box(f.rust_type)
            if t in ok and t != n:
                place(t, stack + (n,))
        placed.add(n)
        order.append(n)

    for n in ok:
        try:
            place(n)
        except TranslateError as e:
            errors.append(str(e))
    model.records = order

    defs = []       # (struct name, text)
    takers, qtakers, clearers = [], [], []
    props = []
    for name in order:
        s = structs[name]
        info = dict(name=name, path=s.path, line=s.line, derives=s.derives, query=s.path.startswith("src/query/"),
                    fields=[f.name for f in s.active], gated=[(f.name, f.cfg) for f in s.fields if f.cfg],
                    types=dict((f.name, f.rust_type) for f in s.active), has_take=s.has_take, clears={},
                    has_new=False, new_is_default=False, take=None, partial_eq="PartialEq" in s.derives)
        model.info[name] = info
        out = []
        try:
            out.append("(* %s  --  %s:%d   #[derive(%s)] *)" % (name, s.path, s.line, ", ".join(s.derives)))
            out.append("Record %s : Type := mk_%s {" % (name, name))
            flds = []
            for f in s.active:
                _, ct = model.coq_type(f.rust_type)
                flds.append("  %s_%s : %s%s" % (name, f.name, ct, ""))
            out.append(";\n".join(flds))
            out.append("}.")
            out.append("")
            for idx, f in enumerate(s.active):
                _, ct = model.coq_type(f.rust_type)
                args = " ".join("v" if g is f else "(%s_%s s)" % (name, g.name) for g in s.active)
                out.append("Definition %s_with_%s (v : %s) (s : %s) : %s := mk_%s %s." % (name, f.name, ct, name, name, name, args))
            out.append("")
            dt = model.default_term(name)
            if dt is not None:
                how = "#[derive(Default)]" if "Default" in s.derives else "impl Default (%s:%d)" % (
                    s.default_impl["path"], s.default_impl["line"])
                out.append("(* %s *)" % how)
                out.append("Definition %s_default : %s := %s." % (name, name, dt))
            nt = model.new_term(name)
            if nt is not None:
                m = s.methods["new"]
                out.append("(* %s::new  %s:%d *)" % (name, m["path"], m["line"]))
                out.append("Definition %s_new : %s := %s." % (name, name, nt))
                info["has_new"] = True
                info["new_is_default"] = dt is not None and (nt == "%s_default" % name or nt == dt)
            out.append("")
            if s.has_take:
                tk = translate_take(model, s)
                info["take"] = tk
                m = s.methods["take"]
                out.append("(* %s::take  %s:%d" % (name, m["path"], m["line"]))
                for x in tk:
                    out.append("     %-18s %s%s" % (x["field"], x["form"], ("  " + x["const"]) if "const" in x else ""))
                out.append("*)")
                out.append("Definition %s_take (s : %s) : %s * %s :=" % (name, name, name, name))
                out.append("  (mk_%s %s," % (name, " ".join(x["ret"] for x in tk)))
                out.append("   mk_%s %s)." % (name, " ".join(x["left"] for x in tk)))
                out.append("")
            for mname in s.clears:
                ups = translate_clear(model, s, mname)
                m = s.methods[mname]
                term = "s"
                for u in ups:
                    term = "(%s_with_%s %s %s)" % (name, u["field"], u["term"], term)
                exp = EXPECTED_CLAUSE.get((name, mname))
                pinned = exp is not None
                if exp is None:
                    exp = ups[0]["field"]
                if exp not in [f.name for f in s.active]:
                    raise TranslateError("%s::%s: the expected clause field %s does not exist" % (name, mname, exp))
                expf = [f for f in s.active if f.name == exp][0]
                spec = "(%s_with_%s %s s)" % (name, exp, model.default_of(expf.rust_type, "%s::%s" % (name, mname)))
                out.append("(* %s::%s  %s:%d   %s *)" % (name, mname, m["path"], m["line"], "; ".join(u["form"] for u in ups)))
                out.append("Definition %s_%s (s : %s) : %s := %s." % (name, mname, name, name, term))
                out.append("Definition %s_%s_spec (s : %s) : %s := %s." % (name, mname, name, name, spec))
                out.append("")
                info["clears"][mname] = dict(updates=ups, expected=exp, pinned=pinned, path=m["path"], line=m["line"])
        except TranslateError as e:
            errors.append(str(e))
            continue
        defs.append((name, "\n".join(out)))

    # ---- Takes.v -----------------------------------------------------------------------------
    v = []
    v.append("(* GENERATED by tools/takes.py from the source text of /repo/src -- do not edit.")
    v.append("   C15: one record per statement type with take() or a clear/reset method; every function below is the")
    v.append("   translation of the body of the Rust method named in the comment above it.")
    v.append("   Features assumed on (cfg-gated fields included): %s *)" % ", ".join(sorted(FEATURES_ON)))
    v.append("Require Import Coq.Lists.List Coq.Strings.String.")
    v.append("Import ListNotations.")
    v.append("Local Open Scope string_scope.")
    v.append("")
    v.append("(* Everything the translation does not look into: element types of Vec/Option, other field types,")
    v.append("   their Default values and constants the code writes.  Every theorem quantifies over all Worlds. *)")
    v.append("Record World : Type := mkWorld {")
    wl = []
    for n in sorted(model.leaf_types):
        wl.append("  %s : Type  (* %s *)" % (n, model.leaf_types[n].replace("*", "_")))
    for d in sorted(model.leaf_defaults):
        wl.append("  %s : %s  (* <%s as Default>::default() *)" % (d, model.leaf_defaults[d][0], model.leaf_defaults[d][1].replace("*", "_")))
    for k in sorted(model.consts):
        ct, expr, where = model.consts[k]
        wl.append("  %s : %s  (* %s  in %s *)" % (k, ct.replace(" W", ""), expr.replace("*", "_").replace('"', "'"), where))
    if not wl:
        wl.append("  world_unit : unit")
    v.append(";\n".join(wl))
    v.append("}.")
    v.append("")
    v.append("Section Takes.")
    v.append("Variable W : World.")
    v.append("")
    done = set()
    for name, text in defs:
        v.append(text)
        done.add(name)
    v.append("(* descriptors: the lists the aggregated theorems of Properties/C15.v quantify over *)")
    v.append("Record Taker : Type := mkTaker { tk_name : string; tk_carrier : Type; tk_take : tk_carrier -> tk_carrier * tk_carrier }.")
    v.append("Record QueryTaker : Type := mkQueryTaker { qt_name : string; qt_carrier : Type; "
             "qt_take : qt_carrier -> qt_carrier * qt_carrier; qt_new : qt_carrier }.")
    v.append("Record Clearer : Type := mkClearer { cl_name : string; cl_carrier : Type; cl_method : cl_carrier -> cl_carrier; "
             "cl_spec : cl_carrier -> cl_carrier }.")
    tk_names = [n for n, _ in defs if structs[n].has_take]
    q_names = [n for n in tk_names if model.info[n]["query"]]
    v.append("Definition all_takers : list Taker := [%s]." % "; ".join(
        'mkTaker "%s" %s %s_take' % (n, n, n) for n in tk_names))
    for n in q_names:
        if not model.info[n]["has_new"]:
            errors.append("%s: query statement with take() but without a translatable new()" % n)
    q_names = [n for n in q_names if model.info[n]["has_new"]]
    v.append("Definition query_takers : list QueryTaker := [%s]." % "; ".join(
        'mkQueryTaker "%s" %s %s_take %s_new' % (n, n, n, n) for n in q_names))
    cl = [(n, m) for n, _ in defs for m in structs[n].clears]
    v.append("Definition all_clearers : list Clearer := [%s]." % "; ".join(
        'mkClearer "%s::%s" %s %s_%s %s_%s_spec' % (n, m, n, n, m, n, m) for n, m in cl))
    v.append("")
    v.append("End Takes.")
    takes_v = "\n".join(v) + "\n"

    # ---- TakesProps.v ------------------------------------------------------------------------
    p = []
    p.append("(* GENERATED by tools/takes.py -- do not edit.  Per-type lemmas over Generated/Takes.v. *)")
    p.append("Require Import Coq.Lists.List Coq.Strings.String.")
    p.append("Import ListNotations.")
    p.append("Require Import SQV.Generated.Takes.")
    p.append("")
    p.append("Section TakesProps.")
    p.append("Variable W : World.")
    p.append("")
    lemma_names = []

    def opening(name, s):
        return "intros s; destruct s as [%s]; unfold %s_take; cbn [fst snd %s]; " % (
            " ".join("v_%s" % f.name for f in s.active), name, " ".join("%s_%s" % (name, f.name) for f in s.active))

    for name, _ in defs:
        s = structs[name]
        info = model.info[name]
        if info["has_new"] and info["new_is_default"]:
            p.append("Lemma new_is_default_%s : %s_new W = %s_default W." % (name, name, name))
            p.append("Proof. reflexivity. Qed.")
            lemma_names.append("new_is_default_%s" % name)
        if s.has_take:
            tk = info["take"]
            nested = sorted(set(x["nested"] for x in tk if "nested" in x))
            rw_ret = ("rewrite " + ", ".join("?take_returns_all_state_%s" % n for n in nested) + "; ") if nested else ""
            p.append("(* %s::take hands over every field *)" % name)
            p.append("Lemma take_returns_all_state_%s : forall s : %s W, fst (%s_take W s) = s." % (name, name, name))
            p.append("Proof. %s%sreflexivity. Qed." % (opening(name, s), rw_ret))
            lemma_names.append("take_returns_all_state_%s" % name)
            # what is left behind
            rw_left = []
            for n in nested:
                rw_left.append("?take_leaves_default_%s" % n if model.info[n].get("leaves_default") else "?take_leaves_%s" % n)
            rw_l = ("rewrite " + ", ".join(rw_left) + "; ") if rw_left else ""
            all_default = all(x["left_class"] == "default" for x in tk)
            has_dflt = model.has_default(name)
            info["leaves_default"] = bool(all_default and has_dflt)
            info["copied"] = [x["field"] for x in tk if x["left_class"] == "old"]
            info["left_const"] = [x["field"] for x in tk if x["left_class"] in ("const", "nested")]
            explicit = []
            for x in tk:
                t = x["left"]
                if "nested" in x:
                    t = ("(%s_default)" % x["nested"]) if x["left_class"] == "default" else "(snd (%s_take (%s_%s s)))" % (
                        x["nested"], name, x["field"])
                explicit.append(inst(t, done))
            if info["query"] or info["leaves_default"]:
                # the property demands it for query statements; for the others it is stated when the code does it
                target = "%s_new W" % name if info["has_new"] else "%s_default W" % name
                p.append("(* %s::take leaves a statement equal to %s behind *)" % (name, "new()" if info["has_new"] else "default()"))
                if has_dflt:
                    p.append("Lemma take_leaves_default_%s : forall s : %s W, snd (%s_take W s) = %s_default W." % (name, name, name, name))
                    p.append("Proof. %s%sreflexivity. Qed." % (opening(name, s), rw_l))
                    lemma_names.append("take_leaves_default_%s" % name)
                if info["has_new"]:
                    p.append("Lemma take_leaves_new_%s : forall s : %s W, snd (%s_take W s) = %s_new W." % (name, name, name, name))
                    p.append("Proof. %s%sreflexivity. Qed." % (opening(name, s), rw_l))
                    lemma_names.append("take_leaves_new_%s" % name)
            else:
                p.append("(* %s::take does NOT reset every field: copied = [%s], other = [%s] *)" % (
                    name, ", ".join(info["copied"]), ", ".join(info["left_const"])))
                p.append("Lemma take_leaves_%s : forall s : %s W, snd (%s_take W s) =\n    mk_%s W %s." % (
                    name, name, name, name, " ".join(explicit)))
                p.append("Proof. %s%sreflexivity. Qed." % (opening(name, s), rw_l))
                lemma_names.append("take_leaves_%s" % name)
                if has_dflt and not info["left_const"]:
                    t = "(%s_default W)" % name
                    for f in info["copied"]:
                        t = "(%s_with_%s W (%s_%s W s) %s)" % (name, f, name, f, t)
                    p.append("Lemma take_leaves_default_except_%s : forall s : %s W, snd (%s_take W s) =\n    %s." % (name, name, name, t))
                    p.append("Proof. %s%sreflexivity. Qed." % (opening(name, s), rw_l))
                    lemma_names.append("take_leaves_default_except_%s" % name)
        for mname in s.clears:
            p.append("Lemma clear_touches_only_its_clause_%s_%s : forall s : %s W, %s_%s W s = %s_%s_spec W s." % (
                name, mname, name, name, mname, name, mname))
            p.append("Proof. intros s; destruct s as [%s]; reflexivity. Qed." % " ".join("v_%s" % f.name for f in s.active))
            lemma_names.append("clear_touches_only_its_clause_%s_%s" % (name, mname))
        p.append("")

    def forall_proof(lemmas):
        return "Proof.\n" + "".join("  apply Forall_cons; [ exact %s | ].\n" % l for l in lemmas) + "  apply Forall_nil.\nQed."

    p.append("Lemma all_takers_return_all_state :")
    p.append("  Forall (fun t : Taker => forall s : tk_carrier t, fst (tk_take t s) = s) (all_takers W).")
    p.append(forall_proof(["take_returns_all_state_%s" % n for n in tk_names]))
    p.append("Lemma query_takers_leave_new :")
    p.append("  Forall (fun t : QueryTaker => forall s : qt_carrier t, snd (qt_take t s) = qt_new t) (query_takers W).")
    p.append(forall_proof(["take_leaves_new_%s" % n for n in q_names]))
    p.append("Lemma all_clearers_touch_only_their_clause :")
    p.append("  Forall (fun c : Clearer => forall s : cl_carrier c, cl_method c s = cl_spec c s) (all_clearers W).")
    p.append(forall_proof(["clear_touches_only_its_clause_%s_%s" % (n, m) for n, m in cl]))
    p.append("")
    p.append("End TakesProps.")
    props_v = "\n".join(p) + "\n"

    summary = dict(types=dict((n, model.info[n]) for n, _ in defs), takers=tk_names, query_takers=q_names,
                   clearers=["%s::%s" % (n, m) for n, m in cl], lemmas=lemma_names,
                   opaque_constants=dict((k, dict(type=v_[0], expr=v_[1], where=v_[2])) for k, v_ in model.consts.items()),
                   wanted=sorted(wanted))
    # inside the Section the generated names are used without the W argument
    return takes_v, props_v, summary, errors


def inst(term, records):
    """add the W argument to generated names used outside the Section of Takes.v"""
    def rep(m):
        w = m.group(0)
        base = w.split("_")[0]
        if w.startswith("mk_") or w in ("mkWorld",):
            return w
        for r in records:
            if w == r or w.startswith(r + "_"):
                return w + " W"
        return w
    return re.sub(r"\b[A-Z]\w*\b", rep, term)


def regen(root=REPO_SRC):
    """rewrite coq/Generated/Takes.v and TakesProps.v when their content changes; returns (summary, errors)"""
    here = os.path.dirname(os.path.abspath(__file__))
    sys.path.insert(0, here)
    from regen import write_if_changed
    takes_v, props_v, summary, errors = translate(root)
    gen = os.path.join(os.path.dirname(here), "coq", "Generated")
    if not errors:
        summary["rewritten"] = [write_if_changed(os.path.join(gen, "Takes.v"), takes_v),
                                write_if_changed(os.path.join(gen, "TakesProps.v"), props_v)]
    return summary, errors


if __name__ == "__main__":
    if len(sys.argv) > 1 and sys.argv[1] == "--print":
        t, p, s, e = translate()
        print(t)
        print(p)
        print(json.dumps(s, indent=1, default=str)[:3000])
        print("ERRORS:", e)
    else:
        s, e = regen()
        print("takers:", s["takers"])
        print("clearers:", s["clearers"])
        for x in e:
            print("TRANSLATE-ERROR:", x)
        sys.exit(1 if e else 0)
