"""C14: an independent reader of MySQL / Postgres schema statements at token level.

read(b, tokens)            -> the elements recovered from the implementation's SQL text, parsed under the dialect's DDL
                              grammar (MySQL 8.0 Reference Manual 13.1; PostgreSQL SQL Commands CREATE/ALTER TABLE, CREATE
                              INDEX, CREATE/ALTER/DROP TYPE, CREATE/DROP EXTENSION). Raises ReadError when the text is not
                              a sentence of that grammar (dangling comma, missing parenthesis, unknown type, ...).
expected(b, stmt, etoks)   -> the elements the builder calls DECLARE, computed from the case program (never from the model).
Both sides produce the same plain nested-list structure, compared with ==.
Tokens come from the extracted engine tokenizer (coq/Spec/EngTok.v, op `etok`): 'W'ord (upper-cased), 'I'dentifier
(decoded), 'S'tring (decoded), 'N'umber, 'O'perator, 'C' punctuation, 'Y' bytes, 'P'arameter."""
import os
import re
import vlib
from vlib import unhexs


class ReadError(Exception):
    pass


# -----------------------------------------------------------------------------------------------------------
# the dialects' type names: the same table the Coq theorem C14_types_are_defined uses (coq/Spec/DialectTypes.v)
# -----------------------------------------------------------------------------------------------------------
def load_patterns():
    src = open(os.path.join(vlib.COQ, "Spec", "DialectTypes.v")).read()
    out = {}
    for b, name in (("my", "mysql_types"), ("pg", "postgres_types")):
        body = src.split("Definition %s " % name, 1)[1].split("].", 1)[0]
        out[b] = {m.group(1): m.group(2) for m in re.finditer(r'P "([^"]+)" \(?(K\w+)', body)}
    return out


PATTERNS = load_patterns()
MYSQL_NUMERIC = {"KTinyInt", "KSmallInt", "KMediumInt", "KInt", "KBigInt", "KDecimal", "KFloat", "KDouble"}
COL_KEYWORDS = {"NULL", "NOT", "DEFAULT", "AUTO_INCREMENT", "UNIQUE", "PRIMARY", "CHECK", "GENERATED", "COMMENT"}
ACTIONS = {("RESTRICT",): "restrict", ("CASCADE",): "cascade", ("SET", "NULL"): "setnull", ("NO", "ACTION"): "noaction",
           ("SET", "DEFAULT"): "setdefault"}


def toks_of(etok_out):
    """['W:CREATE', 'I:name', ...] from an etok output line"""
    if not etok_out.endswith(" .") and etok_out != ".":
        raise ReadError("the engine tokenizer rejects the text: %s" % etok_out[:80])
    out = []
    for t in etok_out.split()[:-1]:
        k, body = t[0], t[1:]
        out.append(k + ":" + (body if k in "PY" else unhexs(body)))
    return out


class TS:
    def __init__(self, toks):
        self.t = toks
        self.i = 0

    def peek(self, k=0):
        return self.t[self.i + k] if self.i + k < len(self.t) else None

    def at_end(self):
        return self.i >= len(self.t)

    def next(self):
        if self.at_end():
            raise ReadError("unexpected end of statement")
        self.i += 1
        return self.t[self.i - 1]

    def accept(self, *words):
        """consume the given words (W tokens) if they are next"""
        for k, w in enumerate(words):
            if self.peek(k) != "W:" + w:
                return False
        self.i += len(words)
        return True

    def expect(self, *words):
        if not self.accept(*words):
            raise ReadError("expected %s, found %s" % (" ".join(words), self.t[self.i:self.i + 3]))

    def punct(self, c):
        if self.peek() != "C:" + c:
            raise ReadError("expected '%s', found %s" % (c, self.t[self.i:self.i + 3]))
        self.i += 1

    def ident(self):
        t = self.next()
        if not t.startswith("I:"):
            raise ReadError("expected a quoted identifier, found %s" % t)
        return t[2:]

    def string(self):
        t = self.next()
        if not t.startswith("S:"):
            raise ReadError("expected a string literal, found %s" % t)
        return t[2:]

    def group(self):
        """a balanced parenthesised group; returns the tokens inside"""
        self.punct("(")
        depth, start = 1, self.i
        while depth:
            t = self.next()
            if t == "C:(":
                depth += 1
            elif t == "C:)":
                depth -= 1
        return self.t[start:self.i - 1]

    def rest(self):
        r = self.t[self.i:]
        self.i = len(self.t)
        return r


def split_top(toks):
    """split at top-level commas; an empty piece is a dangling / doubled comma"""
    out, cur, depth = [], [], 0
    for t in toks:
        if t in ("C:(", "C:["):
            depth += 1
        elif t in ("C:)", "C:]"):
            depth -= 1
            if depth < 0:
                raise ReadError("unbalanced parentheses")
        if t == "C:," and depth == 0:
            out.append(cur)
            cur = []
        else:
            cur.append(t)
    if depth:
        raise ReadError("unbalanced parentheses")
    out.append(cur)
    for p in out:
        if not p:
            raise ReadError("empty element between separators (dangling or doubled comma)")
    return out


def table_name(ts, maxparts=3):
    parts = [ts.ident()]
    while ts.peek() == "C:." and len(parts) < maxparts:
        ts.next()
        parts.append(ts.ident())
    return parts


def id_list(ts):
    toks = ts.group()
    if not toks:
        return []
    out = []
    for p in split_top(toks):
        if len(p) != 1 or not p[0].startswith("I:"):
            raise ReadError("expected a column name, found %s" % p)
        out.append(p[0][2:])
    return out


# ---- types ----
def read_type(b, ts, custom=None):
    """consume exactly one type at the cursor: the longest token run that is a type the dialect defines (or the
    declared custom / enum type text). Returns [pattern-or-text, digit runs, unsigned, array depth]."""
    start = ts.i
    if b == "my" and ts.peek() == "W:ENUM":
        ts.next()
        labels = []
        for p in split_top(ts.group()):
            if len(p) != 1 or not p[0].startswith("S:"):
                raise ReadError("ENUM label is not a string literal: %s" % p)
            labels.append(p[0][2:])
        return ["enum", labels, False, 0]
    cands = []        # (end index, pattern, runs)
    i, pat, runs = ts.i, [], []
    while i < len(ts.t):
        t = ts.t[i]
        if t.startswith("W:") and t[2:] not in COL_KEYWORDS:
            pat.append((" " if pat else "") + t[2:].lower())
            i += 1
            cands.append((i, "".join(pat), list(runs)))
        elif t == "C:(" and pat:
            j, nums = i + 1, []
            while j < len(ts.t) and ts.t[j] != "C:)":
                if ts.t[j].startswith("N:") and ts.t[j][2:].isdigit():
                    nums.append(ts.t[j][2:])
                elif ts.t[j] != "C:,":
                    nums = None
                    break
                j += 1
            if nums is None or j >= len(ts.t) or not nums:
                break
            # separators must alternate with the numbers
            inner = ts.t[i + 1:j]
            if [x for k, x in enumerate(inner) if k % 2 == 1] != ["C:,"] * (len(nums) - 1) or len(inner) != 2 * len(nums) - 1:
                raise ReadError("malformed type modifier list %s" % inner)
            pat.append("(" + ",".join("#" for _ in nums) + ")")
            runs = runs + nums
            i = j + 1
            cands.append((i, "".join(pat), list(runs)))
        else:
            break
    best = None
    for end, p, rs in reversed(cands):
        base, unsigned = p, False
        if b == "my" and p.endswith(" unsigned"):
            base, unsigned = p[:-9], True
        kind = PATTERNS[b].get(base)
        if kind and (not unsigned or kind in MYSQL_NUMERIC):
            best = (end, [base, rs, unsigned, 0])
            break
        if custom and ts.t[start:end] in custom:
            best = (end, ["custom", [], False, 0])
            break
    if best is None:
        raise ReadError("no type the dialect defines at %s" % ts.t[start:start + 6])
    ts.i = best[0]
    if ts.peek() == "C:(":
        raise ReadError("the type %s takes no such modifiers: %s" % (best[1][0], ts.t[ts.i:ts.i + 6]))
    while ts.peek() == "C:[" and ts.peek(1) == "C:]":
        ts.i += 2
        best[1][3] += 1
    return best[1]


def read_default_value(ts):
    """the operand of DEFAULT: a literal (optionally signed), a keyword constant or a parenthesised expression"""
    t = ts.peek()
    if t == "C:(":
        return ["C:("] + ts.group() + ["C:)"]
    if t in ("O:-", "O:+"):
        ts.next()
        n = ts.next()
        if not n.startswith("N:"):
            raise ReadError("sign without a number in DEFAULT")
        return [t, n]
    if t is not None and (t[0] in "NSY" or t in ("W:TRUE", "W:FALSE", "W:NULL", "W:CURRENT_TIMESTAMP", "W:CURRENT_DATE", "W:CURRENT_TIME")):
        return [ts.next()]
    raise ReadError("DEFAULT is not followed by a literal, a constant or a parenthesised expression: %s" % ts.t[ts.i:ts.i + 4])


def read_column(b, toks, custom=None):
    ts = TS(toks)
    name = ts.ident()
    ty = None
    if not ts.at_end() and not (ts.peek().startswith("W:") and ts.peek()[2:] in COL_KEYWORDS):
        ty = read_type(b, ts, custom)
    specs = []
    while not ts.at_end():
        if ts.accept("NOT", "NULL"):
            specs.append(["notnull"])
        elif ts.accept("NULL"):
            specs.append(["null"])
        elif ts.accept("DEFAULT"):
            specs.append(["default", read_default_value(ts)])
        elif ts.accept("AUTO_INCREMENT"):
            if b != "my":
                raise ReadError("AUTO_INCREMENT is not Postgres syntax")
            specs.append(["autoinc"])
        elif ts.accept("UNIQUE"):
            specs.append(["unique"])
        elif ts.accept("PRIMARY", "KEY"):
            specs.append(["pk"])
        elif ts.accept("CHECK"):
            specs.append(["check", ts.group()])
        elif ts.accept("GENERATED", "ALWAYS", "AS"):
            e = ts.group()
            if ts.accept("STORED"):
                specs.append(["generated", e, True])
            elif ts.accept("VIRTUAL"):
                specs.append(["generated", e, False])
            else:
                raise ReadError("GENERATED ALWAYS AS (..) without STORED / VIRTUAL")
        elif ts.accept("COMMENT"):
            if b != "my":
                raise ReadError("COMMENT is not Postgres column syntax")
            specs.append(["comment", ts.string()])
        else:
            # raw text supplied by the caller (ColumnSpec::Extra): up to the next specification keyword
            ex = []
            while not ts.at_end() and not (ts.peek().startswith("W:") and ts.peek()[2:] in COL_KEYWORDS):
                ex.append(ts.next())
            if not ex:
                raise ReadError("cannot read column specification at %s" % ts.t[ts.i:ts.i + 3])
            specs.append(["extra", ex])
    return ["column", name, ty, specs]


def read_index_cols(b, ts, table_level):
    out = []
    toks = ts.group()
    for p in split_top(toks) if toks else []:
        c = TS(p)
        name = c.ident()
        prefix, order = None, None
        if c.peek() == "C:(":
            g = c.group()
            if b != "my" or len(g) != 1 or not g[0].startswith("N:"):
                raise ReadError("key part length is MySQL syntax `col (n)`: %s" % p)
            prefix = g[0][2:]
        if c.accept("ASC"):
            order = "asc"
        elif c.accept("DESC"):
            order = "desc"
        if not c.at_end():
            raise ReadError("trailing tokens in index column %s" % p)
        if b == "pg" and table_level and order is not None:
            raise ReadError("a Postgres table constraint takes plain column names: %s" % p)
        out.append([name, prefix, order])
    return out


def read_fk_tail(b, ts):
    """FOREIGN KEY (cols) REFERENCES tbl (cols) [ON DELETE a] [ON UPDATE a]"""
    ts.expect("FOREIGN", "KEY")
    cols = id_list(ts)
    ts.expect("REFERENCES")
    ref = table_name(ts)
    refcols = id_list(ts)
    on_delete = on_update = None
    while ts.accept("ON"):
        which = ts.next()
        act = None
        for words, a in ACTIONS.items():
            if ts.accept(*words):
                act = a
                break
        if act is None:
            raise ReadError("unknown referential action at %s" % ts.t[ts.i:ts.i + 3])
        if which == "W:DELETE" and on_delete is None:
            on_delete = act
        elif which == "W:UPDATE" and on_update is None:
            on_update = act
        else:
            raise ReadError("repeated / unknown ON clause %s" % which)
    return cols, ref, refcols, on_delete, on_update


def read_table_element(b, toks, custom=None):
    ts = TS(toks)
    if toks[0].startswith("I:"):
        return read_column(b, toks, custom)
    cname = None
    has_constraint = ts.accept("CONSTRAINT")
    if has_constraint and ts.peek() is not None and ts.peek().startswith("I:"):
        cname = ts.ident()
    if ts.peek() == "W:FOREIGN":
        if b == "pg" and has_constraint and cname is None:
            raise ReadError("CONSTRAINT without a name")
        cols, ref, refcols, od, ou = read_fk_tail(b, ts)
        el = ["fk", cname, cols, ref, refcols, od, ou]
    elif ts.peek() == "W:CHECK" and not has_constraint:
        ts.next()
        el = ["check", ts.group()]
    elif b == "my":
        if has_constraint:
            raise ReadError("CONSTRAINT followed by %s" % ts.t[ts.i:ts.i + 2])
        kind = "plain"
        if ts.accept("PRIMARY"):
            kind = "primary"
        elif ts.accept("UNIQUE"):
            kind = "unique"
        elif ts.accept("FULLTEXT"):
            kind = "fulltext"
        ts.expect("KEY")
        name = ts.ident() if ts.peek() is not None and ts.peek().startswith("I:") else None
        using = None
        if ts.accept("USING"):
            using = ts.next()[2:].lower()
        el = ["index", kind, name, read_index_cols(b, ts, True), using, [], False]
    else:
        if ts.accept("PRIMARY", "KEY"):
            kind = "primary"
        elif ts.accept("UNIQUE"):
            kind = "unique"
        else:
            raise ReadError("not a table constraint (PRIMARY KEY / UNIQUE / FOREIGN KEY / CHECK expected): %s" % toks[:5])
        nnd = ts.accept("NULLS", "NOT", "DISTINCT")
        cols = read_index_cols(b, ts, True)
        include = id_list(ts) if ts.accept("INCLUDE") else []
        el = ["index", kind, cname, cols, None, include, nnd]
    if not ts.at_end():
        raise ReadError("trailing tokens after table element: %s" % ts.t[ts.i:ts.i + 4])
    return el


def read_pg_modify_action(ts):
    if ts.accept("ALTER", "COLUMN"):
        name = ts.ident()
        if ts.accept("TYPE"):
            ty = read_type("pg", ts, ts.custom)
            using = None
            if ts.accept("USING"):
                using = ts.rest()
            return ["altertype", name, ty, using]
        if ts.accept("SET", "NOT", "NULL"):
            return ["setnotnull", name]
        if ts.accept("DROP", "NOT", "NULL"):
            return ["dropnotnull", name]
        if ts.accept("SET", "DEFAULT"):
            return ["setdefault", name, ts.rest()]
        raise ReadError("unknown ALTER COLUMN action %s" % ts.t[ts.i:ts.i + 3])
    if ts.accept("ADD", "UNIQUE"):
        return ["addunique", id_list(ts)]
    if ts.accept("ADD", "PRIMARY", "KEY"):
        return ["addpk", id_list(ts)]
    if ts.accept("ADD", "CHECK"):
        return ["addcheck", ts.group()]
    return None


def read_alter_action(b, toks, custom=None):
    ts = TS(toks)
    ts.custom = custom
    if ts.accept("ADD", "COLUMN"):
        ine = ts.accept("IF", "NOT", "EXISTS")
        if ine and b == "my":
            raise ReadError("MySQL has no ADD COLUMN IF NOT EXISTS")
        return ["addcol", ine, read_column(b, ts.rest(), custom)]
    if b == "my" and ts.accept("MODIFY", "COLUMN"):
        return ["modcol", read_column(b, ts.rest(), custom)]
    if ts.accept("RENAME", "COLUMN"):
        a = ts.ident()
        ts.expect("TO")
        el = ["rencol", a, ts.ident()]
    elif ts.accept("DROP", "COLUMN"):
        el = ["dropcol", ts.ident()]
    elif b == "my" and ts.accept("DROP", "FOREIGN", "KEY"):
        el = ["dropfk", ts.ident()]
    elif b == "pg" and ts.accept("DROP", "CONSTRAINT"):
        el = ["dropfk", ts.ident()]
    elif ts.peek() == "W:ADD" and ts.peek(1) in ("W:CONSTRAINT", "W:FOREIGN"):
        ts.next()
        cname = None
        if ts.accept("CONSTRAINT"):
            if ts.peek() is not None and ts.peek().startswith("I:"):
                cname = ts.ident()
            elif b == "pg":
                raise ReadError("CONSTRAINT without a name")
        cols, ref, refcols, od, ou = read_fk_tail(b, ts)
        el = ["addfk", cname, cols, ref, refcols, od, ou]
    else:
        el = read_pg_modify_action(ts) if b == "pg" else None
        if el is None:
            raise ReadError("not an ALTER TABLE action of the dialect: %s" % toks[:5])
    if not ts.at_end():
        raise ReadError("trailing tokens after ALTER TABLE action: %s" % ts.t[ts.i:ts.i + 4])
    return el


def read(b, toks, custom=None):
    """the statement recovered from the token stream"""
    ts = TS(toks)
    if ts.accept("CREATE"):
        temporary = ts.accept("TEMPORARY")
        if ts.accept("TABLE"):
            ine = ts.accept("IF", "NOT", "EXISTS")
            name = table_name(ts)
            body = ts.group()
            elements = [read_table_element(b, p, custom) for p in split_top(body)] if body else []
            opts = []
            while not ts.at_end():
                if b == "my" and ts.accept("COMMENT"):
                    opts.append(["comment", ts.string()])
                elif b == "my" and ts.peek() in ("W:ENGINE", "W:COLLATE") and ts.peek(1) == "O:=":
                    k = ts.next()[2:].lower()
                    ts.next()
                    opts.append([k, ts.next()])
                elif b == "my" and ts.accept("DEFAULT", "CHARSET") and ts.peek() == "O:=":
                    ts.next()
                    opts.append(["charset", ts.next()])
                else:
                    opts.append(["extra", ts.rest()])
            return ["tcreate", temporary, ine, name, elements, opts]
        if temporary:
            raise ReadError("TEMPORARY without TABLE")
        kind = "plain"
        if ts.accept("UNIQUE"):
            kind = "unique"
        elif b == "my" and ts.accept("FULLTEXT"):
            kind = "fulltext"
        if ts.accept("INDEX"):
            ine = ts.accept("IF", "NOT", "EXISTS")
            if ine and b == "my":
                raise ReadError("MySQL has no CREATE INDEX IF NOT EXISTS")
            name = ts.ident()
            ts.expect("ON")
            tbl = table_name(ts, 2 if b == "pg" else 1)
            using = None
            if b == "pg" and ts.accept("USING"):
                using = ts.next()[2:].lower()
            cols = read_index_cols(b, ts, False)
            include, nnd, where = [], False, None
            if b == "pg":
                if ts.accept("INCLUDE"):
                    include = id_list(ts)
                nnd = ts.accept("NULLS", "NOT", "DISTINCT")
                if ts.accept("WHERE"):
                    where = ts.rest()
            elif ts.accept("USING"):
                using = ts.next()[2:].lower()
            el = ["icreate", kind, ine, name, tbl, using, cols, include, nnd, where]
        elif kind == "plain" and b == "pg" and ts.accept("TYPE"):
            name = table_name(ts)
            ts.expect("AS", "ENUM")
            labels = []
            g = ts.group()
            for p in split_top(g) if g else []:
                if len(p) != 1 or not p[0].startswith("S:"):
                    raise ReadError("enum label is not a string literal: %s" % p)
                labels.append(p[0][2:])
            el = ["tycreate", name, labels]
        elif kind == "plain" and b == "pg" and ts.accept("EXTENSION"):
            ine = ts.accept("IF", "NOT", "EXISTS")
            name = ts.next()
            schema = version = None
            if ts.accept("WITH", "SCHEMA"):
                schema = ts.next()
            if ts.accept("VERSION"):
                version = ts.next()
            el = ["extcreate", ine, name, schema, version, ts.accept("CASCADE")]
        else:
            raise ReadError("unknown CREATE statement %s" % ts.t[ts.i:ts.i + 3])
    elif ts.accept("ALTER", "TABLE"):
        name = table_name(ts)
        if ts.accept("RENAME", "TO"):
            if b != "pg":
                raise ReadError("ALTER TABLE .. RENAME TO read under MySQL RENAME TABLE grammar")
            el = ["trename", name, table_name(ts)]
        else:
            el = ["talter", name, [read_alter_action(b, p, custom) for p in split_top(ts.rest())]]
    elif ts.accept("RENAME", "TABLE"):
        a = table_name(ts)
        ts.expect("TO")
        el = ["trename", a, table_name(ts)]
    elif ts.accept("DROP", "TABLE"):
        ife = ts.accept("IF", "EXISTS")
        names = []
        while True:
            names.append(table_name(ts))
            if ts.peek() == "C:,":
                ts.next()
            else:
                break
        opt = None
        if ts.accept("RESTRICT"):
            opt = "restrict"
        elif ts.accept("CASCADE"):
            opt = "cascade"
        el = ["tdrop", ife, names, opt]
    elif ts.accept("TRUNCATE", "TABLE"):
        el = ["ttruncate", table_name(ts)]
    elif ts.accept("DROP", "INDEX"):
        ife = ts.accept("IF", "EXISTS")
        if ife and b == "my":
            raise ReadError("MySQL has no DROP INDEX IF EXISTS")
        name = table_name(ts, 2 if b == "pg" else 1)
        tbl = None
        if b == "my":
            ts.expect("ON")
            tbl = table_name(ts, 1)
        el = ["idrop", ife, name, tbl]
    elif b == "pg" and ts.accept("DROP", "TYPE"):
        ife = ts.accept("IF", "EXISTS")
        names = []
        while True:
            names.append(table_name(ts))
            if ts.peek() == "C:,":
                ts.next()
            else:
                break
        opt = "cascade" if ts.accept("CASCADE") else ("restrict" if ts.accept("RESTRICT") else None)
        el = ["tydrop", ife, names, opt]
    elif b == "pg" and ts.accept("ALTER", "TYPE"):
        name = table_name(ts)
        if ts.accept("ADD", "VALUE"):
            ine = ts.accept("IF", "NOT", "EXISTS")
            v = ts.string()
            place = None
            if ts.accept("BEFORE"):
                place = ["before", ts.string()]
            elif ts.accept("AFTER"):
                place = ["after", ts.string()]
            el = ["tyalter", name, ["add", ine, v, place]]
        elif ts.accept("RENAME", "TO"):
            t = ts.next()
            if not (t.startswith("I:") or t.startswith("W:")):
                raise ReadError("ALTER TYPE .. RENAME TO must be followed by a name, found %s" % t)
            el = ["tyalter", name, ["renameto", t[2:]]]
        elif ts.accept("RENAME", "VALUE"):
            a = ts.string()
            ts.expect("TO")
            el = ["tyalter", name, ["renamevalue", a, ts.string()]]
        else:
            raise ReadError("unknown ALTER TYPE action %s" % ts.t[ts.i:ts.i + 3])
    elif b == "pg" and ts.accept("DROP", "EXTENSION"):
        ife = ts.accept("IF", "EXISTS")
        name = ts.next()
        opt = "cascade" if ts.accept("CASCADE") else ("restrict" if ts.accept("RESTRICT") else None)
        el = ["extdrop", ife, name, opt]
    else:
        raise ReadError("unknown statement %s" % toks[:3])
    if not ts.at_end():
        raise ReadError("trailing tokens after the statement: %s" % ts.t[ts.i:ts.i + 4])
    return el


# -----------------------------------------------------------------------------------------------------------
# what the builder calls declare
# -----------------------------------------------------------------------------------------------------------
H = unhexs
LOSSY_PARAMS = {("pg", "binary"), ("pg", "varbinary")}     # bytea: the declared length has no Postgres form
UNSIGNED = ("utinyint", "usmallint", "uint", "ubigint")


def type_params(ty):
    if isinstance(ty, str):
        return []
    h = ty[0]
    if h in ("char", "string", "varbinary", "bit", "vector"):
        return [x for x in ty[1:] if x.isdigit()]
    if h in ("decimal", "money"):
        return list(ty[1:])
    if h in ("binary", "varbit"):
        return [ty[1]]
    if h == "interval":
        return [ty[2]] if ty[2] != "-" else []
    return []


def check_type(b, ty, got, autoinc, etoks):
    """does the recovered type `got` = [pattern, runs, unsigned, array depth] stand for the declared type"""
    depth = 0
    while not isinstance(ty, str) and ty[0] == "array":
        ty = ty[1]
        depth += 1
    if got[3] != depth:
        return "array depth %d, declared %d" % (got[3], depth)
    h = ty if isinstance(ty, str) else ty[0]
    if h == "custom":
        return None if got[0] == "custom" or got[0] in PATTERNS[b] else "custom type not recovered"
    if h == "enum":
        if b == "my":
            want = [H(x) for x in ty[2:]]
            return None if got[0] == "enum" and got[1] == want else "ENUM labels %r, declared %r" % (got[1], want)
        return None if got[0] == "custom" else "enum type name not recovered"
    if got[0] in ("custom", "enum"):
        return "type not recovered"
    if (h in UNSIGNED and b == "my") != got[2]:
        return "unsigned-ness %r, declared %s" % (got[2], h)
    if b == "pg" and autoinc:
        want_serial = {"smallint": "smallserial", "int": "serial", "bigint": "bigserial"}.get(h)
        if got[0] != want_serial:
            return "auto-increment column of type %s is written %s, the serial type of that width is %s" % (h, got[0], want_serial)
    want = type_params(ty)
    if (b, h) not in LOSSY_PARAMS:
        it = iter(got[1])
        if not all(any(x == y for y in it) for x in want):
            return "type modifiers %r do not carry the declared parameters %r" % (got[1], want)
    return None


def custom_toks(ty, etoks):
    """token text of a declared custom / enum type name (Postgres writes it verbatim)"""
    while not isinstance(ty, str) and ty[0] == "array":
        ty = ty[1]
    if not isinstance(ty, str) and ty[0] in ("custom", "enum"):
        return etoks(H(ty[1]))
    return None


def exp_specs(b, cd, etoks, expr_toks):
    out = []
    for sp in cd[3:]:
        k = sp[0]
        if k in ("null", "notnull", "unique", "pk"):
            out.append([k])
        elif k == "autoinc":
            if b == "my":
                out.append(["autoinc"])
        elif k == "default":
            out.append(["default", expr_toks(sp[1])])
        elif k == "check":
            out.append(["check", expr_toks(sp[1])])
        elif k == "generated":
            out.append(["generated", expr_toks(sp[1]), sp[2] == "stored"])
        elif k == "comment":
            if b == "my":
                out.append(["comment", H(sp[1])])
        elif k == "extra":
            out.append(["extra", etoks(H(sp[1]))])
        elif k == "using":
            pass
    return out


def merge_extras(specs):
    """adjacent raw texts read as one run"""
    out = []
    for s in specs:
        if s[0] == "extra" and out and out[-1][0] == "extra":
            out[-1] = ["extra", out[-1][1] + s[1]]
        else:
            out.append(s)
    return out


def tparts(tref):
    assert tref[0] == "t", tref
    return [H(x) for x in tref[1:]]


def fk_of(cl):
    fk = dict(name=None, frm=None, ref=None, cols=[], refcols=[], od=None, ou=None)
    for c in cl:
        k = c[0]
        if k == "name":
            fk["name"] = H(c[1])
        elif k == "fromtbl":
            fk["frm"] = tparts(c[1])
        elif k == "totbl":
            fk["ref"] = tparts(c[1])
        elif k == "fromcol":
            fk["cols"].append(H(c[1]))
        elif k == "tocol":
            fk["refcols"].append(H(c[1]))
        elif k == "ondelete":
            fk["od"] = c[1]
        elif k == "onupdate":
            fk["ou"] = c[1]
    return fk


def ix_of(cl):
    ix = dict(name=None, table=None, cols=[], primary=False, unique=False, nnd=False, itype=None, include=[], ine=False,
              where=[])
    for c in cl:
        k = c[0]
        if k == "name":
            ix["name"] = H(c[1])
        elif k == "table":
            ix["table"] = tparts(c[1])
        elif k == "col":
            ix["cols"].append([H(c[1]), None if c[2] == "-" else c[2], None if c[3] == "-" else c[3]])
        elif k in ("primary", "unique", "nnd"):
            ix[k] = True
        elif k == "fulltext":
            ix["itype"] = "fulltext"
        elif k == "itype":
            ix["itype"] = c[1] if isinstance(c[1], str) else H(c[1][1]).lower()
        elif k == "include":
            ix["include"].append(H(c[1]))
        elif k == "ifnotexists":
            ix["ine"] = True
        elif k == "andwhere":
            ix["where"].append(c[1])
    return ix


PG_METHOD = {"btree": "btree", "hash": "hash", "fulltext": "gin"}


class Mismatch(Exception):
    pass


def compare_column(b, cd, got, etoks, expr_toks):
    """got = ['column', name, type, specs]"""
    if got[0] != "column" or got[1] != H(cd[1]):
        raise Mismatch("column %r read as %r" % (H(cd[1]), got[:2]))
    autoinc = ["autoinc"] in cd[3:]
    if cd[2] == "-":
        if got[2] is not None:
            raise Mismatch("column %s: a type %r although none is declared" % (got[1], got[2]))
    else:
        if got[2] is None:
            raise Mismatch("column %s: no type" % got[1])
        f = check_type(b, cd[2], got[2], autoinc, etoks)
        if f:
            raise Mismatch("column %s: %s" % (got[1], f))
    want = merge_extras(exp_specs(b, cd, etoks, expr_toks))
    if got[3] != want:
        raise Mismatch("column %s: specifications %r, declared %r" % (got[1], got[3], want))


def compare(b, s, got, etoks, expr_toks):
    """raise Mismatch when the recovered statement `got` is not what the case program `s` declares"""
    h = s[0]
    if h == "tcreate":
        if got[0] != "tcreate":
            raise Mismatch("read as %s" % got[0])
        decl = dict(table=None, temp=False, ine=False, comment=None, extra=None, opts=[], cols=[], checks=[], idx=[], fks=[])
        for c in s[1:]:
            k = c[0]
            if k == "table":
                decl["table"] = tparts(c[1])
            elif k == "temporary":
                decl["temp"] = True
            elif k == "ifnotexists":
                decl["ine"] = True
            elif k == "comment":
                decl["comment"] = H(c[1])
            elif k == "extra":
                decl["extra"] = H(c[1])
            elif k in ("engine", "collate", "charset"):
                decl["opts"].append([k, etoks(H(c[1]))[0]])
            elif k == "col":
                decl["cols"].append(c[1])
            elif k == "check":
                decl["checks"].append(c[1])
            elif k in ("index", "pk"):
                ix = ix_of(c[1][1:])
                if k == "pk":
                    ix["primary"] = True
                decl["idx"].append(ix)
            elif k == "fk":
                decl["fks"].append(fk_of(c[1][1:]))
        if [got[1], got[2], got[3]] != [decl["temp"], decl["ine"], decl["table"]]:
            raise Mismatch("header (temporary, if not exists, name) %r, declared %r" % (got[1:4], [decl["temp"], decl["ine"], decl["table"]]))
        els = got[4]
        n = len(decl["cols"]) + len(decl["idx"]) + len(decl["fks"]) + len(decl["checks"])
        if len(els) != n:
            raise Mismatch("%d table elements, %d declared" % (len(els), n))
        i = 0
        for cd in decl["cols"]:
            compare_column(b, cd, els[i], etoks, expr_toks)
            i += 1
        for ix in decl["idx"]:
            kind = "primary" if ix["primary"] else "unique" if ix["unique"] else \
                ("fulltext" if ix["itype"] == "fulltext" and b == "my" else "plain")
            using = ix["itype"] if b == "my" and ix["itype"] not in (None, "fulltext") else None
            want = ["index", kind, ix["name"], ix["cols"], using, ix["include"] if b == "pg" else [], ix["nnd"] and b == "pg"]
            if els[i] != want:
                raise Mismatch("table-level index %r, declared %r" % (els[i], want))
            i += 1
        for fk in decl["fks"]:
            want = ["fk", fk["name"], fk["cols"], fk["ref"], fk["refcols"], fk["od"], fk["ou"]]
            if els[i] != want:
                raise Mismatch("foreign key %r, declared %r" % (els[i], want))
            i += 1
        for e in decl["checks"]:
            want = ["check", expr_toks(e)]
            if els[i] != want:
                raise Mismatch("check %r, declared %r" % (els[i], want))
            i += 1
        want_opts = []
        if b == "my" and decl["comment"] is not None:
            want_opts.append(["comment", decl["comment"]])
        want_opts += decl["opts"]
        if decl["extra"] is not None:
            want_opts.append(["extra", etoks(decl["extra"])])
        if got[5] != want_opts:
            raise Mismatch("table options %r, declared %r" % (got[5], want_opts))
    elif h == "talter":
        if got[0] != "talter":
            raise Mismatch("read as %s" % got[0])
        table, opts = None, []
        for c in s[1:]:
            if c[0] == "table":
                table = tparts(c[1])
            else:
                opts.append(c)
        if got[1] != table:
            raise Mismatch("table %r, declared %r" % (got[1], table))
        acts = list(got[2])
        for o in opts:
            k = o[0]
            if k in ("addcol", "addcoline"):
                a = acts.pop(0) if acts else None
                if not a or a[0] != "addcol" or a[1] != (k == "addcoline"):
                    raise Mismatch("ADD COLUMN read as %r" % (a,))
                compare_column(b, o[1], a[2], etoks, expr_toks)
            elif k == "modcol" and b == "my":
                a = acts.pop(0) if acts else None
                if not a or a[0] != "modcol":
                    raise Mismatch("MODIFY COLUMN read as %r" % (a,))
                compare_column(b, o[1], a[1], etoks, expr_toks)
            elif k == "modcol":
                cd = o[1]
                name = H(cd[1])
                want = []
                using = [expr_toks(sp[1]) for sp in cd[3:] if sp[0] == "using"]
                if cd[2] != "-":
                    want.append(["altertype", name, cd[2], using[0] if using else None])
                # USING only exists as part of ALTER COLUMN .. TYPE: without a new type it has no ALTER action
                # (like COMMENT / GENERATED / auto-increment, which Postgres cannot express here either)
                for sp in cd[3:]:
                    kk = sp[0]
                    if kk == "null":
                        want.append(["dropnotnull", name])
                    elif kk == "notnull":
                        want.append(["setnotnull", name])
                    elif kk == "default":
                        want.append(["setdefault", name, expr_toks(sp[1])])
                    elif kk == "unique":
                        want.append(["addunique", [name]])
                    elif kk == "pk":
                        want.append(["addpk", [name]])
                    elif kk == "check":
                        want.append(["addcheck", expr_toks(sp[1])])
                for w in want:
                    a = acts.pop(0) if acts else None
                    if a is None:
                        raise Mismatch("missing ALTER action %r" % (w,))
                    if w[0] == "altertype":
                        if a[0] != "altertype" or a[1] != name or a[3] != w[3]:
                            raise Mismatch("ALTER COLUMN TYPE read as %r, declared %r" % (a, w))
                        f = check_type(b, w[2], a[2], False, etoks)
                        if f:
                            raise Mismatch("ALTER COLUMN %s TYPE: %s" % (name, f))
                    elif a != w:
                        raise Mismatch("ALTER action %r, declared %r" % (a, w))
            elif k == "rencol":
                a = acts.pop(0) if acts else None
                if a != ["rencol", H(o[1]), H(o[2])]:
                    raise Mismatch("RENAME COLUMN read as %r" % (a,))
            elif k == "dropcol":
                a = acts.pop(0) if acts else None
                if a != ["dropcol", H(o[1])]:
                    raise Mismatch("DROP COLUMN read as %r" % (a,))
            elif k == "dropfk":
                a = acts.pop(0) if acts else None
                if a != ["dropfk", H(o[1])]:
                    raise Mismatch("DROP FOREIGN KEY read as %r" % (a,))
            elif k == "addfk":
                fk = fk_of(o[1][1:])
                a = acts.pop(0) if acts else None
                want = ["addfk", fk["name"], fk["cols"], fk["ref"], fk["refcols"], fk["od"], fk["ou"]]
                if a != want:
                    raise Mismatch("ADD FOREIGN KEY %r, declared %r" % (a, want))
        if acts:
            raise Mismatch("undeclared ALTER actions %r" % (acts,))
    elif h == "icreate":
        ix = ix_of(s[1:])
        kind = "unique" if ix["unique"] else ("fulltext" if ix["itype"] == "fulltext" and b == "my" else "plain")
        if b == "my":
            using = ix["itype"] if ix["itype"] not in (None, "fulltext") else None
        else:
            using = PG_METHOD.get(ix["itype"], ix["itype"])
        where = None
        if b == "pg" and ix["where"]:
            where = expr_toks(["__and__"] + ix["where"])
        want = ["icreate", kind, ix["ine"] and b == "pg", ix["name"], ix["table"], using, ix["cols"],
                ix["include"] if b == "pg" else [], ix["nnd"] and b == "pg", where]
        if got != want:
            raise Mismatch("CREATE INDEX %r, declared %r" % (got, want))
    elif h == "idrop":
        name = tbl = None
        ife = False
        for c in s[1:]:
            if c[0] == "name":
                name = H(c[1])
            elif c[0] == "table":
                tbl = tparts(c[1])
            elif c[0] == "ifexists":
                ife = True
        if b == "my":
            want = ["idrop", False, [name], tbl]
        else:
            want = ["idrop", ife, (tbl[:-1] if tbl and len(tbl) == 2 else []) + [name], None]
        if got != want:
            raise Mismatch("DROP INDEX %r, declared %r" % (got, want))
    elif h == "fkcreate":
        fk = fk_of(s[1:])
        want = ["talter", fk["frm"], [["addfk", fk["name"], fk["cols"], fk["ref"], fk["refcols"], fk["od"], fk["ou"]]]]
        if got != want:
            raise Mismatch("foreign key statement %r, declared %r" % (got, want))
    elif h == "fkdrop":
        name = tbl = None
        for c in s[1:]:
            if c[0] == "name":
                name = H(c[1])
            elif c[0] == "table":
                tbl = tparts(c[1])
        want = ["talter", tbl, [["dropfk", name]]]
        if got != want:
            raise Mismatch("foreign key drop %r, declared %r" % (got, want))
    elif h == "tdrop":
        names = [tparts(c[1]) for c in s[1:] if c[0] == "table"]
        opts = [c[0] for c in s[1:] if c[0] in ("restrict", "cascade")]
        want = ["tdrop", any(c[0] == "ifexists" for c in s[1:]), names, opts[0] if opts else None]
        if got != want:
            raise Mismatch("DROP TABLE %r, declared %r" % (got, want))
    elif h == "trename":
        want = ["trename", tparts(s[1]), tparts(s[2])]
        if got != want:
            raise Mismatch("rename %r, declared %r" % (got, want))
    elif h == "ttruncate":
        want = ["ttruncate", tparts(s[1])]
        if got != want:
            raise Mismatch("truncate %r, declared %r" % (got, want))
    elif h == "tycreate":
        name, vals = None, []
        for c in s[1:]:
            if c[0] == "asenum":
                name = [H(x) for x in c[1][1:]]
            elif c[0] == "values":
                vals += [H(x) for x in c[1:]]
        want = ["tycreate", name, vals]
        if got != want:
            raise Mismatch("CREATE TYPE %r, declared %r" % (got, want))
    elif h == "tydrop":
        names = []
        for c in s[1:]:
            if c[0] == "name":
                names.append([H(x) for x in c[1][1:]])
            elif c[0] == "names":
                names += [[H(x) for x in t[1:]] for t in c[1:]]
        opt = None
        for c in s[1:]:
            if c[0] in ("cascade", "restrict"):
                opt = c[0]
        want = ["tydrop", any(c[0] == "ifexists" for c in s[1:]), names, opt]
        if got != want:
            raise Mismatch("DROP TYPE %r, declared %r" % (got, want))
    elif h == "tyalter":
        name, opt = None, None
        for c in s[1:]:
            k = c[0]
            if k == "name":
                name = [H(x) for x in c[1][1:]]
            elif k == "addvalue":
                opt = ["add", False, H(c[1]), None]
            elif k in ("before", "after") and opt and opt[0] == "add":
                opt = ["add", opt[1], opt[2], [k, H(c[1])]]
            elif k == "ifnotexists" and opt and opt[0] == "add":
                opt = ["add", True, opt[2], opt[3]]
            elif k == "renameto":
                opt = ["renameto", H(c[1])]
            elif k == "renamevalue":
                opt = ["renamevalue", H(c[1]), H(c[2])]
        want = ["tyalter", name, opt]
        if got != want:
            raise Mismatch("ALTER TYPE %r, declared %r" % (got, want))
    elif h == "extcreate":
        d = dict(name=None, schema=None, version=None, cascade=False, ine=False)
        for c in s[1:]:
            if c[0] in ("name", "schema", "version"):
                d[c[0]] = etoks(H(c[1]))[0]
            elif c[0] == "cascade":
                d["cascade"] = True
            elif c[0] == "ifnotexists":
                d["ine"] = True
        want = ["extcreate", d["ine"], d["name"], d["schema"], d["version"], d["cascade"]]
        if got != want:
            raise Mismatch("CREATE EXTENSION %r, declared %r" % (got, want))
    elif h == "extdrop":
        name, ife, opt = None, False, None
        for c in s[1:]:
            if c[0] == "name":
                name = etoks(H(c[1]))[0]
            elif c[0] == "ifexists":
                ife = True
            elif c[0] in ("cascade", "restrict"):
                opt = c[0]
        want = ["extdrop", ife, name, opt]
        if got != want:
            raise Mismatch("DROP EXTENSION %r, declared %r" % (got, want))
    else:
        raise Mismatch("unknown case %s" % h)
