#!/bin/sh
# usage: tools/runseeds.sh [tier] seed... : every check once per seed; prints only the checks that raised an alarm.
# A false alarm that needs a particular seed shows up here before it shows up in a check request.
cd "$(dirname "$0")/.."
TIER="${1:-quick}"; shift
for s in "$@"; do
  echo "== seed $s"
  VERIF_SEED=$s tools/runall.sh "$TIER" 2>&1 | grep -v "rc=0" | grep -v "^SETUP"
  for i in 01 02 03 04 05 06 07 08 09 10 11 12 13 14 15 16 17 18 19 20; do
    grep -q "^VIOLATION\|CHECK-ERROR" .cache/runall_C$i.log && cp .cache/runall_C$i.log .cache/seed${s}_C$i.log
  done
done
