#!/usr/bin/env python3
"""writes MANIFEST.json from the table below (kept in one place so it stays valid)"""
import json, os
ROOT = os.path.dirname(os.path.dirname(os.path.abspath(__file__)))

CLAIMED = {
 "C04": dict(
   text="Coq theorem C04_ident_roundtrip: for every name, every backend quote character and whatever follows, the engine's "
        "quoted-identifier lexer applied to the prepared identifier consumes exactly it and decodes exactly the name (induction "
        "over the name), so a name can never close its own quotes. Tie to the code: at each of ~60 identifier positions of "
        "query and schema statements the implementation's output must equal the plain-name rendering with the model's "
        "prepared identifier substituted, and the extracted engine tokenizer must see the same token stream as for the plain "
        "name with only the decoded identifier changed.",
   note="Trusted: Coq kernel; identifier lexers and statement tokenizers in coq/Spec (from the engine manuals); extraction, driver, "
        "harness position list (harness/src/ident.rs), generators. The structural fact 'every position goes through Iden::prepare' "
        "is checked by the substitution correspondence, not proved (no full renderer model at this level). Known finding F4b listed.",
   technique="Coq proof (induction over names against the engine lexer) + substitution correspondence + engine-token differential oracle", ref="§6 C04"),
 "C03": dict(
   text="Coq theorems, for every string / char / byte string (NUL excluded exactly on Postgres and SQLite) and whatever text "
        "follows: the engine's string lexer (MySQL backslash escapes, Postgres '..'/E'..' incl. octal/hex/unicode escapes, "
        "SQLite quote doubling; x'..' and bytea hex) applied to the model's literal consumes exactly the literal and decodes "
        "exactly the value (C03_string/char/bytes_literal_roundtrip, MySQL COMMENT and ENUM labels). The literal writers "
        "(coq/Model/Literal.v, LitPos.v) are hand-written from the code and tied byte-exactly to /repo at every inlining "
        "position; the extracted engine lexers additionally decode the implementation's own output on every case. The Json "
        "arm and the text / char / bytes elements of Array values are covered the same way: model = position template around "
        "value_to_string (coq/Model/LitValue.v), and the literal(s) the implementation writes must decode, under the engine "
        "lexer (arrays: coq/Spec/LitArrayOracle.v), to serde_json's text / to the elements; theorems "
        "C03_json_literal_roundtrip and C03_string_array_roundtrip state it for every Json text and every non-empty "
        "list of strings.",
   note="Trusted: Coq kernel; the engine lexers in coq/Spec/EngLex.v (written from the MySQL/Postgres/SQLite manuals: default "
        "sql_mode, standard_conforming_strings=on, utf8 connection); extraction, driver, harness, generators. Opaque formatters "
        "(dates, decimals, uuid) are not modelled here; serde_json's text of a Json value is an external formatter too: it is "
        "computed by the harness (harness/src/valueenc.rs, op venc: serde_json::to_string called directly, never through "
        "sea-query), travels with the case and is what the literal must decode to - that call is trusted. The check runs "
        "the harness with all value types enabled (feature set fa). Print Assumptions: closed under the global context.",
   technique="Coq proof (induction over strings against engine lexer automata) + differential correspondence + decode of implementation output", ref="§6 C03"),
 "C16": dict(
   text="Coq theorems over every input string and every alphabetic-classification function: tokenize terminates (fuel "
        "length+1 is never exhausted), concatenating the tokens reproduces the input, tokens are non-empty "
        "(C16_tokenize_lossless); next returns None only at end of input; a token's kind is fixed by its first char; "
        "well-formed quoted text (doubled or backslash-escaped delimiters) is exactly one Quoted token "
        "(C16_quoted_is_one_token) and unquote inverts it. Model (coq/Model/Token.v) hand-written from src/token.rs; "
        "char::is_alphabetic table regenerated from the toolchain each run; tied by byte-exact differential run and an "
        "in-process exhaustive enumeration of the losslessness oracle on the implementation; a quote-focused exhaustive "
        "stream (runs of backslashes before delimiters) and piecewise templates whose expected token list is known by "
        "construction (one token per piece: the language of the Coq theorem C11_tokenize_pieces) check the 'quoted text "
        "is one token' half on the implementation's output.",
   note="Trusted: Coq kernel; extraction and driver; Rust Vec<char>/String semantics modelled as lists of scalar values; "
        "harness and generators. Print Assumptions: closed under the global context for all six theorems.",
   technique="Coq proof (induction with fuel bound) + differential correspondence model/implementation", ref="§6 C16"),
 "C17": dict(
   text="Coq theorem C17_unescape_escape: for all backends and all strings (lists of Unicode scalar values, no bound), "
        "unescape_string (escape_string s) = s, proved by induction via the lemma that the chain of nine replace calls is a "
        "per-character map. The model (coq/Model/Escape.v) is hand-written from src/backend/mod.rs and sqlite/mod.rs and tied "
        "to the code by a byte-exact differential run (implementation vs OCaml-extracted model) plus the identity itself "
        "checked in-process on the implementation over all strings of an escape-relevant alphabet up to length 5/6.",
   note="Trusted: Coq kernel; extraction (ExtrOcamlBasic) and driver; Rust str::replace(char,&str)/chars() semantics modelled as "
        "flat_map / list of scalar values; harness and generators. Print Assumptions: closed under the global context.",
   technique="Coq proof (induction over strings) + differential correspondence model/implementation", ref="§6 C17"),
}

PENDING_REASON = "check not built yet in this session (planned; see DESIGN.md §11 staging) - not claimed until its check passes on the unchanged tree"

def load_fragments():
    """checks/cxx.manifest.json: {"property_id","text","note","technique","ref"} (one per property)"""
    import glob
    for f in sorted(glob.glob(os.path.join(ROOT, "checks", "*.manifest.json"))):
        d = json.load(open(f))
        CLAIMED[d["property_id"]] = dict(text=d["text"], note=d["note"], technique=d["technique"], ref=d.get("ref", ""))


def main():
    load_fragments()
    props = [json.loads(l) for l in open(os.path.join(ROOT, "properties.jsonl"))]
    checks, na = [], []
    for p in props:
        pid = p["id"]
        if pid in CLAIMED:
            c = CLAIMED[pid]
            checks.append({
                "property_id": pid,
                "quick_cmd": "./check %s quick" % pid,
                "thorough_cmd": "./check %s thorough" % pid,
                "evidence_file": "evidence/%s.json" % pid,
                "replay_cmd_template": "./check %s --replay {path}" % pid,
                "engine": "coq-proof+correspondence",
                "level_claimed": {"category": "proof", "text": c["text"], "design_ref": c["ref"]},
                "level_note": c["note"],
                "technique": c["technique"],
            })
        else:
            na.append({"property_id": pid, "reason": NA.get(pid, PENDING_REASON)})
    m = {
        "version": 1,
        "setup_cmd": "./check --setup",
        "hooks": {
            "guard": "seaql_sea_query_verif",
            "enable": "RUSTFLAGS=\"--cfg seaql_sea_query_verif\" (no hook is currently needed: all observations use public API)",
            "baseline_off_cmd": "cd /repo && cargo test --workspace --no-fail-fast --offline",
            "source_commits": [],
            "add_only": True,
        },
        "engines": [{
            "name": "coq-proof+correspondence",
            "path": "coq/ extract/ harness/ checks/ tools/",
            "serves_properties": sorted(CLAIMED),
            "kind_free_text": "Coq 8.16 theorems about a Gallina model of the code; model tied to /repo by regenerated tables and by a "
                              "differential run of the OCaml-extracted model against a Rust harness linked to /repo",
        }],
        "checks": checks,
        "not_applicable": na,
        "notes": "See DESIGN.md. Known findings: known_findings.json. Seeded mutations: seeded/.",
    }
    with open(os.path.join(ROOT, "MANIFEST.json"), "w") as f:
        json.dump(m, f, indent=1)
        f.write("\n")

NA = {}
if __name__ == "__main__":
    main()
