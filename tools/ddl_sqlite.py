"""C13: SQLite schema histories.

Three independent pieces:
  * Declared      - what a sequence of builder programs (case language of harness/src/ddl.rs) DECLARES: tables with
                    columns (nullability, default, primary key, uniqueness, auto-increment, checks, generated),
                    unique constraints, foreign keys, indexes.  Computed from the case programs only.
  * SGen          - a generator of histories that SQLite accepts by construction (one PRIMARY KEY per table,
                    AUTOINCREMENT only on an integer-kind PRIMARY KEY column, ALTER within SQLite's documented limits..)
  * observe/compare - what the real engine's catalogue reports after executing the implementation's SQL:
                    PRAGMA table_xinfo / index_list / index_xinfo / foreign_key_list, sqlite_master, sqlite_sequence,
                    typeof() of probe values (affinity), CHECK probes.
"""
import copy
import sqlite3
import sexp
from vlib import hexs, unhexs

# ---------------------------------------------------------------------------------------------------------
# intended storage class per abstract column type (written from the meaning of the types and datatype3.html;
# the same table as coq/Spec/Affinity.v `intended`, kept independently here)
# ---------------------------------------------------------------------------------------------------------
INTENDED = {
    "char": "TEXT", "string": "TEXT", "text": "TEXT",
    "tinyint": "INTEGER", "smallint": "INTEGER", "int": "INTEGER", "bigint": "INTEGER",
    "utinyint": "INTEGER", "usmallint": "INTEGER", "uint": "INTEGER", "ubigint": "INTEGER",
    "float": "REAL", "double": "REAL", "decimal": "REAL", "money": "REAL",
    "datetime": "TEXT", "timestamp": "TEXT", "timestamptz": "TEXT", "time": "TEXT", "date": "TEXT",
    "binary": "BLOB", "varbinary": "BLOB", "blob": "BLOB",
    "boolean": "NUMERIC", "json": "TEXT", "jsonb": "TEXT", "uuid": "TEXT", "enum": "TEXT",
}
INT_KINDS = ("tinyint", "smallint", "int", "bigint", "utinyint", "usmallint", "uint", "ubigint")
# typeof(value stored from the text '123'), typeof(value stored from the integer 7) per affinity (datatype3.html 3)
PROBE_CLASS = {"INTEGER": ("integer", "integer"), "NUMERIC": ("integer", "integer"), "REAL": ("real", "real"),
               "TEXT": ("text", "text"), "BLOB": ("text", "integer")}


def type_head(ty):
    return ty if isinstance(ty, str) else ty[0]


def H(x):
    return unhexs(x)


# ---------------------------------------------------------------------------------------------------------
# declared state
# ---------------------------------------------------------------------------------------------------------
class Declared:
    """tables: name -> dict(cols=[col], pk=[(col, desc)], uniques=[[(col, desc)]], fks=[fk], checks=[(col, k)],
    plain=[...], temp=bool); indexes: name -> dict(table, cols=[(col, desc)], unique, where=(col, k)|None)"""

    def __init__(self):
        self.tables = {}
        self.indexes = {}

    def find(self, name):
        for t in self.tables:
            if t.lower() == name.lower():
                return t
        return None

    def find_index(self, name):
        for t in self.indexes:
            if t.lower() == name.lower():
                return t
        return None

    # -- helpers on the case language --
    @staticmethod
    def tname(tref):
        assert tref[0] == "t"
        return H(tref[-1])

    @staticmethod
    def literal(v):
        """SQLite literal text of a case-language value (independent of the model's literal writer)"""
        tag, _, body = v.partition(":")
        if tag == "i":
            return body.split(":")[1]
        if tag == "s":
            return "'" + H(body).replace("'", "''") + "'"
        if tag == "b":
            return "TRUE" if body == "1" else "FALSE"
        if tag == "n":
            return "NULL"
        raise ValueError(v)

    @classmethod
    def default_text(cls, e):
        if e[0] == "val":
            return cls.literal(e[1])
        if e[0] == "kw":
            return {"null": "NULL", "cdate": "CURRENT_DATE", "ctime": "CURRENT_TIME", "cts": "CURRENT_TIMESTAMP"}[e[1]]
        if e[0] == "tuple" and len(e) == 2:
            # Expr::tuple([e]) is the builder's way to parenthesise: DEFAULT (expr)
            return "(" + cls.expr_text(e[1]) + ")"
        if e[0] == "bin":
            return cls.expr_text(e)      # a computed default written without the builder's parenthesised form
        raise ValueError("default %r" % (e,))

    @classmethod
    def expr_text(cls, e):
        """token-level text of the small expression forms the generator uses (compared after whitespace removal)"""
        if e[0] == "val":
            return cls.literal(e[1])
        if e[0] == "col":
            return '"' + H(e[1]).replace('"', '""') + '"'
        if e[0] == "bin":
            op = {"ne": "<>", "gt": ">", "add": "+", "mul": "*", "lt": "<"}[e[1]]
            return "%s %s %s" % (cls.expr_text(e[2]), op, cls.expr_text(e[3]))
        raise ValueError("expr %r" % (e,))

    @staticmethod
    def check_of(e):
        """(column, k) of a check `col <> k`, or of an AND / OR of copies of one such check (same meaning, written
        with groups: (c <> k OR c <> k) AND (c <> k OR c <> k))"""
        if e[0] == "bin" and e[1] in ("and", "or"):
            a, b2 = Declared.check_of(e[2]), Declared.check_of(e[3])
            assert a == b2, e
            return a
        assert e[0] == "bin" and e[1] == "ne" and e[2][0] == "col" and e[3][0] == "val", e
        return H(e[2][1]), int(e[3][1].split(":")[2])

    def coldef(self, cd):
        assert cd[0] == "cd"
        col = dict(name=H(cd[1]), ty=cd[2], notnull=False, default=None, pk=False, unique=False, autoinc=False,
                   checks=[], generated=None)
        for sp in cd[3:]:
            k = sp[0]
            if k == "notnull":
                col["notnull"] = True
            elif k == "default":
                col["default"] = self.default_text(sp[1])
            elif k == "pk":
                col["pk"] = True
            elif k == "unique":
                col["unique"] = True
            elif k == "autoinc":
                col["autoinc"] = True
            elif k == "check":
                col["checks"].append(self.check_of(sp[1]))
            elif k == "generated":
                col["generated"] = (self.expr_text(sp[1]), sp[2] == "stored")
            elif k in ("null", "comment", "using", "extra"):
                pass     # no catalogue effect on SQLite (comments are not rendered, USING is a Postgres ALTER feature)
            else:
                raise ValueError(k)
        return col

    @staticmethod
    def index_clauses(cl):
        ix = dict(name=None, table=None, cols=[], primary=False, unique=False, where=None, ine=False)
        for c in cl:
            k = c[0]
            if k == "name":
                ix["name"] = H(c[1])
            elif k == "table":
                ix["table"] = Declared.tname(c[1])
            elif k == "col":
                ix["cols"].append((H(c[1]), c[3] == "desc"))
            elif k == "primary":
                ix["primary"] = True
            elif k == "unique":
                ix["unique"] = True
            elif k == "ifnotexists":
                ix["ine"] = True
            elif k == "andwhere":
                e = c[1]
                assert e[0] == "bin" and e[1] == "gt"
                ix["where"] = (H(e[2][1]), int(e[3][1].split(":")[2]))
            elif k in ("itype", "fulltext"):
                pass     # SQLite has one index structure; the renderer writes nothing for the index type
            else:
                raise ValueError(k)
        return ix

    @staticmethod
    def fk_clauses(cl):
        fk = dict(cols=[], ref=None, refcols=[], on_delete="NO ACTION", on_update="NO ACTION")
        acts = {"restrict": "RESTRICT", "cascade": "CASCADE", "setnull": "SET NULL", "noaction": "NO ACTION",
                "setdefault": "SET DEFAULT"}
        for c in cl:
            k = c[0]
            if k == "fromcol":
                fk["cols"].append(H(c[1]))
            elif k == "tocol":
                fk["refcols"].append(H(c[1]))
            elif k == "totbl":
                fk["ref"] = Declared.tname(c[1])
            elif k == "ondelete":
                fk["on_delete"] = acts[c[1]]
            elif k == "onupdate":
                fk["on_update"] = acts[c[1]]
            elif k in ("name", "fromtbl"):
                pass     # SQLite's in-table foreign key clause has no name of its own in the catalogue
            else:
                raise ValueError(k)
        return fk

    # -- statements --
    def apply(self, s):
        """s: parsed statement. Returns None; updates the declared state."""
        h = s[0]
        if h == "tcreate":
            t = dict(cols=[], pk=[], uniques=[], fks=[], checks=[], plain=[], temp=False)
            name = None
            ine = False
            for c in s[1:]:
                k = c[0]
                if k == "table":
                    name = self.tname(c[1])
                elif k == "ifnotexists":
                    ine = True
                elif k == "temporary":
                    t["temp"] = True
                elif k == "col":
                    t["cols"].append(self.coldef(c[1]))
                elif k == "check":
                    t["checks"].append(self.check_of(c[1]))
                elif k in ("index", "pk"):
                    ix = self.index_clauses(c[1][1:])
                    if k == "pk" or ix["primary"]:
                        t["pk"] = ix["cols"]
                    elif ix["unique"]:
                        t["uniques"].append(ix["cols"])
                    else:
                        t["plain"].append(ix)
                elif k == "fk":
                    t["fks"].append(self.fk_clauses(c[1][1:]))
                elif k in ("comment",):
                    pass
                else:
                    raise ValueError(k)
            if self.find(name) is not None:
                assert ine, "duplicate table without IF NOT EXISTS"
                return
            for col in t["cols"]:
                if col["pk"]:
                    t["pk"] = [(col["name"], False)]
                if col["unique"]:
                    t["uniques"].append([(col["name"], False)])
            self.tables[name] = t
        elif h == "talter":
            name = None
            for c in s[1:]:
                if c[0] == "table":
                    name = self.find(self.tname(c[1]))
            t = self.tables[name]
            for c in s[1:]:
                k = c[0]
                if k == "table":
                    continue
                if k in ("addcol", "addcoline"):
                    t["cols"].append(self.coldef(c[1]))
                elif k == "rencol":
                    a, b = H(c[1]), H(c[2])
                    ren = lambda x: b if x.lower() == a.lower() else x   # noqa
                    for col in t["cols"]:
                        col["name"] = ren(col["name"])
                        col["checks"] = [(ren(x), k2) for x, k2 in col["checks"]]
                    t["pk"] = [(ren(x), d) for x, d in t["pk"]]
                    t["uniques"] = [[(ren(x), d) for x, d in u] for u in t["uniques"]]
                    t["checks"] = [(ren(x), k2) for x, k2 in t["checks"]]
                    for fk in t["fks"]:
                        fk["cols"] = [ren(x) for x in fk["cols"]]
                    for ix in self.indexes.values():
                        if ix["table"] == name:
                            ix["cols"] = [(ren(x), d) for x, d in ix["cols"]]
                            if ix["where"]:
                                ix["where"] = (ren(ix["where"][0]), ix["where"][1])
                elif k == "dropcol":
                    a = H(c[1])
                    t["cols"] = [col for col in t["cols"] if col["name"].lower() != a.lower()]
                else:
                    raise ValueError(k)
        elif h == "trename":
            a, b = self.find(self.tname(s[1])), self.tname(s[2])
            self.tables[b] = self.tables.pop(a)
            for ix in self.indexes.values():
                if ix["table"] == a:
                    ix["table"] = b
        elif h == "tdrop":
            ife = any(c[0] == "ifexists" for c in s[1:])
            for c in s[1:]:
                if c[0] == "table":
                    n = self.find(self.tname(c[1]))
                    if n is None:
                        assert ife
                        continue
                    del self.tables[n]
                    for i in [i for i, ix in self.indexes.items() if ix["table"] == n]:
                        del self.indexes[i]
        elif h == "icreate":
            ix = self.index_clauses(s[1:])
            if self.find_index(ix["name"]) is not None:
                assert ix["ine"]
                return
            ix["table"] = self.find(ix["table"])
            self.indexes[ix["name"]] = ix
        elif h == "idrop":
            ife = any(c[0] == "ifexists" for c in s[1:])
            for c in s[1:]:
                if c[0] == "name":
                    n = self.find_index(H(c[1]))
                    if n is None:
                        assert ife
                    else:
                        del self.indexes[n]
        else:
            raise ValueError(h)


# ---------------------------------------------------------------------------------------------------------
# generator of histories SQLite accepts by construction
# ---------------------------------------------------------------------------------------------------------
NAMES = ["a", "b", "c", "d", "e", "id", "x y", 'q"q', "w`w", "é", "a'b", "Tbl", "order", "col1", "v", "n", "k9", "[z]"]
TYPES = ["(char)", "(char %d)", "(string)", "(string %d)", "(string max)", "text", "tinyint", "smallint", "int", "bigint",
         "utinyint", "usmallint", "uint", "ubigint", "float", "double", "(decimal)", "(decimal %d %d)", "datetime",
         "timestamp", "timestamptz", "time", "date", "(binary %d)", "(varbinary)", "(varbinary %d)", "(varbinary max)",
         "blob", "boolean", "(money)", "(money %d %d)", "json", "jsonb", "uuid", "(enum %s %s %s)"]


class SGen:
    def __init__(self, rng):
        self.r = rng

    def ty(self, int_only=False):
        r = self.r
        if int_only:
            return r.choice(INT_KINDS)
        t = r.choice(TYPES)
        if t.startswith("(decimal %d"):
            return t % (r.choice([0, 1, 10, 16]), r.choice([0, 2, 5, 4294967295]))
        if t.startswith("(enum"):
            # enum names that contain type keywords SQLite's affinity rules react to (INT, CHAR, BLOB, REAL): the
            # column's affinity must not depend on the enum's name
            return t % (hexs(r.choice(["mood", "point_size", "print_quality", "charm", "blobby", "real_kind"])),
                        hexs("happy"), hexs("it's"))
        n = t.count("%d")
        return t % tuple(r.choice([0, 1, 16, 17, 255, 65535, 4294967295]) for _ in range(n)) if n else t

    def int_val(self):
        return "i:i32:%d" % self.r.choice([0, 1, 5, -5, 42, 2147483647])

    def default(self):
        r = self.r
        k = r.random()
        if k < 0.35:
            return "(val %s)" % self.int_val()
        if k < 0.65:
            return "(val s:%s)" % hexs(r.choice(["x", "it's", "hello world", 'q"q', "é"]))
        if k < 0.75:
            return "(val b:%d)" % r.randint(0, 1)
        if k < 0.85:
            return "(kw %s)" % r.choice(["cts", "cdate", "ctime", "null"])
        if k < 0.93:
            return "(val n:i32)"
        # a computed default: the builder's explicit parenthesised form, or the bare expression
        e = "(bin add (val i:i32:1) (val i:i32:2))"
        return "(tuple %s)" % e if r.random() < 0.6 else e

    def coldef(self, name, state_cols, role=None, alter=False):
        """role: None | 'pk' | 'pkauto'. state_cols: earlier plain integer columns (for generated expressions)"""
        r = self.r
        specs = []
        int_kind = role in ("pk", "pkauto") and (role == "pkauto" or r.random() < 0.6)
        ty = self.ty(int_only=int_kind)
        if role == "pkauto" and r.random() < 0.8:
            ty = r.choice(["int", "uint", "bigint", "ubigint"])    # (the narrower kinds hit a known finding)
        is_int = type_head(sexp.parse(ty) if ty.startswith("(") else ty) in INT_KINDS
        if role in ("pk", "pkauto"):
            specs.append("(pk)")
        if role == "pkauto":
            specs.append("(autoinc)")
        generated = False
        if role is None and state_cols and r.random() < 0.08:
            src = r.choice(state_cols)
            stored = r.random() < 0.5 and not alter
            specs.append("(generated (bin add (col %s) (val i:i32:1)) %s)" % (hexs(src), "stored" if stored else "virtual"))
            generated = True
        notnull = False
        if not generated:
            k = r.random()
            if k < 0.3:
                specs.append("(notnull)")
                notnull = True
            elif k < 0.4 and role is None:
                specs.append("(null)")
            has_default = r.random() < 0.4 and role != "pkauto"
            if alter and notnull:
                has_default = True
            if has_default:
                d = self.default()
                if alter and (d.startswith("(kw c") or d.startswith("(tuple") or d.startswith("(bin") or
                              (notnull and ("(kw null)" in d or "n:i32" in d))):
                    d = "(val %s)" % self.int_val()
                specs.append("(default %s)" % d)
        if role is None and not alter and r.random() < 0.15:
            specs.append("(unique)")
        if is_int and not generated and r.random() < 0.25:
            for _ in range(r.choice([1, 1, 2])):
                specs.append("(check (bin ne (col %s) (val i:i32:%d)))" % (hexs(name), r.randrange(1000, 100000)))
        if r.random() < 0.1:
            specs.append("(comment %s)" % hexs(r.choice(["it's a column", "x"])))
        if r.random() < 0.04:
            specs.append("(using (val i:i32:1))")
        r.shuffle(specs)
        return "(cd %s %s%s)" % (hexs(name), ty, "".join(" " + s for s in specs)), is_int and not generated

    def icols(self, names, table_level=True):
        r = self.r
        out = []
        for n in names:
            out.append("(col %s %s %s)" % (hexs(n), "-" if r.random() < 0.85 else str(r.choice([1, 10, 255])),
                                           r.choice(["-", "-", "asc", "desc"])))
        return out

    def history(self):
        r = self.r
        d = Declared()
        lines = []

        def emit(stmt):
            d.apply(sexp.parse(stmt))
            lines.append("ddl sl " + stmt)

        pool = NAMES[:]
        r.shuffle(pool)
        parent = pool.pop()
        child = pool.pop()
        # parent table: the target of the foreign keys
        pa, pb, pc = pool.pop(), pool.pop(), pool.pop()
        emit("(tcreate (table (t %s)) (col (cd %s int (pk))) (col (cd %s int (notnull))) (col (cd %s text (notnull))) "
             "(index (index (unique) (col %s - -) (col %s - -))))" % (hexs(parent), hexs(pa), hexs(pb), hexs(pc), hexs(pb), hexs(pc)))
        # the table under test
        ncols = r.choice([1, 2, 3, 3, 4, 5, 6])
        cnames = [pool.pop() for _ in range(ncols)]
        pk_mode = r.choice(["none", "col", "col", "colauto", "colauto", "table"])
        cl = ["(table (t %s))" % (hexs(child) if r.random() < 0.85 else "%s %s" % (hexs("main"), hexs(child)))]
        if r.random() < 0.25:
            cl.append("(ifnotexists)")
        if r.random() < 0.08:
            cl.append("(temporary)")
            cl[0] = "(table (t %s))" % hexs(child)
        if r.random() < 0.1:
            cl.append("(comment %s)" % hexs("a table"))
        cols = []
        ints = []
        for i, n in enumerate(cnames):
            role = None
            if i == 0 and pk_mode == "col":
                role = "pk"
            if i == 0 and pk_mode == "colauto":
                role = "pkauto"
            cd, plain_int = self.coldef(n, ints, role)
            cols.append("(col %s)" % cd)
            if plain_int:
                ints.append(n)
        elems = []
        plain = [n for n, c in zip(cnames, cols) if "(generated" not in c]
        if pk_mode == "table":
            k = r.choice([1, 1, 2]) if len(plain) > 1 else 1
            nm = ["(name %s)" % hexs(pool.pop())] if r.random() < 0.5 else []
            elems.append("(pk (index %s))" % " ".join(nm + self.icols(r.sample(plain, min(k, len(plain))))))
        for _ in range(r.choice([0, 0, 1, 1, 2])):
            k = r.choice([1, 1, 2])
            nm = ["(name %s)" % hexs(pool.pop())] if r.random() < 0.6 else []
            extra = ["(itype %s)" % r.choice(["btree", "hash"])] if r.random() < 0.1 else []
            elems.append("(index (index %s))" % " ".join(nm + ["(unique)"] + extra + self.icols(r.sample(plain, min(k, len(plain))))))
        if r.random() < 0.06:
            # a table-level index that is neither unique nor primary
            nm = ["(name %s)" % hexs(pool.pop())] if r.random() < 0.7 else []
            elems.append("(index (index %s))" % " ".join(nm + self.icols([r.choice(plain)])))
        for _ in range(r.choice([0, 0, 1, 1, 2])):
            acts = ""
            if r.random() < 0.6:
                acts += " (ondelete %s)" % r.choice(gen_actions)
            if r.random() < 0.6:
                acts += " (onupdate %s)" % r.choice(gen_actions)
            parts = []
            if r.random() < 0.5:
                parts.append("(name %s)" % hexs(pool.pop()))
            if r.random() < 0.5:
                parts.append("(fromtbl (t %s))" % hexs(child))
            parts.append("(totbl (t %s))" % hexs(parent))
            if r.random() < 0.6 or len(plain) < 2:
                parts += ["(fromcol %s)" % hexs(r.choice(plain)), "(tocol %s)" % hexs(pa)]
            else:
                x, y = r.sample(plain, 2)
                parts += ["(fromcol %s)" % hexs(x), "(fromcol %s)" % hexs(y), "(tocol %s)" % hexs(pb), "(tocol %s)" % hexs(pc)]
            parts += acts.split(" (")[1:] and ["(" + a for a in acts.split(" (")[1:]]
            if r.random() < 0.4:
                # the builder calls in any order (columns before tables, actions first, ...): only the order among
                # the key columns and among the referenced columns carries meaning
                fc = [p_ for p_ in parts if p_.startswith("(fromcol")]
                tc = [p_ for p_ in parts if p_.startswith("(tocol")]
                r.shuffle(parts)
                fi, ti = iter(fc), iter(tc)
                parts = [next(fi) if p_.startswith("(fromcol") else next(ti) if p_.startswith("(tocol") else p_ for p_ in parts]
            elems.append("(fk (fk %s))" % " ".join(parts))
        for _ in range(r.choice([0, 0, 0, 1, 2])):
            if ints:
                one = "(bin ne (col %s) (val i:i32:%d))" % (hexs(r.choice(ints)), r.randrange(1000, 100000))
                if r.random() < 0.3:
                    # the same check written with groups: the text starts with ( and ends with ) without being one group
                    one = "(bin and (bin or %s %s) (bin or %s %s))" % (one, one, one, one)
                elems.append("(check %s)" % one)
        body = cols + elems
        if r.random() < 0.3:
            r.shuffle(body)
        emit("(tcreate %s)" % " ".join(cl + body))
        if r.random() < 0.1 and d.tables.get(child) and not d.tables[child]["temp"]:
            emit("(tcreate (table (t %s)) (ifnotexists) (col (cd %s int)))" % (hexs(child), hexs("zz")))
        # a sequence of ALTER / RENAME / CREATE INDEX / DROP statements
        cur = child
        for _ in range(r.choice([0, 1, 2, 3, 4, 6])):
            t = d.tables.get(cur)
            if t is None:
                break
            k = r.random()
            # the table of an ALTER / RENAME / DROP is named through the main schema now and then (never a temporary
            # table, which lives in the temp schema); run_history then shadows it by a temporary table of the same
            # name, so that a rendering which loses the qualifier acts on the wrong table
            tq = (lambda n, _t=t: "%s %s" % (hexs("main"), hexs(n))
                  if not _t["temp"] and r.random() < 0.3 else hexs(n))   # noqa
            names = [c["name"] for c in t["cols"]]
            plainc = [c["name"] for c in t["cols"] if not c["generated"]]
            intc = [c["name"] for c in t["cols"] if not c["generated"] and type_head(c["ty"]) in INT_KINDS]
            if k < 0.25 and pool:
                n = pool.pop()
                cd, _ = self.coldef(n, intc, None, alter=True)
                emit("(talter (table (t %s)) (%s %s))" % (tq(cur), r.choice(["addcol", "addcol", "addcoline"]), cd))
            elif k < 0.4 and pool:
                new = pool.pop()
                if "'" in new or any("'" in nm_ for nm_ in names):
                    # sqlite3 3.40 re-parses the rewritten schema and reads "a'b" in a key column list as an expression
                    # (an engine quirk of RENAME COLUMN, independent of the statement text): no RENAME COLUMN on a
                    # table that has, or would get, a column name containing a single quote
                    continue
                emit("(talter (table (t %s)) (rencol %s %s))" % (tq(cur), hexs(r.choice(names)), hexs(new)))
            elif k < 0.5:
                used = set(x.lower() for x, _ in t["pk"])
                for u in t["uniques"]:
                    used |= set(x.lower() for x, _ in u)
                for fk in t["fks"]:
                    used |= set(x.lower() for x in fk["cols"])
                used |= set(x.lower() for x, _ in t["checks"])
                for ix in d.indexes.values():
                    if ix["table"] == cur:
                        used |= set(x.lower() for x, _ in ix["cols"])
                        if ix["where"]:
                            used.add(ix["where"][0].lower())
                gen_src = any(c["generated"] for c in t["cols"])
                cand = [c["name"] for c in t["cols"] if c["name"].lower() not in used and not c["pk"] and not c["unique"]
                        and not (gen_src and type_head(c["ty"]) in INT_KINDS)]
                if cand and len(t["cols"]) > 1:
                    emit("(talter (table (t %s)) (dropcol %s))" % (hexs(cur), hexs(r.choice(cand))))
            elif k < 0.75 and pool and plainc:
                cl = ["(name %s)" % hexs(pool.pop()), "(table (t %s))" % hexs(cur)]
                cl += self.icols(r.sample(plainc, min(len(plainc), r.choice([1, 1, 2]))))
                if r.random() < 0.4:
                    cl.append("(unique)")
                if r.random() < 0.3:
                    cl.append("(ifnotexists)")
                if r.random() < 0.3 and intc:
                    cl.append("(andwhere (bin gt (col %s) (val i:i32:%d)))" % (hexs(r.choice(intc)), r.randrange(0, 50)))
                if r.random() < 0.08:
                    cl.append("(fulltext)")
                if r.random() < 0.3:
                    r.shuffle(cl)
                emit("(icreate %s)" % " ".join(cl))
            elif k < 0.83 and d.indexes:
                n = r.choice(sorted(d.indexes))
                emit("(idrop (name %s)%s%s)" % (hexs(n), " (ifexists)" if r.random() < 0.4 else "",
                                                 " (table (t %s))" % hexs(d.indexes[n]["table"]) if r.random() < 0.5 else ""))
            elif k < 0.86:
                emit("(idrop (name %s) (ifexists))" % hexs("no_such_index"))
            elif k < 0.94 and pool and not t["temp"]:
                new = pool.pop()
                emit("(trename (t %s) (t %s))" % (tq(cur), hexs(new)))
                cur = new
            else:
                emit("(tdrop (table (t %s))%s)" % (tq(cur), " (ifexists)" if r.random() < 0.5 else ""))
        return lines


gen_actions = ["restrict", "cascade", "setnull", "noaction", "setdefault"]


# ---------------------------------------------------------------------------------------------------------
# the engine's catalogue
# ---------------------------------------------------------------------------------------------------------
def q(name):
    return '"' + name.replace('"', '""') + '"'


def nospace(s):
    return "".join(s.split())


def unparen(s):
    return s[1:-1] if s.startswith("(") and s.endswith(")") else s


def compare(con, d):
    """compare the engine's catalogue with the declared state; returns a failure text or None"""
    masters = con.execute("SELECT type, name, tbl_name, sql FROM sqlite_master UNION ALL "
                          "SELECT type, name, tbl_name, sql FROM sqlite_temp_master").fetchall()
    eng_tables = sorted(n for ty, n, _, _ in masters if ty == "table" and not n.startswith("sqlite_"))
    if eng_tables != sorted(d.tables):
        return "tables in the catalogue %r, declared %r" % (eng_tables, sorted(d.tables))
    eng_idx = {n: (tbl, sql) for ty, n, tbl, sql in masters if ty == "index" and sql is not None}
    if sorted(eng_idx) != sorted(d.indexes):
        return "indexes in the catalogue %r, declared %r" % (sorted(eng_idx), sorted(d.indexes))
    for tn, t in d.tables.items():
        info = con.execute("PRAGMA table_xinfo(%s)" % q(tn)).fetchall()
        got = [(r[1], r[3], r[4], r[6]) for r in info]
        want = [(c["name"], 1 if c["notnull"] else 0, c["default"],
                 0 if not c["generated"] else (3 if c["generated"][1] else 2)) for c in t["cols"]]
        if [(g[0], g[1], g[3]) for g in got] != [(w[0], w[1], w[3]) for w in want]:
            return "table %s: columns (name, notnull, hidden) %r, declared %r" % (
                tn, [(g[0], g[1], g[3]) for g in got], [(w[0], w[1], w[3]) for w in want])
        for g, w in zip(got, want):
            if (g[2] is None) != (w[2] is None) or (g[2] is not None and unparen(nospace(g[2])) != unparen(nospace(w[2]))):
                return "table %s column %s: default %r, declared %r" % (tn, g[0], g[2], w[2])
        pk_got = [r[1] for r in sorted((r for r in info if r[5] > 0), key=lambda r: r[5])]
        if [x.lower() for x in pk_got] != [x.lower() for x, _ in t["pk"]]:
            return "table %s: primary key %r, declared %r" % (tn, pk_got, [x for x, _ in t["pk"]])
        # unique constraints / pk index / created indexes
        uniq_got, created = [], {}
        for _, iname, unique, origin, partial in con.execute("PRAGMA index_list(%s)" % q(tn)).fetchall():
            cols = [(r[2], bool(r[3])) for r in con.execute("PRAGMA index_xinfo(%s)" % q(iname)).fetchall() if r[5]]
            if origin == "u":
                uniq_got.append(tuple((c.lower(), dsc) for c, dsc in cols))
            elif origin == "pk":
                # (a UNIQUE constraint over the same columns is merged with the primary key index by the engine,
                # whichever direction it declares)
                merged = any([c.lower() for c, _ in u] == [c.lower() for c, _ in t["pk"]] for u in t["uniques"])
                if [c.lower() for c, _ in cols] != [c.lower() for c, _ in t["pk"]] or \
                        (not merged and [dsc for _, dsc in cols] != [dsc for _, dsc in t["pk"]]):
                    return "table %s: primary key index %r, declared %r" % (tn, cols, t["pk"])
            else:
                created[iname] = (cols, bool(unique), bool(partial))
        # SQLite keeps one index per column list: a UNIQUE constraint over the columns of the primary key or of an
        # earlier UNIQUE constraint (in any direction) is implied and gets no index of its own
        uniq_want = set(tuple((c.lower(), dsc) for c, dsc in u) for u in t["uniques"])
        names = lambda u: tuple(c for c, _ in u)   # noqa
        pk_names = tuple(c.lower() for c, _ in t["pk"])
        got_n = set(names(u) for u in uniq_got)
        want_n = set(names(u) for u in uniq_want)
        if not (got_n <= want_n and want_n - {pk_names} <= got_n and set(uniq_got) <= uniq_want
                and len(uniq_got) == len(got_n)):
            return "table %s: unique constraints %r, declared %r" % (tn, sorted(set(uniq_got)), sorted(uniq_want))
        want_created = {n: ix for n, ix in d.indexes.items() if ix["table"] == tn}
        if sorted(created) != sorted(want_created):
            return "table %s: indexes %r, declared %r" % (tn, sorted(created), sorted(want_created))
        for n, ix in want_created.items():
            cols, unique, partial = created[n]
            if [(c.lower(), dsc) for c, dsc in cols] != [(c.lower(), dsc) for c, dsc in ix["cols"]] or unique != ix["unique"] \
                    or partial != (ix["where"] is not None):
                return "index %s: (columns, unique, partial) %r, declared %r" % (
                    n, (cols, unique, partial), (ix["cols"], ix["unique"], ix["where"] is not None))
            if ix["where"]:
                sql = eng_idx[n][1]
                pred = sql.rsplit(" WHERE ", 1)[1] if " WHERE " in sql else ""
                wantp = "%s > %d" % (q(ix["where"][0]), ix["where"][1])
                if nospace(pred) != nospace(wantp):
                    return "index %s: partial predicate %r, declared %r" % (n, pred, wantp)
        # foreign keys
        fks = {}
        for fid, seq, rtab, frm, to, on_upd, on_del, _ in con.execute("PRAGMA foreign_key_list(%s)" % q(tn)).fetchall():
            f = fks.setdefault(fid, dict(ref=rtab, pairs=[], on_update=on_upd, on_delete=on_del))
            f["pairs"].append((seq, frm.lower(), (to or "").lower()))
        got_fk = sorted((f["ref"].lower(), tuple((a, b) for _, a, b in sorted(f["pairs"])), f["on_update"], f["on_delete"])
                        for f in fks.values())
        want_fk = sorted((f["ref"].lower(), tuple((a.lower(), b.lower()) for a, b in zip(f["cols"], f["refcols"])),
                          f["on_update"], f["on_delete"]) for f in t["fks"])
        if got_fk != want_fk:
            return "table %s: foreign keys %r, declared %r" % (tn, got_fk, want_fk)
        # behaviour probes, rolled back afterwards: affinity (typeof), auto-increment (sqlite_sequence), checks
        ins = [c for c in t["cols"] if not c["generated"]]
        if not ins:
            continue
        collist = ", ".join(q(c["name"]) for c in ins)
        marks = ", ".join("?" for _ in ins)
        con.execute("SAVEPOINT probe")
        try:
            rows = []
            try:
                for probe in ("123", 7):
                    con.execute("DELETE FROM %s" % q(tn))
                    con.execute("INSERT INTO %s (%s) VALUES (%s)" % (q(tn), collist, marks), [probe] * len(ins))
                    rows.append(con.execute("SELECT %s FROM %s" % (", ".join("typeof(%s)" % q(c["name"]) for c in ins), q(tn))).fetchone())
            except sqlite3.Error as e:
                return "table %s: probe rows rejected: %s" % (tn, e)
            for i, c in enumerate(ins):
                aff = INTENDED[type_head(c["ty"])]
                seen = (rows[0][i], rows[1][i])
                if seen != PROBE_CLASS[aff]:
                    return "table %s column %s (%s): typeof of the stored probes %r, intended affinity %s gives %r" % (
                        tn, c["name"], c["ty"], seen, aff, PROBE_CLASS[aff])
            has_seq = any(n == "sqlite_sequence" for _, n, _, _ in masters)
            in_seq = has_seq and con.execute("SELECT count(*) FROM sqlite_sequence WHERE name = ?", [tn]).fetchone()[0] > 0
            declared_auto = any(c["autoinc"] for c in t["cols"])
            if in_seq != declared_auto:
                return "table %s: AUTOINCREMENT bookkeeping present=%r, declared auto-increment=%r" % (tn, in_seq, declared_auto)
            allchecks = list(t["checks"]) + [ck for c in t["cols"] for ck in c["checks"]]
            names_l = [c["name"].lower() for c in ins]
            for cname, k in allchecks:
                if cname.lower() not in names_l:
                    continue
                vals = [8] * len(ins)
                vals[names_l.index(cname.lower())] = k
                try:
                    con.execute("INSERT INTO %s (%s) VALUES (%s)" % (q(tn), collist, marks), vals)
                    return "table %s: a row with %s = %d was accepted although CHECK (%s <> %d) is declared" % (tn, cname, k, cname, k)
                except sqlite3.IntegrityError as e:
                    if "CHECK" not in str(e):
                        return "table %s: check probe failed for another reason: %s" % (tn, e)
        finally:
            con.execute("ROLLBACK TO probe")
            con.execute("RELEASE probe")
    return None


ENGINE_QUIRKS = {}
SHADOWED = [0]


def shadowed_table(stmt, d):
    """the table of an ALTER / RENAME / DROP statement when the case names it through the main schema: the statement
    is then executed with a temporary table of the same name in place (SQLite resolves an unqualified name in the temp
    schema first), so it keeps its meaning only if the rendering keeps the qualifier."""
    ref = None
    if stmt[0] == "trename":
        ref = stmt[1]
    elif stmt[0] == "tdrop" or (stmt[0] == "talter" and not any(c[0] == "rencol" for c in stmt[1:])):
        # (not RENAME COLUMN: the engine re-parses every schema entry after it, and resolves the table of an index
        # of main.x to the shadowing temp.x while doing so - an artefact of the fixture, not of the statement)
        for c in stmt[1:]:
            if c[0] == "table":
                ref = c[1]
    if ref is None or len(ref) != 3 or H(ref[1]) != "main":
        return None
    n = d.find(H(ref[2]))
    if n is None or d.tables[n]["temp"]:
        return None
    SHADOWED[0] += 1
    return n


def run_history(lines, sql_of):
    """execute the implementation's SQL of each statement on a fresh in-memory database and compare the catalogue
    after every statement. Returns (index of the failing line, message) or None."""
    con = sqlite3.connect(":memory:")
    con.isolation_level = None
    d = Declared()
    try:
        for i, line in enumerate(lines):
            stmt = sexp.parse(line.split(" ", 2)[2])
            sql = sql_of(line)
            if sql is None:
                return i, "the implementation did not render a statement SQLite supports"
            shadow = shadowed_table(stmt, d)
            if shadow is not None:
                con.execute("CREATE TEMP TABLE %s (sqv_shadow)" % q(shadow))
            try:
                try:
                    con.execute(sql)
                finally:
                    if shadow is not None:
                        for (n,) in con.execute("SELECT name FROM sqlite_temp_master WHERE type = 'table' AND "
                                                "sql LIKE '%(sqv_shadow%'").fetchall():
                            con.execute("DROP TABLE temp.%s" % q(n))
            except sqlite3.Error as e:
                if stmt[0] == "talter" and "after rename" in str(e):
                    # RENAME COLUMN was parsed and carried out; the engine then failed to re-parse ITS OWN rewritten
                    # schema text (sqlite3 3.40 reads some quoted names in key column lists / constraint names as
                    # expressions): a limitation of the engine, independent of the ALTER statement's text.  The
                    # history stops here (the catalogue is rolled back by the engine); counted, not a verdict.
                    ENGINE_QUIRKS["rename_reparse"] = ENGINE_QUIRKS.get("rename_reparse", 0) + 1
                    return None
                return i, "sqlite3 rejects the statement: %s | %s" % (e, sql[:300])
            d.apply(stmt)
            f = compare(con, d)
            if f:
                return i, "%s | after: %s" % (f, sql[:300])
    finally:
        con.close()
    return None
