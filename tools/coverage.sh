#!/bin/sh
# usage: tools/coverage.sh : which lines of /repo/src do the checks' case streams execute?
# 1. every quick check once, keeping the harness case files (VERIF_KEEP_CASES);
# 2. the harness built with source-based coverage (nightly, -C instrument-coverage, feature set fb);
# 3. every kept case file replayed on it; llvm-cov report for /repo/src -> .cache/coverage/{report.txt,uncovered.txt}
# A development aid (where could a change hide from the generators?), not a check.
set -u
V="$(cd "$(dirname "$0")/.." && pwd)"
cd "$V"
COV="$V/.cache/coverage"; CASES="$COV/cases"
rm -rf "$COV"; mkdir -p "$CASES"
if [ "${1:-}" != "--no-run" ]; then
  for i in 01 02 03 04 05 06 07 08 09 10 11 12 13 14 15 16 17 18; do
    VERIF_KEEP_CASES="$CASES" ./check C$i quick > "$COV/run_C$i.log" 2>&1
    echo "C$i rc=$? $(ls "$CASES" | wc -l) case files"
  done
fi
BIN="$(rustc +nightly --print sysroot)/lib/rustlib/x86_64-unknown-linux-gnu/bin"
cp /repo/Cargo.lock harness/Cargo.lock
( cd harness && LLVM_PROFILE_FILE="$COV/build/%p-%m.profraw" CARGO_NET_OFFLINE=true CARGO_TARGET_DIR="$V/.cache/target/cov" RUSTFLAGS="-C instrument-coverage" \
    cargo +nightly build --offline --quiet --features fb ) || { echo "coverage build failed"; exit 1; }
EXE="$V/.cache/target/cov/debug/sqv-harness"
for f in "$CASES"/*.cases; do
  LLVM_PROFILE_FILE="$COV/prof/%p-%m.profraw" "$EXE" "$f" > /dev/null 2>&1
done
"$BIN/llvm-profdata" merge -sparse "$COV"/prof/*.profraw -o "$COV/all.profdata"
"$BIN/llvm-cov" report "$EXE" -instr-profile="$COV/all.profdata" $(find /repo/src -name '*.rs') > "$COV/report.txt" 2>/dev/null
"$BIN/llvm-cov" export "$EXE" -instr-profile="$COV/all.profdata" -format=lcov $(find /repo/src -name '*.rs') > "$COV/lcov.info" 2>/dev/null
python3 - "$COV" <<'PY'
import sys,re,collections
cov=sys.argv[1]
unc=collections.defaultdict(list); cur=None
for l in open(cov+"/lcov.info"):
    l=l.strip()
    if l.startswith("SF:"): cur=l[3:]
    elif l.startswith("DA:"):
        n,c=l[3:].split(",")[:2]
        if c=="0": unc[cur].append(int(n))
with open(cov+"/uncovered.txt","w") as f:
    for k in sorted(unc):
        ls=unc[k]; runs=[]; 
        for n in ls:
            if runs and n==runs[-1][1]+1: runs[-1][1]=n
            else: runs.append([n,n])
        f.write("%s: %d lines: %s\n"%(k,len(ls)," ".join("%d-%d"%(a,b) if a!=b else str(a) for a,b in runs)))
print("uncovered summary written to", cov+"/uncovered.txt")
PY
tail -n 3 "$COV/report.txt"
