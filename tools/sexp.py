"""s-expression reader for the case language (Python side)"""


def parse(s):
    toks = s.replace("(", " ( ").replace(")", " ) ").split()
    pos = 0

    def go():
        nonlocal pos
        t = toks[pos]
        pos += 1
        if t == "(":
            l = []
            while toks[pos] != ")":
                l.append(go())
            pos += 1
            return l
        return t
    r = go()
    assert pos == len(toks)
    return r


def head(x):
    return x[0] if isinstance(x, list) and x and isinstance(x[0], str) else None
