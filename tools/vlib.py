"""Common machinery for the per-property checks (see DESIGN.md §2, §5, §9).

A check run: regenerate Generated/*.v from /repo -> build the property's Coq theorems ->
build harness (cargo, against /repo's working tree) and extracted model -> correspondence
(implementation vs model on the same cases) -> oracle pass on the implementation's outputs ->
evidence + verdict lines.
"""
import contextlib
import fcntl
import functools
import hashlib
import json
import os
import random
import re
import subprocess
import sys
import time
from concurrent.futures import ThreadPoolExecutor

ROOT = os.path.dirname(os.path.dirname(os.path.abspath(__file__)))
COQ = os.path.join(ROOT, "coq")
CACHE = os.path.join(ROOT, ".cache")
TARGET = os.path.join(CACHE, "target")
WORK = os.path.join(ROOT, "evidence", "work")
REPLAY = os.path.join(ROOT, "evidence", "replay")
REPO = "/repo"
NCPU = 16

FORBIDDEN = re.compile(
    r"\b(Admitted|admit|Axiom|Axioms|Parameter|Parameters|Conjecture|Conjectures|Admit Obligations|"
    r"Unset Guard Checking|Unset Positivity Checking|Unset Universe Checking|bypass_check|"
    r"type-in-type|impredicative-set|native_compute)\b"
)

FEATURES = {
    "base": [],
    "fa": ["fa"],
    "fb": ["fb"],
    "fc": ["fc"],
}

ENV = dict(os.environ)
ENV.update({"CARGO_NET_OFFLINE": "true", "CARGO_TARGET_DIR": TARGET})


# ------------------------------------------------------------------------------------------------
# build lock: checks may be run concurrently; everything that writes shared build products
# (coq/*.vo, coq/Generated, extract/_build, the harness target directories) is serialised
# ------------------------------------------------------------------------------------------------
_lock_state = {"depth": 0, "fd": None}
_lock_thread = __import__("threading").RLock()


@contextlib.contextmanager
def build_lock():
    """inter-process: flock on .cache/build.lock; intra-process: a re-entrant thread lock (the depth counter is only
    touched by the thread that holds it - two threads entering at once used to race on it and the unlock then met a
    closed file: a machinery error reported as a violation, seed 0 of C18)"""
    st = _lock_state
    with _lock_thread:
        if st["depth"] == 0:
            os.makedirs(CACHE, exist_ok=True)
            st["fd"] = open(os.path.join(CACHE, "build.lock"), "w")
            fcntl.flock(st["fd"], fcntl.LOCK_EX)
        st["depth"] += 1
        try:
            yield
        finally:
            st["depth"] -= 1
            if st["depth"] == 0:
                fcntl.flock(st["fd"], fcntl.LOCK_UN)
                st["fd"].close()
                st["fd"] = None


def locked(fn):
    @functools.wraps(fn)
    def wrapper(*a, **k):
        with build_lock():
            return fn(*a, **k)
    return wrapper


def sh(cmd, cwd=None, timeout=None, env=None, check=False):
    if isinstance(cmd, str) and cmd.startswith("make ") and cwd and os.path.abspath(cwd) == os.path.abspath(COQ) \
            and _lock_state["depth"] == 0:
        with build_lock():     # every make in the shared coq/ directory is serialised
            return sh(cmd, cwd, timeout, env, check)
    p = subprocess.run(cmd, cwd=cwd, shell=isinstance(cmd, str), stdout=subprocess.PIPE,
                       stderr=subprocess.STDOUT, timeout=timeout, env=env or ENV)
    out = p.stdout.decode("utf-8", "replace")
    if check and p.returncode != 0:
        raise RuntimeError("command failed: %s\n%s" % (cmd, out[-4000:]))
    return p.returncode, out


def hexs(s):
    if isinstance(s, str):
        s = s.encode("utf-8")
    return s.hex() if s else "-"


def unhex(h):
    return b"" if h == "-" else bytes.fromhex(h)


def unhexs(h):
    return unhex(h).decode("utf-8")


# ------------------------------------------------------------------------------------------------
# Coq
# ------------------------------------------------------------------------------------------------

def coq_makefile():
    mk = os.path.join(COQ, "Makefile")
    cp = os.path.join(COQ, "_CoqProject")
    if not os.path.exists(mk) or os.path.getmtime(mk) < os.path.getmtime(cp):
        sh("coq_makefile -f _CoqProject -o Makefile", cwd=COQ, check=True)


def coq_deps(vfile, seen=None):
    """transitive SQV dependencies of a .v file (paths relative to coq/)"""
    if seen is None:
        seen = []
    if vfile in seen:
        return seen
    seen.append(vfile)
    try:
        src = open(os.path.join(COQ, vfile)).read()
    except FileNotFoundError:
        return seen
    src = re.sub(r"\(\*.*?\*\)", "", src, flags=re.S)
    for m in re.finditer(r"SQV\.([A-Za-z0-9_]+)\.([A-Za-z0-9_]+)", src):
        coq_deps("%s/%s.v" % (m.group(1), m.group(2)), seen)
    return seen


def strip_comments(src):
    # nested comments
    out, depth, i = [], 0, 0
    while i < len(src):
        if src.startswith("(*", i):
            depth += 1
            i += 2
        elif src.startswith("*)", i) and depth > 0:
            depth -= 1
            i += 2
        else:
            if depth == 0:
                out.append(src[i])
            i += 1
    return "".join(out)


@locked
def coq_build(pid, timeout=1500):
    """Build Properties/<pid>.vo (always recompiling the property file itself so that its
    Print Assumptions output is captured). Returns a dict describing the proof state."""
    coq_makefile()
    prop = "Properties/%s.v" % pid
    deps = coq_deps(prop)
    res = {"ok": False, "files": deps, "forbidden": [], "theorems": [], "assumptions": {},
           "obligations": 0, "discharged": 0, "log": ""}
    # hygiene grep over every file the property depends on
    n_obl = 0
    for f in deps:
        try:
            src = strip_comments(open(os.path.join(COQ, f)).read())
        except FileNotFoundError:
            res["forbidden"].append("%s: missing" % f)
            continue
        for m in FORBIDDEN.finditer(src):
            res["forbidden"].append("%s: %s" % (f, m.group(0)))
        n_obl += len(re.findall(r"^\s*(?:Local\s+|Global\s+)?(?:Theorem|Lemma|Corollary|Example|Fact|Proposition)\s",
                                src, flags=re.M))
    res["obligations"] = n_obl
    for ext in (".vo", ".vok", ".vos", ".glob"):
        try:
            os.remove(os.path.join(COQ, "Properties/%s%s" % (pid, ext)))
        except FileNotFoundError:
            pass
    t0 = time.time()
    try:
        rc, out = sh("make -j%d Properties/%s.vo" % (NCPU, pid), cwd=COQ, timeout=timeout)
    except subprocess.TimeoutExpired:
        rc, out = 124, "TIMEOUT building Properties/%s.vo" % pid
    res["log"] = out
    res["wall_s"] = round(time.time() - t0, 1)
    # parse Print Assumptions blocks: theorems listed in the property file in order
    src = strip_comments(open(os.path.join(COQ, prop)).read())
    names = re.findall(r"Print Assumptions\s+([A-Za-z0-9_']+)\s*\.", src)
    res["theorems"] = names
    if rc == 0:
        blocks = []
        cur = None
        for line in out.splitlines():
            if line.startswith("Closed under the global context"):
                blocks.append([])
                cur = None
            elif line.startswith("Axioms:"):
                cur = []
                blocks.append(cur)
            elif cur is not None:
                if line.startswith("COQC") or line.startswith("make") or line.startswith("COQDEP"):
                    cur = None
                else:
                    m = re.match(r"^([A-Za-z0-9_.']+)\s*:", line)
                    if m:
                        cur.append(m.group(1))
        if len(blocks) == len(names):
            for n, b in zip(names, blocks):
                res["assumptions"][n] = b
        else:
            res["forbidden"].append("Print Assumptions output (%d blocks) does not match %d theorems"
                                    % (len(blocks), len(names)))
        allow = set()
        ap = os.path.join(COQ, "assumptions.allow")
        if os.path.exists(ap):
            allow = set(l.strip() for l in open(ap) if l.strip() and not l.startswith("#"))
        for n, b in res["assumptions"].items():
            for ax in b:
                if ax not in allow:
                    res["forbidden"].append("theorem %s depends on non-allow-listed axiom %s" % (n, ax))
        res["ok"] = not res["forbidden"] and len(names) > 0
        if res["ok"]:
            res["discharged"] = n_obl
    else:
        m = re.search(r'File "([^"]+)", line (\d+).*?\n(Error:.*?)(?:\n\n|\nmake)', out, flags=re.S)
        res["error"] = (m.group(0)[:1500] if m else out[-1500:])
    return res


# ------------------------------------------------------------------------------------------------
# harness / model builds
# ------------------------------------------------------------------------------------------------

@locked
def harness_build(feat="base", timeout=1500):
    hd = os.path.join(ROOT, "harness")
    os.makedirs(TARGET, exist_ok=True)
    # the lock file always starts from /repo's
    try:
        subprocess.run(["cp", os.path.join(REPO, "Cargo.lock"), os.path.join(hd, "Cargo.lock")], check=True)
    except Exception:
        pass
    env = dict(ENV)
    env["CARGO_TARGET_DIR"] = os.path.join(TARGET, feat)
    cmd = ["cargo", "build", "--offline", "--quiet"]
    if FEATURES[feat]:
        cmd += ["--features", ",".join(FEATURES[feat])]
    rc, out = sh(cmd, cwd=hd, timeout=timeout, env=env)
    exe = os.path.join(TARGET, feat, "debug", "sqv-harness")
    if rc != 0:
        raise BuildError("harness build (%s) failed:\n%s" % (feat, out[-3000:]))
    return exe


class BuildError(Exception):
    pass


@locked
def model_build(name="main", timeout=900):
    """build extract/_build/<name>.exe from extract/<name>/{Extract.v,driver.ml}"""
    exe = os.path.join(ROOT, "extract", "_build", "%s.exe" % name)
    coq_makefile()
    # make sure every Model/Spec file needed by the extraction is compiled
    deps = coq_deps_of_extract(name)
    rc, out = sh("make -j%d %s" % (NCPU, " ".join(d[:-2] + ".vo" for d in deps)), cwd=COQ, timeout=timeout)
    if rc != 0:
        raise BuildError("coq model build failed:\n" + out[-3000:])
    newest = max(os.path.getmtime(os.path.join(COQ, d[:-2] + ".vo")) for d in deps)
    srcs = [os.path.join(ROOT, "extract", f) for f in (name + "/Extract.v", "util.ml", name + "/driver.ml", "build.sh")]
    # every .ml of the directory is compiled into the executable (cases.ml, sexp.ml, ...)
    srcs += [os.path.join(ROOT, "extract", name, f) for f in os.listdir(os.path.join(ROOT, "extract", name))
             if f.endswith(".ml") and f != "driver.ml"]
    if name == "ddl":      # shares main's case-language reader (extract/build.sh)
        srcs += [os.path.join(ROOT, "extract", "main", f) for f in ("cases.ml", "sexp.ml")]
    newest = max([newest] + [os.path.getmtime(s) for s in srcs])
    if not os.path.exists(exe) or os.path.getmtime(exe) < newest:
        rc, out = sh(["./build.sh", name], cwd=os.path.join(ROOT, "extract"), timeout=timeout)
        if rc != 0:
            raise BuildError("extraction build failed:\n" + out[-3000:])
    return exe


def coq_deps_of_extract(name="main"):
    src = open(os.path.join(ROOT, "extract", name, "Extract.v")).read()
    seen = []
    for m in re.finditer(r"SQV\.([A-Za-z0-9_]+)\.([A-Za-z0-9_]+)", strip_comments(src)):
        coq_deps("%s/%s.v" % (m.group(1), m.group(2)), seen)
    return seen


def run_exe(exe, lines, workdir, tag, extra_args=None, timeout=3000):
    """run exe on the case lines, sharded over NCPU processes; returns list of output lines"""
    os.makedirs(workdir, exist_ok=True)
    n = len(lines)
    if n == 0:
        return []
    shards = min(NCPU, max(1, n // 200))
    size = (n + shards - 1) // shards
    files = []
    for i in range(shards):
        p = os.path.join(workdir, "%s.%d.%d.cases" % (tag, os.getpid(), i))
        with open(p, "w") as f:
            f.write("\n".join(lines[i * size:(i + 1) * size]) + "\n")
        files.append(p)

    def one(p):
        r = subprocess.run([exe] + (extra_args or []) + [p], stdout=subprocess.PIPE, stderr=subprocess.PIPE,
                           timeout=timeout, env=ENV)
        return r.returncode, r.stdout.decode("utf-8", "replace").splitlines(), r.stderr.decode("utf-8", "replace")

    outs = []
    with ThreadPoolExecutor(max_workers=NCPU) as ex:
        for (rc, o, err), p in zip(ex.map(one, files), files):
            want = sum(1 for _ in open(p) if _.strip() and not _.startswith("#"))
            if len(o) != want:
                o = o + ["CRASH rc=%s %s" % (rc, err.strip()[-200:].replace("\n", " "))] * (want - len(o))
            outs.extend(o[:want])
    keep = os.environ.get("VERIF_KEEP_CASES")
    if keep and os.path.basename(exe) == "sqv-harness":
        # tools/coverage.sh replays the kept case files on a coverage-instrumented harness
        os.makedirs(keep, exist_ok=True)
        for p in files:
            try:
                os.replace(p, os.path.join(keep, os.path.basename(p)))
            except OSError:
                pass
        return outs
    for p in files:
        os.remove(p)
    return outs


# ------------------------------------------------------------------------------------------------
# known findings
# ------------------------------------------------------------------------------------------------

def known_findings(pid):
    p = os.path.join(ROOT, "known_findings.json")
    if not os.path.exists(p):
        return []
    data = json.load(open(p))
    return [f for f in data.get("findings", []) if f["property"] == pid and f.get("status", "open") == "open"]


# ------------------------------------------------------------------------------------------------
# the run context
# ------------------------------------------------------------------------------------------------

class Ctx:
    def __init__(self, pid, tier):
        self.pid = pid
        self.tier = tier
        self.seed = int(os.environ.get("VERIF_SEED", "0") or 0)
        self.rng = random.Random(self.seed * 1000003 + int(hashlib.sha1(pid.encode()).hexdigest()[:8], 16))
        self.t0 = time.time()
        self.work = os.path.join(WORK, pid)
        os.makedirs(self.work, exist_ok=True)
        os.makedirs(REPLAY, exist_ok=True)
        self.violations = []      # (replay_path, suffix)
        self.known_hits = {}      # class_id -> (finding, example)
        self.cov = {"evaluations": 0, "distinct_nontrivial": 0, "samples": [], "rule": "",
                    "traces_validated_against_impl": 0, "disagreements": 0, "oracle_failures": 0,
                    "distribution": {}}
        self.notes = []
        self.extra_disagreements = []   # (case, impl, model-prediction) found by a batch oracle
        self.proof = None
        self.assumptions = []

    @property
    def quick(self):
        return self.tier == "quick"

    def log(self, *a):
        print("[%s %6.1fs]" % (self.pid, time.time() - self.t0), *a, flush=True)

    # -- violation protocol -----------------------------------------------------------------
    def write_replay(self, obj):
        blob = json.dumps(obj, sort_keys=True, indent=1, ensure_ascii=False)
        h = hashlib.sha1(blob.encode()).hexdigest()[:12]
        p = os.path.join(REPLAY, "%s-%s.json" % (self.pid, h))
        with open(p, "w") as f:
            f.write(blob + "\n")
        return os.path.relpath(p, ROOT)

    def violation(self, obj, no_input=False):
        obj = dict(obj)
        obj["property"] = self.pid
        path = self.write_replay(obj)
        self.violations.append((path, " no-failing-input-found" if no_input else ""))

    def known(self, finding, example):
        cid = finding["class_id"]
        if cid not in self.known_hits:
            self.known_hits[cid] = (finding, example)

    # -- evidence ---------------------------------------------------------------------------
    def finish(self):
        pr = self.proof or {}
        cov = self.cov
        cov["obligations"] = pr.get("obligations", 0)
        cov["discharged"] = pr.get("discharged", 0)
        cov["checker_cmd"] = "cd coq && coq_makefile -f _CoqProject -o Makefile && make -j16 Properties/%s.vo" % self.pid
        cov["trusted_base"] = TRUSTED_BASE + self.assumptions
        cov["pinned_theorems"] = pr.get("theorems", [])
        cov["print_assumptions"] = pr.get("assumptions", {})
        cov["coq_files"] = pr.get("files", [])
        cov["known_findings_reproduced"] = sorted(self.known_hits)
        cov["notes"] = self.notes
        if not cov["samples"]:
            cov["samples"] = ["(no dynamic cases in this run)"]
        ev = {
            "property_id": self.pid,
            "tier": self.tier,
            "seed": self.seed,
            "level": "proof",
            "coverage": cov,
            "assumptions": self.assumptions + ["see DESIGN.md §7 (trusted base)"],
            "wall_s": round(time.time() - self.t0, 1),
            "violations": len(self.violations),
        }
        os.makedirs(os.path.join(ROOT, "evidence"), exist_ok=True)
        with open(os.path.join(ROOT, "evidence", "%s.json" % self.pid), "w") as f:
            json.dump(ev, f, indent=1, ensure_ascii=False, sort_keys=True)
            f.write("\n")
        for cid in sorted(self.known_hits):
            fnd, ex = self.known_hits[cid]
            print("KNOWN-FINDING: property=%s %s [%s] e.g. %s" % (self.pid, fnd["description"], cid, ex), flush=True)
        seen = set()
        for path, suffix in self.violations[:5]:
            if path in seen:
                continue
            seen.add(path)
            print("VIOLATION property=%s replay=%s%s" % (self.pid, path, suffix), flush=True)
        self.log("done: %d evaluations, %d violations, %.1fs" % (cov["evaluations"], len(self.violations),
                                                              time.time() - self.t0))
        return 1 if self.violations else 0

    # -- steps ------------------------------------------------------------------------------
    def coq(self):
        self.log("building Coq theorems")
        self.proof = coq_build(self.pid)
        if not self.proof["ok"]:
            self.log("PROOF BROKEN:", self.proof.get("error") or self.proof["forbidden"])
        else:
            self.log("proofs ok: %d obligations, pinned theorems %s (%.1fs)" % (
                self.proof["obligations"], self.proof["theorems"], self.proof["wall_s"]))
        return self.proof["ok"]

    def build(self, feat="base", model=True, model_name="main"):
        self.log("building harness (%s)%s" % (feat, " and model" if model else ""))
        with ThreadPoolExecutor(max_workers=2) as ex:
            fh = ex.submit(harness_build, feat)
            fm = ex.submit(model_build, model_name) if model else None
            self.harness = fh.result()
            self.model = fm.result() if fm else None

    def run_both(self, lines, tag="cases"):
        """correspondence: returns (impl_outputs, model_outputs)"""
        with ThreadPoolExecutor(max_workers=2) as ex:
            fi = ex.submit(run_exe, self.harness, lines, self.work, tag + ".impl")
            fm = ex.submit(run_exe, self.model, lines, self.work, tag + ".model")
            return fi.result(), fm.result()

    def run_impl(self, lines, tag="cases"):
        return run_exe(self.harness, lines, self.work, tag + ".impl")

    def run_model(self, lines, tag="cases"):
        return run_exe(self.model, lines, self.work, tag + ".model")

    def corpus(self):
        p = os.path.join(ROOT, "corpus", "%s.cases" % self.pid)
        if not os.path.exists(p):
            return []
        return [l.strip() for l in open(p) if l.strip() and not l.startswith("#")]


TRUSTED_BASE = [
    "Coq 8.16.1 kernel (coqc, vm_compute for finite table checks; no native_compute)",
    "engine-side specifications in coq/Spec (written from engine documentation)",
    "correspondence harness: Rust sqv-harness (path dep on /repo), Python generators, line diff",
    "OCaml extraction (ExtrOcamlBasic only) + extract/driver.ml, extract/util.ml",
    "generators/translators in tools/ that rewrite coq/Generated from /repo",
]


def standard_flow(ctx, feat, gen_cases, oracle=None, nontrivial=None, classify=None, describe=None,
                  model=True, extra=None, rule="", regen=None, batch_oracle=None, model_name="main"):
    """The common flow. gen_cases(ctx) -> list of case lines.
    oracle(case, impl_out) -> None if fine else a string describing the failure.
    classify(case, impl_out, failure) -> known-finding dict or None."""
    try:
        ctx.harness = harness_build(feat)
        if regen:
            try:
                with build_lock():
                    regen(ctx)
            except BuildError as e:
                # the code no longer fits the shape the regenerated table can express: the theorems over that table
                # are no longer shown to hold for the code (reported below), but the executable model built from
                # the previous table and the property's oracle can still look for a failing input
                if not os.path.exists(os.path.join(COQ, "Properties", "%s.v" % ctx.pid)):
                    raise
                ctx.log("REGENERATION FAILED:", str(e)[:500])
                ctx.violation({"kind": "regeneration-failed", "detail": str(e)[-3000:],
                               "theorem_or_correspondence": "regeneration of coq/Generated from /repo (the theorems "
                                                            "over the regenerated table are not re-checked)"},
                              no_input=True)
                ctx.regen_failed = True
        proof_ok = ctx.coq()
        ctx.build(feat, model=True, model_name=model_name)
    except BuildError as e:
        ctx.log(str(e))
        ctx.violation({"kind": "build-failure", "detail": str(e)[-3000:],
                       "theorem_or_correspondence": "harness/model build against /repo"}, no_input=True)
        return ctx.finish()
    lines = ctx.corpus() + gen_cases(ctx)
    # de-duplicate, keep order
    seen, uniq = set(), []
    for l in lines:
        if l not in seen:
            seen.add(l)
            uniq.append(l)
    lines = uniq
    ctx.log("running %d cases on implementation%s" % (len(lines), " and model" if model else ""))
    if model:
        impl, mod = ctx.run_both(lines)
    else:
        impl = ctx.run_impl(lines)
        mod = impl
    ctx.last_lines, ctx.last_impl, ctx.last_model = lines, impl, mod
    cov = ctx.cov
    cov["evaluations"] += len(lines)
    cov["traces_validated_against_impl"] += len(lines) if model else 0
    cov["rule"] = rule
    nt = 0
    disagreements = []
    failures = []
    kfs = known_findings(ctx.pid)
    verdicts = batch_oracle(ctx, lines, impl) if batch_oracle else None
    for idx, (c, i, m) in enumerate(zip(lines, impl, mod)):
        if nontrivial is None or nontrivial(c):
            nt += 1
        if i != m:
            disagreements.append((c, i, m))
        if oracle is not None or verdicts is not None:
            f = verdicts[idx] if verdicts is not None else oracle(c, i)
            if f:
                k = classify(c, i, f, kfs) if classify else None
                if k:
                    ctx.known(k, describe(c) if describe else c)
                else:
                    failures.append((c, i, f))
    disagreements.extend(ctx.extra_disagreements)
    cov["distinct_nontrivial"] += nt
    cov["disagreements"] += len(disagreements)
    cov["oracle_failures"] += len(failures)
    step = max(1, len(lines) // 5)
    for k in range(0, len(lines), step):
        cov["samples"].append({"case": describe(lines[k]) if describe else lines[k], "impl": impl[k][:300],
                               "model": mod[k][:300]})
    if extra:
        extra(ctx, failures)
    with open(os.path.join(ctx.work, "failures.json"), "w") as f:
        json.dump({"oracle_failures": [(describe(c) if describe else c, i[:200], v) for c, i, v in failures[:2000]],
                   "disagreements": [(describe(c) if describe else c, i[:300], m[:300]) for c, i, m in disagreements[:2000]]},
                  f, indent=1, ensure_ascii=False)
    for c, i, f in failures[:3]:
        ctx.violation({"kind": "oracle-failure", "case": c, "case_readable": describe(c) if describe else c,
                       "impl_output": i, "verdict": f})
    if not failures:
        if disagreements:
            c, i, m = disagreements[0]
            ctx.log("correspondence broken on %d cases; first: %s impl=%s model=%s" % (len(disagreements), c, i[:200], m[:200]))
            ctx.violation({"kind": "correspondence-broken", "theorem_or_correspondence":
                           "model/implementation correspondence for %s" % ctx.pid,
                           "case": c, "case_readable": describe(c) if describe else c,
                           "impl_output": i, "model_output": m, "n_disagreements": len(disagreements),
                           "note": "the property's oracle accepted the implementation's output on every "
                                   "explored case; the model no longer describes the code"}, no_input=True)
        elif not proof_ok:
            ctx.violation({"kind": "proof-broken", "theorem_or_correspondence":
                           "coq/Properties/%s.v" % ctx.pid, "detail": ctx.proof.get("error") or ctx.proof["forbidden"]},
                          no_input=True)
    return ctx.finish()
