//! C20, the sentence of the property executed (only built in configurations with thread-safe):
//! a statement built on one thread is moved to another thread, shared between two more through an
//! Arc, and rendered there. It compiles only if SelectStatement is Send + Sync.
/// the sentence of the property, executed: a statement built on one thread is moved to another
/// thread, shared between two more, and rendered there
fn main() {
    use sea_query::{Alias, Expr, Query, SqliteQueryBuilder};
    use std::sync::Arc;
    let stmt = std::thread::spawn(|| {
        Query::select()
            .column(Alias::new("id"))
            .from(Alias::new("t"))
            .and_where(Expr::col(Alias::new("id")).eq(1))
            .to_owned()
    })
    .join()
    .unwrap();
    let shared = Arc::new(stmt);
    let hs: Vec<_> = (0..2)
        .map(|_| {
            let s = Arc::clone(&shared);
            std::thread::spawn(move || s.to_string(SqliteQueryBuilder))
        })
        .collect();
    let outs: Vec<String> = hs.into_iter().map(|h| h.join().unwrap()).collect();
    println!("DEMO {} | {}", outs[0], outs[0] == outs[1]);
}

