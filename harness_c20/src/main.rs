//! C20 correspondence harness: prints `T <node index> <is Send> <is Sync>` for every listed type.
//!
//! The verdicts are computed by rustc's trait solver at compile time: `<W<T>>::IS_SEND` resolves to
//! the inherent associated constant (true) exactly when the bound `T: Send` of that inherent impl
//! holds, and otherwise falls back to the blanket trait constant (false). Stable Rust, no
//! specialization feature.
use std::marker::PhantomData;

/// the Send + Sync dummy used to instantiate type parameters of generic public types
#[allow(dead_code)]
pub struct SqvDummy;

#[allow(dead_code)]
struct W<T: ?Sized>(PhantomData<T>);

trait NotSend {
    const IS_SEND: bool = false;
}
impl<T: ?Sized> NotSend for T {}
trait NotSync {
    const IS_SYNC: bool = false;
}
impl<T: ?Sized> NotSync for T {}

impl<T: ?Sized + Send> W<T> {
    const IS_SEND: bool = true;
}
impl<T: ?Sized + Sync> W<T> {
    const IS_SYNC: bool = true;
}

macro_rules! row {
    ($n:expr, $t:ty) => {
        println!("T {} {} {}", $n, <W<$t>>::IS_SEND, <W<$t>>::IS_SYNC);
    };
}

/// self-test of the trick on types whose answers are known
fn selftest() {
    let got = [
        (<W<u8>>::IS_SEND, <W<u8>>::IS_SYNC),
        (<W<std::rc::Rc<u8>>>::IS_SEND, <W<std::rc::Rc<u8>>>::IS_SYNC),
        (<W<std::cell::Cell<u8>>>::IS_SEND, <W<std::cell::Cell<u8>>>::IS_SYNC),
        (<W<std::sync::Arc<std::cell::Cell<u8>>>>::IS_SEND, <W<std::sync::Arc<std::cell::Cell<u8>>>>::IS_SYNC),
        (<W<*const u8>>::IS_SEND, <W<*const u8>>::IS_SYNC),
        (<W<dyn std::fmt::Debug>>::IS_SEND, <W<dyn std::fmt::Debug + Send + Sync>>::IS_SYNC),
        (<W<&'static std::cell::Cell<u8>>>::IS_SEND, <W<std::sync::Mutex<std::cell::Cell<u8>>>>::IS_SYNC),
    ];
    let want = [(true, true), (false, false), (true, false), (false, false), (false, false), (false, true), (false, true)];
    if got != want {
        println!("SELFTEST-FAILED {:?}", got);
        std::process::exit(3);
    }
    println!("SELFTEST ok");
}

fn main() {
    selftest();
    include!(env!("SQV_C20_TYPES"));
}
