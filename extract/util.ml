(* glue between text case files and the extracted model: hex/UTF-8 <-> list N *)
open Model
type string = Stdlib.String.t

let rec pos_of_int (n : int) : positive =
  if n = 1 then XH else if n land 1 = 0 then XO (pos_of_int (n lsr 1)) else XI (pos_of_int (n lsr 1))
let n_of_int (n : int) : n = if n = 0 then N0 else Npos (pos_of_int n)
let rec int_of_pos (p : positive) : int =
  match p with XH -> 1 | XO q -> 2 * int_of_pos q | XI q -> 2 * int_of_pos q + 1
let int_of_n (x : n) : int = match x with N0 -> 0 | Npos p -> int_of_pos p
let z_of_int (n : int) : z = if n = 0 then Z0 else if n > 0 then Zpos (pos_of_int n) else Zneg (pos_of_int (-n))
let int_of_z (x : z) : int = match x with Z0 -> 0 | Zpos p -> int_of_pos p | Zneg p -> - (int_of_pos p)
let rec nat_of_int (n : int) : nat = if n <= 0 then O else S (nat_of_int (n - 1))
let rec int_of_nat (n : nat) : int = match n with O -> 0 | S m -> 1 + int_of_nat m

let unhex (h : string) : string =
  if h = "-" then "" else
  String.init (String.length h / 2) (fun i -> Char.chr (int_of_string ("0x" ^ String.sub h (2 * i) 2)))
let hex (s : string) : string =
  if s = "" then "-" else begin
    let b = Buffer.create (2 * String.length s) in
    String.iter (fun c -> Buffer.add_string b (Printf.sprintf "%02x" (Char.code c))) s;
    Buffer.contents b end

(* UTF-8 decode to code points (input is produced by our generators: always valid) *)
let cps_of_utf8 (s : string) : int list =
  let n = String.length s in
  let rec go i acc =
    if i >= n then List.rev acc else
    let c = Char.code s.[i] in
    if c < 0x80 then go (i + 1) (c :: acc)
    else if c < 0xE0 then go (i + 2) ((((c land 0x1F) lsl 6) lor (Char.code s.[i+1] land 0x3F)) :: acc)
    else if c < 0xF0 then
      go (i + 3) ((((c land 0x0F) lsl 12) lor ((Char.code s.[i+1] land 0x3F) lsl 6) lor (Char.code s.[i+2] land 0x3F)) :: acc)
    else
      go (i + 4) ((((c land 0x07) lsl 18) lor ((Char.code s.[i+1] land 0x3F) lsl 12)
                   lor ((Char.code s.[i+2] land 0x3F) lsl 6) lor (Char.code s.[i+3] land 0x3F)) :: acc)
  in go 0 []
let utf8_of_cps (l : int list) : string =
  let b = Buffer.create 16 in
  List.iter (fun c ->
    if c < 0x80 then Buffer.add_char b (Char.chr c)
    else if c < 0x800 then begin
      Buffer.add_char b (Char.chr (0xC0 lor (c lsr 6)));
      Buffer.add_char b (Char.chr (0x80 lor (c land 0x3F))) end
    else if c < 0x10000 then begin
      Buffer.add_char b (Char.chr (0xE0 lor (c lsr 12)));
      Buffer.add_char b (Char.chr (0x80 lor ((c lsr 6) land 0x3F)));
      Buffer.add_char b (Char.chr (0x80 lor (c land 0x3F))) end
    else begin
      Buffer.add_char b (Char.chr (0xF0 lor (c lsr 18)));
      Buffer.add_char b (Char.chr (0x80 lor ((c lsr 12) land 0x3F)));
      Buffer.add_char b (Char.chr (0x80 lor ((c lsr 6) land 0x3F)));
      Buffer.add_char b (Char.chr (0x80 lor (c land 0x3F))) end) l;
  Buffer.contents b

let str_of_hex (h : string) : n list = List.map n_of_int (cps_of_utf8 (unhex h))
let hex_of_str (s : n list) : string = hex (utf8_of_cps (List.map int_of_n s))
(* byte strings: list N with each element < 256 *)
let bytes_of_hex (h : string) : n list =
  let s = unhex h in List.init (String.length s) (fun i -> n_of_int (Char.code s.[i]))
let hex_of_bytes (s : n list) : string =
  hex (String.init (List.length s) (fun i -> Char.chr (int_of_n (List.nth s i))))

let backend_of (s : string) : backend =
  match s with "my" -> MySQL | "pg" -> Postgres | "sl" -> SQLite | _ -> failwith "backend"
