(* Extraction of the executable model. ExtrOcamlBasic only: bool/option/unit/list/prod/sumbool
   map to OCaml natives; N, Z, positive, nat stay as extracted inductives. *)
Require Import ExtrOcamlBasic.
Require Import SQV.Model.Str SQV.Model.Escape SQV.Model.Token SQV.Generated.Alpha.
Extraction Language OCaml.
Set Extraction KeepSingleton.
Extraction "model.ml"
  escape_string unescape_string dec_of_Z
  tokenize unquote text is_alpha_rust.
