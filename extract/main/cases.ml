(* interpretation of the case language into the extracted model's AST (mirror of
   harness/src/{exprs,conds,stmts}.rs) *)
open Model
open Util
open Sexp

let hx s = str_of_hex (atom s)

(* external float formatter: text supplied with the case *)
let ftexts : (bool * int, n list) Hashtbl.t = Hashtbl.create 16
let bits_of_hex h = int_of_string ("0x" ^ h)   (* 63-bit ints: f64 patterns with the top bit set are passed as negative-safe decimal below *)
let n_of_hex (h : string) : n =
  (* arbitrary 64-bit hex to N *)
  let v = ref N0 in
  String.iter (fun c ->
    let d = int_of_string ("0x" ^ String.make 1 c) in
    v := N.add (N.mul !v (n_of_int 16)) (n_of_int d)) h;
  !v
let ftext_tbl : (bool * string, n list) Hashtbl.t = Hashtbl.create 16
let rec hex_of_n (x : n) : string =
  let q = N.div x (n_of_int 16) and r = int_of_n (N.modulo x (n_of_int 16)) in
  (if q = N0 then "" else hex_of_n q) ^ Printf.sprintf "%x" r
let ftext (is64 : bool) (bits : n) : n list =
  match Hashtbl.find_opt ftext_tbl (is64, hex_of_n bits) with
  | Some t -> t
  | None -> str_of_hex (hex "?float?")

let n_of_dec (digits : string) : n =
  let v = ref N0 in
  String.iter (fun c -> v := N.add (N.mul !v (n_of_int 10)) (n_of_int (Char.code c - 48))) digits;
  !v
let z_of_string (s : string) : z =
  (* decimal, arbitrary size *)
  let neg = String.length s > 0 && s.[0] = '-' in
  let digits = if neg then String.sub s 1 (String.length s - 1) else s in
  match n_of_dec digits with
  | N0 -> Z0
  | Npos p -> if neg then Zneg p else Zpos p
let rec dec_n (x : n) : string =
  let q = N.div x (n_of_int 10) and r = int_of_n (N.modulo x (n_of_int 10)) in
  (if q = N0 then "" else dec_n q) ^ string_of_int r

let int_tag = function
  | "i8" -> TTinyInt | "i16" -> TSmallInt | "i32" -> TInt | "i64" -> TBigInt
  | "u8" -> TTinyUnsigned | "u16" -> TSmallUnsigned | "u32" -> TUnsigned | "u64" -> TBigUnsigned
  | _ -> failwith "int tag"

(* ---- every value kind: the model encoding printed by the harness (harness/src/valueenc.rs) ---- *)
let vtag_names = [
  "Bool", TBool; "TinyInt", TTinyInt; "SmallInt", TSmallInt; "Int", TInt; "BigInt", TBigInt;
  "TinyUnsigned", TTinyUnsigned; "SmallUnsigned", TSmallUnsigned; "Unsigned", TUnsigned; "BigUnsigned", TBigUnsigned;
  "Float", TFloat; "Double", TDouble; "String", TString; "Char", TChar; "Bytes", TBytes; "Json", TJson;
  "ChronoDate", TChronoDate; "ChronoTime", TChronoTime; "ChronoDateTime", TChronoDateTime;
  "ChronoDateTimeUtc", TChronoDateTimeUtc; "ChronoDateTimeLocal", TChronoDateTimeLocal;
  "ChronoDateTimeWithTimeZone", TChronoDateTimeWithTimeZone; "TimeDate", TTimeDate; "TimeTime", TTimeTime;
  "TimeDateTime", TTimeDateTime; "TimeDateTimeWithTimeZone", TTimeDateTimeWithTimeZone; "Uuid", TUuid;
  "Decimal", TDecimal; "BigDecimal", TBigDecimal; "Vector", TVector; "IpNetwork", TIpNetwork;
  "MacAddress", TMacAddress ]
let vtag_of_name (s : string) : vtag =
  match List.assoc_opt s vtag_names with Some t -> t | None -> failwith ("variant " ^ s)
let name_of_vtag (t : vtag) : string = fst (List.find (fun (_, t') -> t' = t) vtag_names)
let int_short = function
  | TTinyInt -> "i8" | TSmallInt -> "i16" | TInt -> "i32" | TBigInt -> "i64"
  | TTinyUnsigned -> "u8" | TSmallUnsigned -> "u16" | TUnsigned -> "u32" | TBigUnsigned -> "u64"
  | _ -> failwith "integer payload under a non-integer variant"
let dec_z (x : z) : string =
  match x with
  | Z0 -> "0"
  | Zneg p -> "-" ^ dec_n (Npos p)
  | Zpos p -> dec_n (Npos p)

let rec value_of_enc (e : Sexp.t) : value =
  match e with
  | L [A "b"; A x] -> V (TBool, Some (PBool (x = "1")))
  | L [A "i"; A tag; A z] -> V (int_tag tag, Some (PInt (z_of_string z)))
  | L [A "s"; A h] -> V (TString, Some (PStr (str_of_hex h)))
  | L [A "c"; A h] -> V (TChar, Some (PChar (List.hd (str_of_hex h))))
  | L [A "y"; A h] -> V (TBytes, Some (PBytes (bytes_of_hex h)))
  | L [A "f32"; A bits; A txt] ->
      Hashtbl.replace ftext_tbl (false, hex_of_n (n_of_hex bits)) (str_of_hex txt);
      V (TFloat, Some (PF32 (n_of_hex bits)))
  | L [A "f64"; A bits; A txt] ->
      Hashtbl.replace ftext_tbl (true, hex_of_n (n_of_hex bits)) (str_of_hex txt);
      V (TDouble, Some (PF64 (n_of_hex bits)))
  | L [A "null"; A tag] -> V (vtag_of_name tag, None)
  | L [A "o"; A tag; A oid; A txt] -> V (vtag_of_name tag, Some (POpaque (n_of_dec oid, str_of_hex txt)))
  | L (A "arr" :: A tag :: vs) -> VArray (vtag_of_name tag, Some (List.map value_of_enc vs))
  | L [A "arrnull"; A tag] -> VArray (vtag_of_name tag, None)
  | _ -> failwith "value encoding"

(* inverse of value_of_enc: printed from the value the model returns (bound parameters) *)
let rec enc_value (v : value) : string =
  match v with
  | V (t, None) -> "(null " ^ name_of_vtag t ^ ")"
  | V (t, Some p) ->
      (match p with
       | PBool b -> if b then "(b 1)" else "(b 0)"
       | PInt z -> "(i " ^ int_short t ^ " " ^ dec_z z ^ ")"
       | PF32 bits -> "(f32 " ^ hex_of_n bits ^ " " ^ hex_of_str (ftext false bits) ^ ")"
       | PF64 bits -> "(f64 " ^ hex_of_n bits ^ " " ^ hex_of_str (ftext true bits) ^ ")"
       | PStr s -> "(s " ^ hex_of_str s ^ ")"
       | PChar c -> "(c " ^ hex_of_str [c] ^ ")"
       | PBytes bs -> "(y " ^ hex_of_bytes bs ^ ")"
       | POpaque (oid, txt) -> "(o " ^ name_of_vtag t ^ " " ^ dec_n oid ^ " " ^ hex_of_str txt ^ ")")
  | VArray (t, None) -> "(arrnull " ^ name_of_vtag t ^ ")"
  | VArray (t, Some vs) ->
      "(arr " ^ name_of_vtag t ^ String.concat "" (List.map (fun x -> " " ^ enc_value x) vs) ^ ")"

let value (s : Sexp.t) : value =
  let t = String.split_on_char ':' (atom s) in
  match t with
  | ["v"; _term; enc] -> value_of_enc (Sexp.parse (unhex enc))
  | ["b"; x] -> V (TBool, Some (PBool (x = "1")))
  | ["i"; tag; z] -> V (int_tag tag, Some (PInt (z_of_string z)))
  | ["s"; h] -> V (TString, Some (PStr (str_of_hex h)))
  | ["c"; h] -> V (TChar, Some (PChar (List.hd (str_of_hex h))))
  | ["y"; h] -> V (TBytes, Some (PBytes (bytes_of_hex h)))
  | ["f32"; bits; txt] -> Hashtbl.replace ftext_tbl (false, hex_of_n (n_of_hex bits)) (str_of_hex txt);
                          V (TFloat, Some (PF32 (n_of_hex bits)))
  | ["f64"; bits; txt] -> Hashtbl.replace ftext_tbl (true, hex_of_n (n_of_hex bits)) (str_of_hex txt);
                          V (TDouble, Some (PF64 (n_of_hex bits)))
  | ["n"; tag] ->
      let t = match tag with
        | "b" -> TBool | "f32" -> TFloat | "f64" -> TDouble | "s" -> TString | "c" -> TChar | "y" -> TBytes
        | x -> int_tag x in
      V (t, None)
  | _ -> failwith ("value " ^ atom s)

let show_value (v : value) : string =
  (* the 14 basic variants keep the short form; payload-crate kinds, vectors and arrays print the model
     encoding with `_` for spaces (harness: valueenc::show_bound) *)
  let tagname = function
    | TBool -> Some "b" | TTinyInt -> Some "i8" | TSmallInt -> Some "i16" | TInt -> Some "i32" | TBigInt -> Some "i64"
    | TTinyUnsigned -> Some "u8" | TSmallUnsigned -> Some "u16" | TUnsigned -> Some "u32" | TBigUnsigned -> Some "u64"
    | TFloat -> Some "f32" | TDouble -> Some "f64" | TString -> Some "s" | TChar -> Some "c" | TBytes -> Some "y"
    | _ -> None in
  let underscored s = String.map (fun c -> if c = ' ' then '_' else c) s in
  match v with
  | V (t, p) when tagname t <> None ->
      let tn = (match tagname t with Some x -> x | None -> "") in
      (match p with
       | None -> tn ^ ":N"
       | Some p ->
           tn ^ ":" ^
           (match p with
            | PBool b -> if b then "1" else "0"
            | PInt z -> dec_z z
            | PF32 bits | PF64 bits -> hex_of_n bits
            | PStr s -> hex_of_str s
            | PChar c -> hex_of_str [c]
            | PBytes bs -> hex_of_bytes bs
            | POpaque (_, t) -> hex_of_str t))
  | _ -> underscored (enc_value v)

(* ---- operators / functions by name (same names as harness/src/exprs.rs) ---- *)
let pgops = [| PgILike; PgNotILike; PgMatches; PgContains; PgContained; PgConcatenate; PgOverlap;
  PgSimilarity; PgWordSimilarity; PgStrictWordSimilarity; PgSimilarityDistance; PgWordSimilarityDistance;
  PgStrictWordSimilarityDistance; PgGetJsonField; PgCastJsonField; PgRegex; PgRegexCaseInsensitive;
  PgEuclideanDistance; PgNegativeInnerProduct; PgCosineDistance |]
let slops = [| SlGlob; SlMatch; SlGetJsonField; SlCastJsonField |]
let binop_named (name : string) : binop =
  match name with
  | "and" -> BAnd | "or" -> BOr | "like" -> BLike | "notlike" -> BNotLike | "is" -> BIs | "isnot" -> BIsNot
  | "in" -> BIn | "notin" -> BNotIn | "between" -> BBetween | "notbetween" -> BNotBetween | "eq" -> BEqual
  | "ne" -> BNotEqual | "lt" -> BSmallerThan | "gt" -> BGreaterThan | "le" -> BSmallerThanOrEqual
  | "ge" -> BGreaterThanOrEqual | "add" -> BAdd | "sub" -> BSub | "mul" -> BMul | "div" -> BDiv | "mod" -> BMod
  | "bitand" -> BBitAnd | "bitor" -> BBitOr | "lshift" -> BLShift | "rshift" -> BRShift | "as" -> BAs
  | "escape" -> BEscape
  | "custom" -> BCustom (str_of_hex (hex "~~"))
  | _ ->
      if String.length name > 5 && String.sub name 0 5 = "cust:" then
        BCustom (str_of_hex (String.sub name 5 (String.length name - 5)))
      else if String.sub name 0 2 = "pg" then BPg pgops.(int_of_string (String.sub name 2 (String.length name - 2)))
      else if String.sub name 0 2 = "sl" then BSl slops.(int_of_string (String.sub name 2 (String.length name - 2)))
      else failwith ("binop " ^ name)

let pgfuncs = [| PfToTsquery; PfToTsvector; PfPhrasetoTsquery; PfPlaintoTsquery; PfWebsearchToTsquery; PfTsRank;
  PfTsRankCd; PfStartsWith; PfGenRandomUUID; PfJsonBuildObject; PfJsonAgg; PfArrayAgg; PfDateTrunc; PfAny; PfSome; PfAll |]
let func_named (name : string) : func =
  match name with
  | "max" -> FMax | "min" -> FMin | "sum" -> FSum | "avg" -> FAvg | "abs" -> FAbs | "count" -> FCount
  | "ifnull" -> FIfNull | "greatest" -> FGreatest | "least" -> FLeast | "charlength" -> FCharLength
  | "cast" -> FCast | "coalesce" -> FCoalesce | "lower" -> FLower | "upper" -> FUpper | "bitand" -> FBitAnd
  | "bitor" -> FBitOr | "random" -> FRandom | "round" -> FRound | "md5" -> FMd5
  | _ ->
      if String.length name > 5 && String.sub name 0 5 = "cust:" then
        FCustom (str_of_hex (String.sub name 5 (String.length name - 5)))
      else if String.sub name 0 2 = "pg" then FPg pgfuncs.(int_of_string (String.sub name 2 (String.length name - 2)))
      else failwith ("func " ^ name)

let colref (s : Sexp.t) : colref =
  let l = args s in
  match head s, l with
  | "col", [c] -> CCol (hx c)
  | "col", [t; c] -> CTblCol (hx t, hx c)
  | "col", [sc; t; c] -> CSchTblCol (hx sc, hx t, hx c)
  | "star", _ -> CAsterisk
  | "tstar", [t] -> CTblAsterisk (hx t)
  | _ -> failwith "colref"

let opt_char l = match l with [] -> None | c :: _ -> Some (List.hd (hx c))

let rec expr (s : Sexp.t) : query expr =
  let l = args s in
  match head s with
  | "col" | "star" | "tstar" -> EColumn (colref s)
  | "tuple" -> ETuple (List.map expr l)
  | "not" -> ENot (expr (List.nth l 0))
  | "bin" -> EBinary (expr (List.nth l 1), binop_named (atom (List.nth l 0)), expr (List.nth l 2))
  | "fn" -> EFunc (func_named (atom (List.hd l)), List.map (fun a -> (false, expr a)) (List.tl l))
  | "countdistinct" -> EFunc (FCount, [(true, expr (List.hd l))])
  | "sq" ->
      let op = match atom (List.hd l) with
        | "-" -> None | "exists" -> Some SqExists | "any" -> Some SqAny | "some" -> Some SqSome
        | "all" -> Some SqAll | _ -> failwith "sqop" in
      ESubQuery (op, subquery (List.nth l 1))
  | "val" -> EValue (value (List.hd l))
  | "vals" -> EValues (List.map value l)
  | "cust" -> ECustom (hx (List.hd l))
  | "custw" -> ECustomWith (hx (List.hd l), List.map expr (List.tl l))
  (* Expr::cust_with_values / cust_with_exprs / cust_with_expr build the same node *)
  | "custv" -> ECustomWith (hx (List.hd l), List.map (fun v -> EValue (value v)) (List.tl l))
  | "custe" -> ECustomWith (hx (List.hd l), List.map expr (List.tl l))
  | "custe1" -> (match List.tl l with
                 | [e] -> ECustomWith (hx (List.hd l), [expr e])
                 | _ -> failwith "custe1 takes exactly one expression")
  | "kw" ->
      EKeyword (match atom (List.hd l) with
        | "null" -> KwNull | "cdate" -> KwCurrentDate | "ctime" -> KwCurrentTime | "cts" -> KwCurrentTimestamp
        | x -> KwCustom (str_of_hex (String.sub x 5 (String.length x - 5))))
  | "asenum" -> EAsEnum (hx (List.hd l), expr (List.nth l 1))
  | "case" ->
      let whens = List.filter_map (fun w -> if head w = "w" then
          Some (to_simple_expr (cond_or_expr (List.nth (args w) 0)), expr (List.nth (args w) 1)) else None) l in
      let els = List.fold_left (fun acc w -> if head w = "else" then Some (expr (List.hd (args w))) else acc) None l in
      ECase (whens, els)
  | "const" -> EConstant (value (List.hd l))
  | "between" -> api_between (expr (List.nth l 0)) (expr (List.nth l 1)) (expr (List.nth l 2))
  | "notbetween" -> api_not_between (expr (List.nth l 0)) (expr (List.nth l 1)) (expr (List.nth l 2))
  | "likeapi" -> api_like (expr (List.nth l 0)) (hx (List.nth l 1)) (opt_char (List.tl (List.tl l)))
  | "notlikeapi" -> api_not_like (expr (List.nth l 0)) (hx (List.nth l 1)) (opt_char (List.tl (List.tl l)))
  | "isin" -> api_is_in (expr (List.hd l)) (List.map value (List.tl l))
  | "isnotin" -> api_is_not_in (expr (List.hd l)) (List.map value (List.tl l))
  | "intuples" -> api_in_tuples (expr (List.hd l)) (List.map (fun t -> List.map value (list t)) (List.tl l))
  | "isnull" -> api_is_null (expr (List.hd l))
  | "isnotnull" -> api_is_not_null (expr (List.hd l))
  | "castas" | "fncast" -> api_cast_as (expr (List.nth l 0)) (hx (List.nth l 1))
  | "fncastq" -> api_cast_as_quoted (expr (List.nth l 0)) (hx (List.nth l 1)) (n_of_dec (atom (List.nth l 2)))
  | "andapi" -> EBinary (expr (List.nth l 0), BAnd, expr (List.nth l 1))
  | "orapi" -> EBinary (expr (List.nth l 0), BOr, expr (List.nth l 1))
  | "notapi" -> ENot (expr (List.hd l))
  | "insub" -> api_in_subquery (expr (List.nth l 0)) (select (List.nth l 1))
  | "notinsub" -> EBinary (expr (List.nth l 0), BNotIn, ESubQuery (None, QSelect (select (List.nth l 1))))
  | "exists" -> api_exists (select (List.hd l))
  | h -> failwith ("expr head " ^ h)

and cond (s : Sexp.t) : query cond =
  let l = args s in
  let is_any = match atom (List.hd l) with "any" -> true | "all" -> false | _ -> failwith "cond type" in
  let ops = List.map (fun op ->
    match head op with
    | "add" | "addopt" ->
        let x = List.hd (args op) in
        CAdd (if head x = "cond" then MCond (cond x) else MExpr (expr x))
    | "addnone" -> CAddNone
    | "not" -> CNot
    | _ -> failwith "cond op") (List.tl l) in
  build_cond is_any ops

and condarg (s : Sexp.t) : condarg =
  if head s = "cond" then CACond (cond s) else CAExpr (expr s)
and cond_or_expr (s : Sexp.t) : query cond = into_condition (condarg s)

and tref (s : Sexp.t) : tref =
  let l = args s in
  match head s, l with
  | "t", [t] -> TPlain (TRTable (hx t))
  | "t", [sc; t] -> TPlain (TRSchemaTable (hx sc, hx t))
  | "t", [d; sc; t] -> TPlain (TRDbSchemaTable (hx d, hx sc, hx t))
  | "ta", [a; t] -> TPlain (TRTableAlias (hx t, hx a))
  | "ta", [a; sc; t] -> TPlain (TRSchemaTableAlias (hx sc, hx t, hx a))
  | "ta", [a; d; sc; t] -> TPlain (TRDbSchemaTableAlias (hx d, hx sc, hx t, hx a))
  | "tsub", [q; a] -> TSubQuery (select q, hx a)
  | "tvalues", a :: rows -> TValues (List.map (fun r -> List.map value (args r)) rows, hx a)
  | "tfn", f :: a :: fargs -> TFunc (func_named (atom f), List.map (fun x -> (false, expr x)) fargs, hx a)
  | _ -> failwith "tref"

and order (s : Sexp.t) : order =
  match s with
  | A "asc" -> OAsc | A "desc" -> ODesc
  | _ -> OField (List.map value (args s))
and nulls_of l = match l with [] -> None | x :: _ -> Some (if atom x = "first" then NFirst else NLast)
and orderexpr (l : Sexp.t list) : orderexpr =
  OrderExpr (expr (List.nth l 0), order (List.nth l 1), nulls_of (List.tl (List.tl l)))

and frame (s : Sexp.t) : frame =
  match s with
  | A "up" -> FUnboundedPreceding | A "cur" -> FCurrentRow | A "uf" -> FUnboundedFollowing
  | _ -> (match head s with
          | "pre" -> FPreceding (n_of_int (int_of_string (atom (List.hd (args s)))))
          | "fol" -> FFollowing (n_of_int (int_of_string (atom (List.hd (args s)))))
          | _ -> failwith "frame")

and window (s : Sexp.t) : windowstmt =
  let pb = ref [] and ob = ref [] and fr = ref None in
  List.iter (fun c ->
    let l = args c in
    match head c with
    | "partition" -> pb := !pb @ [expr (List.hd l)]
    | "orderby" -> ob := !ob @ [orderexpr l]
    | "frame" ->
        let ft = if atom (List.hd l) = "rows" then FTRows else FTRange in
        fr := Some ((ft, frame (List.nth l 1)), (match List.tl (List.tl l) with [] -> None | e :: _ -> Some (frame e)))
    | _ -> failwith "window clause") (args s);
  Window (!pb, !ob, !fr)

and jointype s = match atom s with
  | "join" -> JJoin | "cross" -> JCross | "inner" -> JInner | "left" -> JLeft | "right" -> JRight | "full" -> JFull
  | _ -> failwith "jointype"

and withclause (s : Sexp.t) : withclause =
  let recursive = ref false and search = ref None and cycle = ref None and ctes = ref [] in
  List.iter (fun c ->
    let l = args c in
    match head c with
    | "recursive" -> recursive := true
    | "cte" ->
        let mat = match List.tl (List.tl (List.tl l)) with [] -> None | m :: _ -> Some (atom m = "mat") in
        ctes := !ctes @ [Cte (hx (List.nth l 0), List.map hx (args (List.nth l 1)), subquery (List.nth l 2), mat)]
    | "ctefs" ->
        (* CommonTableExpression::from_select; None = no table name (rendering panics on the missing name) *)
        (match cte_from_select (select (List.nth l 0)) with
         | Some (Cte (n, cols, q, _)) ->
             let mat = match List.tl l with [] -> None | m :: _ -> Some (atom m = "mat") in
             ctes := !ctes @ [Cte (n, cols, q, mat)]
         | None -> raise Exit)
    | "search" -> search := Some ((atom (List.nth l 0) = "breadth", expr (List.nth l 1)), hx (List.nth l 2))
    | "cycle" -> cycle := Some ((expr (List.nth l 0), hx (List.nth l 1)), hx (List.nth l 2))
    | _ -> failwith "with clause") (args s);
  WithClause (!recursive, !search, !cycle, !ctes)

and select (s : Sexp.t) : select =
  if head s <> "select" then failwith ("expected select, got " ^ head s);
  let clause c : sclause =
    let l = args c in
    match head c with
    | "distinct" -> SCDistinct
    | "distincton" -> SCDistinctOn (List.map colref l)
    | "col" -> SCSelExpr (SelExpr (EColumn (colref (List.hd l)), None, None))
    | "expr" -> SCSelExpr (SelExpr (expr (List.hd l), None, None))
    | "expras" -> SCSelExpr (SelExpr (expr (List.nth l 0), Some (hx (List.nth l 1)), None))
    | "exprwin" -> SCSelExpr (SelExpr (expr (List.nth l 0), None, Some (WQuery (window (List.nth l 1)))))
    | "exprwinas" -> SCSelExpr (SelExpr (expr (List.nth l 0), Some (hx (List.nth l 2)), Some (WQuery (window (List.nth l 1)))))
    | "exprwinname" -> SCSelExpr (SelExpr (expr (List.nth l 0), None, Some (WName (hx (List.nth l 1)))))
    | "exprwinnameas" -> SCSelExpr (SelExpr (expr (List.nth l 0), Some (hx (List.nth l 2)), Some (WName (hx (List.nth l 1)))))
    | "from" -> SCFrom (tref (List.hd l))
    | "join" -> SCJoin (jointype (List.nth l 0), tref (List.nth l 1), condarg (List.nth l 2), false)
    | "joinlateral" -> SCJoin (jointype (List.nth l 0), TSubQuery (select (List.nth l 1), hx (List.nth l 2)), condarg (List.nth l 3), true)
    | "andwhere" -> SCWhere (CAExpr (expr (List.hd l)))
    | "condwhere" -> SCWhere (CACond (cond (List.hd l)))
    | "andorwhere" -> SCWhereChain (atom (List.hd l) = "or", expr (List.nth l 1))
    | "groupby" -> SCGroupBy (expr (List.hd l))
    | "andhaving" -> SCHaving (CAExpr (expr (List.hd l)))
    | "condhaving" -> SCHaving (CACond (cond (List.hd l)))
    | "union" ->
        let ut = match atom (List.hd l) with "intersect" -> UIntersect | "distinct" -> UDistinct
          | "except" -> UExcept | "all" -> UAll | _ -> failwith "utype" in
        SCUnion (ut, select (List.nth l 1))
    | "orderby" -> SCOrderBy (orderexpr l)
    | "limit" -> SCLimit (n_of_dec (atom (List.hd l)))
    | "offset" -> SCOffset (n_of_dec (atom (List.hd l)))
    | "lock" ->
        let lt = match atom (List.nth l 0) with "update" -> LUpdate | "nokeyupdate" -> LNoKeyUpdate
          | "share" -> LShare | "keyshare" -> LKeyShare | _ -> failwith "locktype" in
        let beh = match List.tl (List.tl l) with [] -> None
          | x :: _ -> Some (if atom x = "nowait" then LNowait else LSkipLocked) in
        SCLock (Lock (lt, List.map tref (args (List.nth l 1)), beh))
    | "window" -> SCWindow (hx (List.nth l 0), window (List.nth l 1))
    | "with" -> SCWith (withclause c)
    | "sample" ->
        let rep = match List.tl (List.tl (List.tl l)) with [] -> None | x :: _ -> Some (hx x) in
        SCSample ((if atom (List.nth l 0) = "bernoulli" then SBernoulli else SSystem), hx (List.nth l 2), rep)
    | "hint" ->
        let ht = match atom (List.nth l 0) with "use" -> HUse | "ignore" -> HIgnore | _ -> HForce in
        let hs = match atom (List.nth l 1) with "join" -> HSJoin | "orderby" -> HSOrderBy | "groupby" -> HSGroupBy | _ -> HSAll in
        SCHint (ht, hs, hx (List.nth l 2))
    | h -> failwith ("select clause " ^ h) in
  build_select (List.map clause (args s))

and returning (s : Sexp.t) : returning =
  let l = args s in
  match atom (List.hd l) with
  | "all" -> RAll
  | "cols" -> RColumns (List.map colref (List.tl l))
  | "exprs" -> RExprs (List.map expr (List.tl l))
  | _ -> failwith "returning"

and onconflict (s : Sexp.t) : onconflict =
  build_onconflict (List.map (fun c ->
    let l = args c in
    match head c with
    | "col" | "cols" -> OCCols (List.map hx l)
    | "texpr" -> OCTExpr (expr (List.hd l))
    | "twhere" -> OCTWhere (expr (List.hd l))
    | "nothing" -> OCNothing
    | "nothingon" -> OCNothingOn (List.map hx l)
    | "updcol" -> OCUpdCol (hx (List.hd l))
    | "updexpr" -> OCUpdExpr (hx (List.nth l 0), expr (List.nth l 1))
    | "awhere" -> OCAWhere (expr (List.hd l))
    | _ -> failwith "onconflict clause") (args s))

and insert_state (s : Sexp.t) : (insert * iobs list) * bool =
  build_insert (List.map (fun c ->
    let l = args c in
    match head c with
    | "replace" -> ICReplace
    | "into" -> ICInto (tref (List.hd l))
    | "columns" -> ICColumns (List.map hx l)
    | "values" | "valuesit" -> ICValues (List.map expr l)
    | "valuespanic" | "valuespanicit" -> ICValuesPanic (List.map expr l)
    | "valuesfrompanic" -> ICValuesFromPanic (List.map (fun r -> List.map expr (args r)) l)
    | "selectfrom" -> ICSelectFrom (select (List.hd l))
    | "ordefault" -> ICOrDefault
    | "ordefaultmany" -> ICOrDefaultMany (n_of_int (int_of_string (atom (List.hd l))))
    | "onconflict" -> ICOnConflict (onconflict c)
    | "returning" -> ICReturning (returning c)
    | "with" -> ICWith (withclause c)
    | h -> failwith ("insert clause " ^ h)) (args s))

and update (s : Sexp.t) : update =
  build_update (List.map (fun c ->
    let l = args c in
    match head c with
    | "table" -> UCTable (tref (List.hd l))
    | "from" -> UCFrom (tref (List.hd l))
    | "value" -> UCValue (hx (List.nth l 0), expr (List.nth l 1))
    | "andwhere" -> UCWhere (CAExpr (expr (List.hd l)))
    | "condwhere" -> UCWhere (CACond (cond (List.hd l)))
    | "andorwhere" -> UCWhereChain (atom (List.hd l) = "or", expr (List.nth l 1))
    | "orderby" -> UCOrderBy (orderexpr l)
    | "limit" -> UCLimit (n_of_dec (atom (List.hd l)))
    | "returning" -> UCReturning (returning c)
    | "with" -> UCWith (withclause c)
    | h -> failwith ("update clause " ^ h)) (args s))

and delete (s : Sexp.t) : delete =
  build_delete (List.map (fun c ->
    let l = args c in
    match head c with
    | "from" -> DCFrom (tref (List.hd l))
    | "andwhere" -> DCWhere (CAExpr (expr (List.hd l)))
    | "condwhere" -> DCWhere (CACond (cond (List.hd l)))
    | "andorwhere" -> DCWhereChain (atom (List.hd l) = "or", expr (List.nth l 1))
    | "orderby" -> DCOrderBy (orderexpr l)
    | "limit" -> DCLimit (n_of_dec (atom (List.hd l)))
    | "returning" -> DCReturning (returning c)
    | "with" -> DCWith (withclause c)
    | h -> failwith ("delete clause " ^ h)) (args s))

and subquery (s : Sexp.t) : query =
  match head s with
  | "select" -> QSelect (select s)
  | "insert" -> let ((i, _), panicked) = insert_state s in if panicked then raise Exit else QInsert i
  | "update" -> QUpdate (update s)
  | "delete" -> QDelete (delete s)
  | "withq" -> QWith (withclause (List.nth (args s) 0), subquery (List.nth (args s) 1))
  | h -> failwith ("subquery " ^ h)

(* ---- rendering ---- *)
let fuel = nat_of_int 40
let more_parens = ref false

let render (b : backend) (q : query) : string =
  let sc = rquery is_alpha_rust b (tables_of !more_parens b) fuel q in
  match emit_inline ftext b sc, emit_params ftext b sc with
  | Ok inl, Ok (sql, vals) ->
      Printf.sprintf "%s %s %s %s" (hex_of_str inl) (hex_of_str sql)
        (if vals = [] then "-" else String.concat "," (List.map show_value vals))
        (if vals = [] then "-" else String.concat "," (List.map (fun v -> hex_of_str (value_to_string ftext b v)) vals))
  | _, _ -> "PANIC"

let show_log (log : iobs list) : string =
  String.concat "," (List.map (function IOk -> "ok"
    | IErr (a, b) -> Printf.sprintf "err(%d,%d)" (int_of_nat a) (int_of_nat b)) log)

let run_stmt (b : backend) (s : Sexp.t) : string =
  try
    match head s with
    | "insert" ->
        let ((i, log), panicked) = insert_state s in
        if panicked then "PANIC" else
        let out = render b (QInsert i) in
        if out = "PANIC" then out else if log = [] then out else out ^ " | " ^ show_log log
    | _ -> render b (subquery s)
  with Exit -> "PANIC"

(* fully parenthesised rendering: same renderer, tables that never drop parentheses *)
let full_tables (b : backend) : etables =
  let t = tables_of false b in
  (* operators, NOT and AsEnum (transparent on MySQL / SQLite: it renders as its inner expression) are always
     parenthesised as operands; atoms (incl. sub-queries and tuples) never *)
  { t with t_drop_paren = (fun sk _ -> not (int_of_n sk < 200 || int_of_n sk = 202 || int_of_n sk = 210)); t_lassoc = (fun _ -> false) }
let run_expr_full (b : backend) (s : Sexp.t) : string =
  try
    let q = QSelect (build_select [SCSelExpr (SelExpr (expr s, None, None))]) in
    let sc = rquery is_alpha_rust b (full_tables b) fuel q in
    (match emit_inline ftext b sc with Ok inl -> hex_of_str inl | Panic -> "PANIC")
  with Exit -> "PANIC"

let run_stmt_full (b : backend) (s : Sexp.t) : string =
  try
    let q = (match head s with
      | "insert" -> let ((i, _), panicked) = insert_state s in if panicked then raise Exit else QInsert i
      | _ -> subquery s) in
    let sc = rquery is_alpha_rust b (full_tables b) fuel q in
    (match emit_inline ftext b sc with Ok inl -> hex_of_str inl | Panic -> "PANIC")
  with Exit -> "PANIC"

(* the decidable separability premise of the text-level theorems (Spec/EngScript.v), evaluated on the script the
   model renders for this program: P = params_sep, I = inline_sep (engine lexer), C = crate_sep (the crate's tokenizer) *)
let run_sep (b : backend) (s : Sexp.t) : string =
  try
    let q = (match head s with
      | "insert" -> let ((i, _), panicked) = insert_state s in if panicked then raise Exit else QInsert i
      | "select" | "update" | "delete" | "withq" -> subquery s
      | _ -> QSelect (build_select [SCSelExpr (SelExpr (expr s, None, None))])) in
    let sc = rquery is_alpha_rust b (tables_of !more_parens b) fuel q in
    (match emit_params ftext b sc with
     | Panic -> "PANIC"
     | Ok _ -> Printf.sprintf "P%d I%d C%d Q%d R%d" (if params_sep ftext b sc then 1 else 0) (if inline_sep ftext b sc then 1 else 0)
                 (if crate_sep is_alpha_rust ftext b sc then 1 else 0)
                 (* Q / R: the statement is in the syntactic class query_plain for which the premises are PROVED
                    (parameterised / inline mode) *)
                 (if query_plain ftext b false fuel q then 1 else 0) (if query_plain ftext b true fuel q then 1 else 0))
  with Exit -> "PANIC"

(* diagnostic: the first piece (from the end) whose text does not lex alone or whose seam is unsafe *)
let run_sepdbg (b : backend) (s : Sexp.t) : string =
  try
    let q = (match head s with
      | "insert" -> let ((i, _), panicked) = insert_state s in if panicked then raise Exit else QInsert i
      | "select" | "update" | "delete" | "withq" -> subquery s
      | _ -> QSelect (build_select [SCSelExpr (SelExpr (expr s, None, None))])) in
    let sc = rquery is_alpha_rust b (tables_of !more_parens b) fuel q in
    let ps = pieces ftext b sc in
    let diag texts =
      let rec suffixes l = match l with [] -> [[]] | _ :: t -> l :: suffixes t in
      let sufs = List.rev (suffixes texts) in
      let rec find = function
        | [] -> "ok"
        | l :: rest -> (match lex_texts b l with
            | Some _ -> find rest
            | None -> (match l with
                | h :: t -> Printf.sprintf "piece=%s next=%s" (hex_of_str h) (hex_of_str (List.concat t))
                | [] -> "?")) in
      find sufs in
    let cdiag texts =
      let rec suffixes l = match l with [] -> [[]] | _ :: t -> l :: suffixes t in
      let sufs = List.rev (suffixes texts) in
      let rec find = function
        | [] -> "ok"
        | l :: rest -> (match clex_texts is_alpha_rust l with
            | Some _ -> find rest
            | None -> (match l with
                | h :: t -> Printf.sprintf "piece=%s next=%s" (hex_of_str h) (hex_of_str (List.concat t))
                | [] -> "?")) in
      find sufs in
    Printf.sprintf "P[%s] I[%s] C[%s]" (diag (texts_params b ps)) (diag (texts_inline ftext b (vals_of sc) ps)) (cdiag (texts_params b ps))
  with Exit -> "PANIC"

let run_entry (b : backend) (s : Sexp.t) : string =
  (* the model is one pure function: every entry point is the same rendering *)
  try
    let q = subquery s in
    let sc = rquery is_alpha_rust b (tables_of !more_parens b) fuel q in
    (match emit_inline ftext b sc with Ok _ -> "OK" | Panic -> "PANIC")
  with Exit -> "PANIC"

let run_inject (b : backend) (s : Sexp.t) : string =
  try
    let q = (match head s with
      | "select" | "insert" | "update" | "delete" | "withq" -> subquery s
      | _ -> QSelect (build_select [SCSelExpr (SelExpr (expr s, None, None))])) in
    let sc = rquery is_alpha_rust b (tables_of !more_parens b) fuel q in
    (match emit_inline ftext b sc, emit_params ftext b sc with
     | Ok inl, Ok (sql, vals) ->
         (match inject_parameters ftext is_alpha_rust b sql vals with
          | Ok inj -> Printf.sprintf "%s %s" (hex_of_str inj) (hex_of_str inl)
          | Panic -> "PANIC")
     | _, _ -> "PANIC")
  with Exit -> "PANIC"

let run_expr (b : backend) (s : Sexp.t) : string =
  try render b (QSelect (build_select [SCSelExpr (SelExpr (expr s, None, None))]))
  with Exit -> "PANIC"
