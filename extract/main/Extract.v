(* Extraction of the executable model. ExtrOcamlBasic only: bool/option/unit/list/prod/sumbool
   map to OCaml natives; N, Z, positive, nat stay as extracted inductives. *)
Require Import ExtrOcamlBasic.
Require Import SQV.Model.Str SQV.Model.Escape SQV.Model.Token SQV.Generated.Alpha
  SQV.Model.Literal SQV.Model.LitPos SQV.Spec.EngLex SQV.Spec.LitOracle SQV.Spec.EngTok.
Extraction Language OCaml.
Set Extraction KeepSingleton.
Extraction "model.ml"
  escape_string unescape_string dec_of_Z
  tokenize unquote text is_alpha_rust
  lit_render lit_template decode_strings_at decode_bytes_at eng_lex_ident iden_prepare quote_char eng_tokens idents_of.
