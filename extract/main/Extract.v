(* Extraction of the executable model. ExtrOcamlBasic only: bool/option/unit/list/prod/sumbool
   map to OCaml natives; N, Z, positive, nat stay as extracted inductives. *)
Require Import ExtrOcamlBasic.
Require Import SQV.Model.Str SQV.Model.Escape SQV.Model.Token SQV.Generated.Alpha
  SQV.Model.Literal SQV.Model.LitPos SQV.Spec.EngLex SQV.Spec.LitOracle SQV.Spec.LitArrayOracle SQV.Spec.EngTok
  SQV.Model.Value SQV.Model.Expr SQV.Model.Cond SQV.Model.Stmt SQV.Model.Build SQV.Model.Writer SQV.Model.LitValue
  SQV.Model.RenderExpr SQV.Model.RenderStmt SQV.Model.ExprTablesInst SQV.Model.Inject
  SQV.Spec.EngBoundary SQV.Proofs.WriterProofs SQV.Spec.EngScript SQV.Spec.CrateSeam SQV.Proofs.StmtSafeProofs.
Extraction Language OCaml.
Set Extraction KeepSingleton.
Extraction "model.ml"
  escape_string unescape_string dec_of_Z
  tokenize unquote text is_alpha_rust
  lit_render lit_render_value lit_template decode_strings_at decode_bytes_at decode_string_array_at decode_bytes_array_at array_close
  eng_lex_ident iden_prepare quote_char eng_tokens idents_of
  rquery rexpr emit_inline emit_params value_to_string tables_of build_select build_insert build_update build_delete
  build_cond build_onconflict into_condition api_between api_not_between api_like api_not_like api_is_in
  api_is_not_in api_in_tuples api_is_null api_is_not_null api_cast_as api_cast_as_quoted api_in_subquery api_exists
  to_simple_expr expr_into_condition inject_parameters
  cte_from_select query_plain params_sep inline_sep crate_sep texts_params texts_inline pieces vals_of lex_texts clex_texts.
