(* model.exe <casefile>: one output line per case, same protocol as sqv-harness *)
open Model
open Util

let lpos_of = function
  | "valstr" -> PValStr | "val" -> PVal | "const" -> PConst | "field" -> PField | "likeesc" -> PLikeEsc
  | "default" -> PDefault | "tcomment" -> PTComment | "ccomment" -> PCComment | "enum" -> PEnum
  | "typecreate" -> PTypeCreate | "typeadd" -> PTypeAdd | "typeaddbefore" -> PTypeAddBefore
  | "typerenval" -> PTypeRenVal | _ -> failwith "lpos"

let lkinds_of kind payload =
  List.map (fun h -> match kind with
    | "s" -> KStr (str_of_hex h)
    | "c" -> (match str_of_hex h with [c] -> KChar c | _ -> failwith "char")
    | "y" -> KBytes (bytes_of_hex h)
    | _ -> failwith "kind") (String.split_on_char '.' payload)

let res_str = function Ok s -> hex_of_str s | Panic -> "PANIC"

let show_etok = function
  | TkId s -> "I" ^ hex_of_str s
  | TkStr s -> "S" ^ hex_of_str s
  | TkBytes bs -> "Y" ^ hex_of_bytes bs
  | TkWord s -> "W" ^ hex_of_str s
  | TkNum s -> "N" ^ hex_of_str s
  | TkParam n -> "P" ^ string_of_int (int_of_n n)
  | TkOp s -> "O" ^ hex_of_str s
  | TkPunct c -> "C" ^ hex_of_str [c]

let dispatch (t : string list) : string =
  match t with
  | "expr" :: b :: rest -> Cases.run_expr (backend_of b) (Sexp.parse (String.concat " " rest))
  | "stmtfull" :: b :: rest -> Cases.run_stmt_full (backend_of b) (Sexp.parse (String.concat " " rest))
  | "exprfull" :: b :: rest -> Cases.run_expr_full (backend_of b) (Sexp.parse (String.concat " " rest))
  | "inject" :: b :: rest -> Cases.run_inject (backend_of b) (Sexp.parse (String.concat " " rest))
  | "entry" :: b :: rest -> Cases.run_entry (backend_of b) (Sexp.parse (String.concat " " rest))
  | "sepdbg" :: b :: rest -> Cases.run_sepdbg (backend_of b) (Sexp.parse (String.concat " " rest))
  | "sep" :: b :: rest -> Cases.run_sep (backend_of b) (Sexp.parse (String.concat " " rest))
  | "stmt" :: b :: rest -> Cases.run_stmt (backend_of b) (Sexp.parse (String.concat " " rest))
  | ["etok"; b; h] ->
      (match eng_tokens (backend_of b) (str_of_hex h) with
       | None -> "LEXFAIL"
       | Some ts -> String.concat " " (List.map show_etok ts) ^ " .")
  | ["idprep"; b; h] -> hex_of_str (iden_prepare (quote_char (backend_of b)) (str_of_hex h))
  | ["lit"; b; pos; "v"; payload] ->
      (* any Value at a value position: payload = <hex of value term>:<hex of model encoding> *)
      (match String.split_on_char ':' payload with
       | [_; enc] ->
           res_str (lit_render_value Cases.ftext (backend_of b) (lpos_of pos)
                      (Cases.value_of_enc (Sexp.parse (unhex enc))))
       | _ -> failwith "lit v payload")
  | ["declit"; b; pos; ("as" | "ay" as kind); stmt] ->
      (* array of string / char literals (as) or of byte-string literals (ay) at a value position *)
      let b = backend_of b in
      (match lit_template b (lpos_of pos) with
       | None -> "NO-TEMPLATE"
       | Some ((pre, _), suf) ->
           let stmt = str_of_hex stmt in
           let suf = array_close @ suf in
           if kind = "ay" then
             (match decode_bytes_array_at b pre stmt with
              | None -> "NOT-A-LITERAL"
              | Some (bss, rest) ->
                  Printf.sprintf "%s %s %s" (String.concat "." (List.map hex_of_bytes bss)) (hex_of_str rest) (hex_of_str suf))
           else
             (match decode_string_array_at b pre stmt with
              | None -> "NOT-A-LITERAL"
              | Some (ss, rest) ->
                  Printf.sprintf "%s %s %s" (String.concat "." (List.map hex_of_str ss)) (hex_of_str rest) (hex_of_str suf)))
  | ["lit"; b; pos; kind; payload] ->
      res_str (lit_render (backend_of b) (lpos_of pos) (lkinds_of kind payload))
  | ["declit"; b; pos; kind; stmt] ->
      let b = backend_of b in
      (match lit_template b (lpos_of pos) with
       | None -> "NO-TEMPLATE"
       | Some ((pre, sep), suf) ->
           let stmt = str_of_hex stmt in
           if kind = "y" then
             (match decode_bytes_at b pre stmt with
              | None -> "NOT-A-LITERAL"
              | Some (bs, rest) -> Printf.sprintf "%s %s %s" (hex_of_bytes bs) (hex_of_str rest) (hex_of_str suf))
           else
             (match decode_strings_at b pre sep stmt with
              | None -> "NOT-A-LITERAL"
              | Some (ss, rest) ->
                  Printf.sprintf "%s %s %s" (String.concat "." (List.map hex_of_str ss)) (hex_of_str rest) (hex_of_str suf)))
  | ["esc"; b; h] ->
      let b = backend_of b and s = str_of_hex h in
      let e = escape_string b s in
      Printf.sprintf "%s %s %s" (hex_of_str e) (hex_of_str (unescape_string b e))
        (hex_of_str (unescape_string b s))
  | ["tok"; h] ->
      let s = str_of_hex h in
      (match tokenize is_alpha_rust s with
       | None -> "OUT-OF-FUEL"
       | Some ts ->
           let b = Buffer.create 64 in
           List.iter (fun t ->
             let k = match t with Quoted _ -> 'Q' | Unquoted _ -> 'U' | Space _ -> 'S' | Punct _ -> 'P' in
             Buffer.add_char b k;
             Buffer.add_string b (hex_of_str (text t));
             (match unquote t with Some u -> Buffer.add_char b '/'; Buffer.add_string b (hex_of_str u) | None -> ());
             Buffer.add_char b ' ') ts;
           Buffer.add_char b '.';
           Buffer.contents b)
  | op :: _ -> "UNKNOWN-OP " ^ op
  | [] -> ""

let () =
  let argi = if Sys.argv.(1) = "--more-parens" then (Cases.more_parens := true; 2) else 1 in
  let ic = open_in Sys.argv.(argi) in
  let out = Buffer.create 65536 in
  (try
     while true do
       let line = String.trim (input_line ic) in
       if line <> "" && line.[0] <> '#' then begin
         let t = String.split_on_char ' ' line in
         Buffer.add_string out (try dispatch t with Stack_overflow -> "MODEL-EXN stack" | e -> "MODEL-EXN " ^ Printexc.to_string e);
         Buffer.add_char out '\n';
         if Buffer.length out > 60000 then (print_string (Buffer.contents out); Buffer.clear out)
       end
     done
   with End_of_file -> ());
  print_string (Buffer.contents out)
