(* Extraction of the C19 model (derive naming). ExtrOcamlBasic only. *)
Require Import ExtrOcamlBasic.
Require Import SQV.Model.Str SQV.Model.Escape SQV.Model.Literal SQV.Model.Derive.
Extraction Language OCaml.
Set Extraction KeepSingleton.
Extraction "model.ml"
  escape_string dec_of_Z general_prepare snake_case pascal_case must_be_valid_iden
  unquoted as_str derived_prepare has_fast_prepare enum_def_variant_ident ty_ident unraw.
