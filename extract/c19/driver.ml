(* c19.exe <casefile>: the C19 model on a description of generated type definitions.
   lines:
     type <tid> enum|senum <ident> <attrs> <variant>*     variant = <ident>:<fields>:<attrs>
     type <tid> unit|sunit <ident> <attrs>
     type <tid> edef <ident> <prefix> <suffix> <table_name> <field>*      (option: ~ = absent)
     meth <tid> <method> <returned text>
     q <tid> <value>                                        value = u | <i> | <i>/<tid>:<value>
     snake <s> | pascal <s> | valid <s>
   strings are hex of UTF-8 (- = empty). One output line per q/snake/pascal/valid line. *)
open Model
open Util

type tinfo = { def : tydef; static : bool; is_edef : bool }
let types : (string, tinfo) Hashtbl.t = Hashtbl.create 64
let methods : (string * string, n list) Hashtbl.t = Hashtbl.create 64

let split1 c s =
  match String.index_opt s c with
  | None -> (s, None)
  | Some i -> (String.sub s 0 i, Some (String.sub s (i + 1) (String.length s - i - 1)))

let nested_of (s : string) =
  match s.[0] with
  | 'f' -> NFlatten
  | 'r' -> NRename (str_of_hex (String.sub s 1 (String.length s - 1)))
  | 'm' -> NMethod (str_of_hex (String.sub s 1 (String.length s - 1)))
  | _ -> failwith "nested"

let attr_of (s : string) =
  let rest = String.sub s 1 (String.length s - 1) in
  match s.[0] with
  | 'E' -> MIdenEq (str_of_hex rest)
  | 'M' -> MMethodEq (str_of_hex rest)
  | 'L' -> MIdenList (if rest = "" then [] else List.map nested_of (String.split_on_char '+' rest))
  | _ -> failwith "attr"

let attrs_of (s : string) = if s = "-" then [] else List.map attr_of (String.split_on_char ',' s)

let fields_of (s : string) =
  match s.[0] with
  | 'u' -> FUnit
  | 't' -> FUnnamed (nat_of_int (int_of_string (String.sub s 1 (String.length s - 1))))
  | 'n' -> FNamed (nat_of_int (int_of_string (String.sub s 1 (String.length s - 1))))
  | _ -> failwith "fields"

let variant_of (s : string) =
  match String.split_on_char ':' s with
  | [i; f; a] -> { v_ident = str_of_hex i; v_fields = fields_of f; v_attrs = attrs_of a }
  | _ -> failwith "variant"

let opt_of (s : string) = if s = "~" then None else Some (str_of_hex s)

let rec parse_value (tid : string) (s : string) : tydef * value =
  let t = (Hashtbl.find types tid).def in
  if s = "u" then (t, VUnit) else
  match split1 '/' s with
  | (i, None) -> (t, VVariant (nat_of_int (int_of_string i), None))
  | (i, Some rest) ->
      (match split1 ':' rest with
       | (tid', Some v') -> (t, VVariant (nat_of_int (int_of_string i), Some (parse_value tid' v')))
       | _ -> failwith "value")

let menv (ty : n list) (m : n list) : n list =
  match Hashtbl.find_opt methods (hex_of_str ty, hex_of_str m) with Some r -> r | None -> []

let sopt = function Some s -> hex_of_str s | None -> "~"

let dispatch (t : string list) : string option =
  match t with
  | "type" :: tid :: kind :: ident :: rest ->
      let ident = str_of_hex ident in
      (match kind, rest with
       | ("enum" | "senum"), attrs :: vs ->
           Hashtbl.replace types tid
             { def = DEnum (ident, attrs_of attrs, List.map variant_of vs); static = (kind = "senum"); is_edef = false }
       | ("unit" | "sunit"), [attrs] ->
           Hashtbl.replace types tid { def = DUnit (ident, attrs_of attrs); static = (kind = "sunit"); is_edef = false }
       | "edef", p :: s :: tn :: fs ->
           Hashtbl.replace types tid
             { def = DEnumDef ({ ed_prefix = opt_of p; ed_suffix = opt_of s; ed_table_name = opt_of tn }, ident,
                               List.map str_of_hex fs); static = true; is_edef = true }
       | _ -> failwith "type line");
      None
  | ["meth"; tid; m; r] ->
      let ti = Hashtbl.find types tid in
      Hashtbl.replace methods (hex_of_str (ty_ident ti.def), m) (str_of_hex r);
      None
  | ["q"; tid; v] ->
      let ti = Hashtbl.find types tid in
      let (t, v) = parse_value tid v in
      (match unquoted menv t v with
       | None -> Some "NONE"
       | Some name ->
           let mk l r = { q_left = n_of_int l; q_right = n_of_int r } in
           let bt = mk 96 96 and dq = mk 34 34 and br = mk 91 93 in
           let dbg = match t, v with
             | DEnumDef (_, _, fs), VVariant (i, _) -> sopt (enum_def_variant_ident fs i)
             | _ -> "~" in
           Some (String.concat " "
             [ hex_of_str name;
               sopt (derived_prepare menv bt t v); sopt (derived_prepare menv dq t v);
               sopt (derived_prepare menv br t v);
               hex_of_str (general_prepare bt name); hex_of_str (general_prepare dq name);
               hex_of_str (general_prepare br name);
               (if ti.static then sopt (as_str menv t v) else "~");
               dbg; hex_of_str (unraw (ty_ident t));   (* std::any::type_name shows no r# *)
               (if has_fast_prepare t then "fast" else "general") ]))
  | ["snake"; h] -> Some (hex_of_str (snake_case (str_of_hex h)))
  | ["pascal"; h] -> Some (hex_of_str (pascal_case (str_of_hex h)))
  | ["valid"; h] -> Some (if must_be_valid_iden (str_of_hex h) then "1" else "0")
  | op :: _ -> Some ("UNKNOWN-OP " ^ op)
  | [] -> None

let () =
  let ic = open_in Sys.argv.(1) in
  let out = Buffer.create 65536 in
  (try
     while true do
       let line = String.trim (input_line ic) in
       if line <> "" && line.[0] <> '#' then begin
         let t = String.split_on_char ' ' line in
         (match (try dispatch t with Stack_overflow -> Some "MODEL-EXN stack"
                                    | e -> Some ("MODEL-EXN " ^ Printexc.to_string e)) with
          | Some s -> Buffer.add_string out s; Buffer.add_char out '\n'
          | None -> ());
         if Buffer.length out > 60000 then (print_string (Buffer.contents out); Buffer.clear out)
       end
     done
   with End_of_file -> ());
  print_string (Buffer.contents out)
