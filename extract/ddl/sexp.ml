(* s-expression reader for the case language *)
type t = A of string | L of t list

let parse (s : string) : t =
  let n = String.length s in
  let toks = ref [] in
  let buf = Buffer.create 16 in
  let flush () = if Buffer.length buf > 0 then (toks := Buffer.contents buf :: !toks; Buffer.clear buf) in
  for i = 0 to n - 1 do
    match s.[i] with
    | '(' -> flush (); toks := "(" :: !toks
    | ')' -> flush (); toks := ")" :: !toks
    | ' ' | '\t' | '\n' | '\r' -> flush ()
    | c -> Buffer.add_char buf c
  done;
  flush ();
  let toks = Array.of_list (List.rev !toks) in
  let i = ref 0 in
  let rec go () =
    let t = toks.(!i) in
    incr i;
    if t = "(" then begin
      let l = ref [] in
      while toks.(!i) <> ")" do l := go () :: !l done;
      incr i;
      L (List.rev !l)
    end else A t in
  let r = go () in
  if !i <> Array.length toks then failwith "trailing tokens";
  r

let atom = function A a -> a | L _ -> failwith "expected atom"
let list = function L l -> l | A a -> failwith ("expected list, got " ^ a)
let head s = atom (List.hd (list s))
let args s = List.tl (list s)
