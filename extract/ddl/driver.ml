(* ddl.exe <casefile>: one output line per case, same protocol as sqv-harness (ops ddl, etok) *)
open Model
open Util

let show_etok = function
  | TkId s -> "I" ^ hex_of_str s
  | TkStr s -> "S" ^ hex_of_str s
  | TkBytes bs -> "Y" ^ hex_of_bytes bs
  | TkWord s -> "W" ^ hex_of_str s
  | TkNum s -> "N" ^ hex_of_str s
  | TkParam n -> "P" ^ string_of_int (int_of_n n)
  | TkOp s -> "O" ^ hex_of_str s
  | TkPunct c -> "C" ^ hex_of_str [c]

let dispatch (t : string list) : string =
  match t with
  | "ddl" :: b :: rest -> Bddl.run_ddl (backend_of b) (Sexp.parse (String.concat " " rest))
  | ["etok"; b; h] ->
      (match eng_tokens (backend_of b) (str_of_hex h) with
       | None -> "LEXFAIL"
       | Some ts -> String.concat " " (List.map show_etok ts) ^ " .")
  | op :: _ -> "UNKNOWN-OP " ^ op
  | [] -> ""

let () =
  let ic = open_in Sys.argv.(1) in
  let out = Buffer.create 65536 in
  (try
     while true do
       let line = String.trim (input_line ic) in
       if line <> "" && line.[0] <> '#' then begin
         let t = String.split_on_char ' ' line in
         Buffer.add_string out (try dispatch t with Stack_overflow -> "MODEL-EXN stack" | e -> "MODEL-EXN " ^ Printexc.to_string e);
         Buffer.add_char out '\n';
         if Buffer.length out > 60000 then (print_string (Buffer.contents out); Buffer.clear out)
       end
     done
   with End_of_file -> ());
  print_string (Buffer.contents out)
