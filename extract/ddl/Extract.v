(* Extraction of the executable schema statement model (properties C13, C14): the shared expression
   and statement model of extract/main plus Schema.v / RenderDDL.v. ExtrOcamlBasic only. *)
Require Import ExtrOcamlBasic.
Require Import SQV.Model.Str SQV.Model.Escape SQV.Model.Token SQV.Generated.Alpha
  SQV.Model.Literal SQV.Spec.EngTok
  SQV.Model.Value SQV.Model.Expr SQV.Model.Cond SQV.Model.Stmt SQV.Model.Build SQV.Model.Writer
  SQV.Model.RenderExpr SQV.Model.RenderStmt SQV.Model.ExprTablesInst SQV.Model.Inject
  SQV.Model.Schema SQV.Model.RenderDDL
  SQV.Spec.EngBoundary SQV.Proofs.WriterProofs SQV.Spec.EngScript SQV.Spec.CrateSeam SQV.Proofs.StmtSafeProofs.
Extraction Language OCaml.
Set Extraction KeepSingleton.
Extraction "model.ml"
  escape_string unescape_string dec_of_Z
  tokenize unquote text is_alpha_rust
  iden_prepare quote_char eng_tokens
  rquery rexpr emit_inline emit_params value_to_string tables_of build_select build_insert build_update build_delete
  build_cond build_onconflict into_condition api_between api_not_between api_like api_not_like api_is_in
  api_is_not_in api_in_tuples api_is_null api_is_not_null api_cast_as api_cast_as_quoted api_in_subquery api_exists
  to_simple_expr expr_into_condition inject_parameters
  cte_from_select query_plain params_sep inline_sep crate_sep texts_params texts_inline pieces vals_of lex_texts clex_texts
  rddl build_coldef build_index build_fk build_tablecreate build_tablealter build_tabledrop build_indexdrop
  build_fkdrop build_typecreate build_typedrop build_typealter build_extcreate build_extdrop type_text.
