(* interpretation of the schema statement case language into the extracted model's AST
   (mirror of harness/src/ddl.rs) *)
open Model
open Util
open Sexp
open Cases

let n_of_dec_s (s : Sexp.t) : n = n_of_dec (atom s)

let intervals = [| IvYear; IvMonth; IvDay; IvHour; IvMinute; IvSecond; IvYearToMonth; IvDayToHour; IvDayToMinute;
  IvDayToSecond; IvHourToMinute; IvHourToSecond; IvMinuteToSecond |]

let rec coltype (s : Sexp.t) : coltype =
  match s with
  | A x ->
      (match x with
       | "text" -> CTText | "blob" -> CTBlob | "tinyint" -> CTTinyInteger | "smallint" -> CTSmallInteger
       | "int" -> CTInteger | "bigint" -> CTBigInteger | "utinyint" -> CTTinyUnsigned
       | "usmallint" -> CTSmallUnsigned | "uint" -> CTUnsigned | "ubigint" -> CTBigUnsigned
       | "float" -> CTFloat | "double" -> CTDouble | "datetime" -> CTDateTime | "timestamp" -> CTTimestamp
       | "timestamptz" -> CTTimestampWithTimeZone | "time" -> CTTime | "date" -> CTDate | "year" -> CTYear
       | "boolean" -> CTBoolean | "json" -> CTJson | "jsonb" -> CTJsonBinary | "uuid" -> CTUuid
       | "cidr" -> CTCidr | "inet" -> CTInet | "macaddr" -> CTMacAddr | "ltree" -> CTLTree
       | _ -> failwith ("coltype atom " ^ x))
  | L _ ->
      let l = args s in
      let strlen l = match l with [] -> SLNone | x :: _ -> if atom x = "max" then SLMax else SLN (n_of_dec_s x) in
      let pair l = match l with [] -> None | [p; q] -> Some (n_of_dec_s p, n_of_dec_s q) | _ -> failwith "pair" in
      let opt l = match l with [] -> None | x :: _ -> Some (n_of_dec_s x) in
      (match head s with
       | "char" -> CTChar (opt l)
       | "string" -> CTString (strlen l)
       | "decimal" -> CTDecimal (pair l)
       | "interval" ->
           let f = List.nth l 0 and p = List.nth l 1 in
           CTInterval ((if atom f = "-" then None else Some intervals.(int_of_string (atom f))),
                       (if atom p = "-" then None else Some (n_of_dec_s p)))
       | "binary" -> CTBinary (n_of_dec_s (List.hd l))
       | "varbinary" -> CTVarBinary (strlen l)
       | "bit" -> CTBit (opt l)
       | "varbit" -> CTVarBit (n_of_dec_s (List.hd l))
       | "money" -> CTMoney (pair l)
       | "custom" -> CTCustom (hx (List.hd l))
       | "enum" -> CTEnum (hx (List.hd l), List.map hx (List.tl l))
       | "array" -> CTArray (coltype (List.hd l))
       | "vector" -> CTVector (opt l)
       | h -> failwith ("coltype " ^ h))

let colspec (sp : Sexp.t) : colspec =
  let p = args sp in
  match head sp with
  | "null" -> CSNull | "notnull" -> CSNotNull
  | "default" -> CSDefault (expr (List.hd p))
  | "autoinc" -> CSAutoIncrement | "unique" -> CSUniqueKey | "pk" -> CSPrimaryKey
  | "check" -> CSCheck (expr (List.hd p))
  | "generated" -> CSGenerated (expr (List.nth p 0), atom (List.nth p 1) = "stored")
  | "extra" -> CSExtra (hx (List.hd p))
  | "comment" -> CSComment (hx (List.hd p))
  | "using" -> CSUsing (expr (List.hd p))
  | h -> failwith ("colspec " ^ h)

let coldef (s : Sexp.t) : coldef =
  if head s <> "cd" then failwith "expected cd";
  match args s with
  | name :: ty :: specs ->
      let ty = (match ty with A "-" -> None | t -> Some (coltype t)) in
      build_coldef (hx name) ty (List.map colspec specs)
  | _ -> failwith "cd arity"

let index_create (s : Sexp.t) : indexcreate =
  build_index (List.map (fun c ->
    let l = args c in
    match head c with
    | "name" -> IXName (hx (List.hd l))
    | "table" -> IXTable (tref (List.hd l))
    | "col" ->
        let prefix = (match atom (List.nth l 1) with "-" -> None | d -> Some (n_of_dec d)) in
        let order = (match atom (List.nth l 2) with "-" -> None | "asc" -> Some IOAsc | "desc" -> Some IODesc
                     | _ -> failwith "index order") in
        IXCol { ic_name = hx (List.nth l 0); ic_prefix = prefix; ic_order = order }
    | "primary" -> IXPrimary | "unique" -> IXUnique | "nnd" -> IXNullsNotDistinct
    | "fulltext" -> IXIndexType ITFullText
    | "itype" ->
        IXIndexType (match List.hd l with
          | A "btree" -> ITBTree | A "hash" -> ITHash | A "fulltext" -> ITFullText
          | A _ -> failwith "itype"
          | L _ as c -> ITCustom (hx (List.hd (args c))))
    | "include" -> IXInclude (hx (List.hd l))
    | "ifnotexists" -> IXIfNotExists
    | "andwhere" -> IXWhere (CAExpr (expr (List.hd l)))
    | "condwhere" -> IXWhere (CACond (cond (List.hd l)))
    | h -> failwith ("index clause " ^ h)) (args s))

let fk_action (s : Sexp.t) : fkaction =
  match atom s with
  | "restrict" -> FKRestrict | "cascade" -> FKCascade | "setnull" -> FKSetNull | "noaction" -> FKNoAction
  | "setdefault" -> FKSetDefault | _ -> failwith "fk action"

let fk_create (s : Sexp.t) : tablefk =
  build_fk (List.map (fun c ->
    let l = args c in
    match head c with
    | "name" -> FKName (hx (List.hd l))
    | "fromtbl" -> FKFromTbl (tref (List.hd l))
    | "totbl" -> FKToTbl (tref (List.hd l))
    | "fromcol" -> FKFromCol (hx (List.hd l))
    | "tocol" -> FKToCol (hx (List.hd l))
    | "ondelete" -> FKOnDelete (fk_action (List.hd l))
    | "onupdate" -> FKOnUpdate (fk_action (List.hd l))
    | h -> failwith ("fk clause " ^ h)) (args s))

let typeref (s : Sexp.t) : typeref =
  match args s with
  | [a] -> TyType (hx a)
  | [a; b] -> TySchemaType (hx a, hx b)
  | [a; b; c] -> TyDbSchemaType (hx a, hx b, hx c)
  | _ -> failwith "typeref arity"

let ddl (s : Sexp.t) : ddl =
  match head s with
  | "tcreate" ->
      DTableCreate (build_tablecreate (List.map (fun c ->
        let l = args c in
        match head c with
        | "table" -> TCTable (tref (List.hd l))
        | "ifnotexists" -> TCIfNotExists
        | "temporary" -> TCTemporary
        | "comment" -> TCComment (hx (List.hd l))
        | "extra" -> TCExtra (hx (List.hd l))
        | "engine" -> TCOpt (TOEngine (hx (List.hd l)))
        | "collate" -> TCOpt (TOCollate (hx (List.hd l)))
        | "charset" -> TCOpt (TOCharacterSet (hx (List.hd l)))
        | "col" -> TCCol (coldef (List.hd l))
        | "check" -> TCCheck (expr (List.hd l))
        | "index" -> TCIndex (index_create (List.hd l))
        | "pk" -> TCPrimaryKey (index_create (List.hd l))
        | "fk" -> TCForeignKey (fk_create (List.hd l))
        | h -> failwith ("tcreate clause " ^ h)) (args s)))
  | "talter" ->
      DTableAlter (build_tablealter (List.map (fun c ->
        let l = args c in
        match head c with
        | "table" -> TATable (tref (List.hd l))
        | "addcol" -> TAOption (AOAddColumn (coldef (List.hd l), false))
        | "addcoline" -> TAOption (AOAddColumn (coldef (List.hd l), true))
        | "modcol" -> TAOption (AOModifyColumn (coldef (List.hd l)))
        | "rencol" -> TAOption (AORenameColumn (hx (List.nth l 0), hx (List.nth l 1)))
        | "dropcol" -> TAOption (AODropColumn (hx (List.hd l)))
        | "addfk" -> TAOption (AOAddForeignKey (fk_create (List.hd l)))
        | "dropfk" -> TAOption (AODropForeignKey (hx (List.hd l)))
        | h -> failwith ("talter clause " ^ h)) (args s)))
  | "tdrop" ->
      DTableDrop (build_tabledrop (List.map (fun c ->
        match head c with
        | "table" -> TDTable (tref (List.hd (args c)))
        | "ifexists" -> TDIfExists
        | "restrict" -> TDOpt DORestrict
        | "cascade" -> TDOpt DOCascade
        | h -> failwith ("tdrop clause " ^ h)) (args s)))
  | "trename" ->
      (match args s with
       | [f; t] -> DTableRename { tr_from = Some (tref f); tr_to = Some (tref t) }
       | _ -> DTableRename { tr_from = None; tr_to = None })
  | "ttruncate" ->
      (match args s with
       | t :: _ -> DTableTruncate { tt_table = Some (tref t) }
       | [] -> DTableTruncate { tt_table = None })
  | "icreate" -> DIndexCreate (index_create s)
  | "idrop" ->
      DIndexDrop (build_indexdrop (List.map (fun c ->
        match head c with
        | "name" -> IXDName (hx (List.hd (args c)))
        | "table" -> IXDTable (tref (List.hd (args c)))
        | "ifexists" -> IXDIfExists
        | h -> failwith ("idrop clause " ^ h)) (args s)))
  | "fkcreate" -> DForeignKeyCreate (fk_create s)
  | "fkdrop" ->
      DForeignKeyDrop (build_fkdrop (List.map (fun c ->
        match head c with
        | "name" -> FKDName (hx (List.hd (args c)))
        | "table" -> FKDTable (tref (List.hd (args c)))
        | h -> failwith ("fkdrop clause " ^ h)) (args s)))
  | "tycreate" ->
      DTypeCreate (build_typecreate (List.map (fun c ->
        match head c with
        | "asenum" -> TYCAsEnum (typeref (List.hd (args c)))
        | "values" -> TYCValues (List.map hx (args c))
        | h -> failwith ("tycreate clause " ^ h)) (args s)))
  | "tydrop" ->
      DTypeDrop (build_typedrop (List.map (fun c ->
        match head c with
        | "name" -> TYDNames [typeref (List.hd (args c))]
        | "names" -> TYDNames (List.map typeref (args c))
        | "ifexists" -> TYDIfExists
        | "cascade" -> TYDOpt DOCascade
        | "restrict" -> TYDOpt DORestrict
        | h -> failwith ("tydrop clause " ^ h)) (args s)))
  | "tyalter" ->
      DTypeAlter (build_typealter (List.map (fun c ->
        let l = args c in
        match head c with
        | "name" -> TYAName (typeref (List.hd l))
        | "addvalue" -> TYAAddValue (hx (List.hd l))
        | "before" -> TYABefore (hx (List.hd l))
        | "after" -> TYAAfter (hx (List.hd l))
        | "ifnotexists" -> TYAIfNotExists
        | "renameto" -> TYARenameTo (hx (List.hd l))
        | "renamevalue" -> TYARenameValue (hx (List.nth l 0), hx (List.nth l 1))
        | h -> failwith ("tyalter clause " ^ h)) (args s)))
  | "extcreate" ->
      DExtensionCreate (build_extcreate (List.map (fun c ->
        let l = args c in
        match head c with
        | "name" -> EXCName (hx (List.hd l))
        | "schema" -> EXCSchema (hx (List.hd l))
        | "version" -> EXCVersion (hx (List.hd l))
        | "cascade" -> EXCCascade
        | "ifnotexists" -> EXCIfNotExists
        | h -> failwith ("extcreate clause " ^ h)) (args s)))
  | "extdrop" ->
      DExtensionDrop (build_extdrop (List.map (fun c ->
        let l = args c in
        match head c with
        | "name" -> EXDName (hx (List.hd l))
        | "ifexists" -> EXDIfExists
        | "cascade" -> EXDCascade
        | "restrict" -> EXDRestrict
        | h -> failwith ("extdrop clause " ^ h)) (args s)))
  | h -> failwith ("ddl " ^ h)

let run_ddl (b : backend) (s : Sexp.t) : string =
  try
    let sc = rddl is_alpha_rust b (tables_of false b) fuel (ddl s) in
    (match emit_inline ftext b sc with Ok t -> hex_of_str t | Panic -> "PANIC")
  with Exit -> "PANIC"
