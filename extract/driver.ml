(* model.exe <casefile>: one output line per case, same protocol as sqv-harness *)
open Model
open Util

let dispatch (t : string list) : string =
  match t with
  | ["esc"; b; h] ->
      let b = backend_of b and s = str_of_hex h in
      let e = escape_string b s in
      Printf.sprintf "%s %s %s" (hex_of_str e) (hex_of_str (unescape_string b e))
        (hex_of_str (unescape_string b s))
  | op :: _ -> "UNKNOWN-OP " ^ op
  | [] -> ""

let () =
  let ic = open_in Sys.argv.(1) in
  let out = Buffer.create 65536 in
  (try
     while true do
       let line = String.trim (input_line ic) in
       if line <> "" && line.[0] <> '#' then begin
         let t = String.split_on_char ' ' line in
         Buffer.add_string out (dispatch t);
         Buffer.add_char out '\n';
         if Buffer.length out > 60000 then (print_string (Buffer.contents out); Buffer.clear out)
       end
     done
   with End_of_file -> ());
  print_string (Buffer.contents out)
