(* model.exe <casefile>: one output line per case, same protocol as sqv-harness *)
open Model
open Util

let dispatch (t : string list) : string =
  match t with
  | ["esc"; b; h] ->
      let b = backend_of b and s = str_of_hex h in
      let e = escape_string b s in
      Printf.sprintf "%s %s %s" (hex_of_str e) (hex_of_str (unescape_string b e))
        (hex_of_str (unescape_string b s))
  | ["tok"; h] ->
      let s = str_of_hex h in
      (match tokenize is_alpha_rust s with
       | None -> "OUT-OF-FUEL"
       | Some ts ->
           let b = Buffer.create 64 in
           List.iter (fun t ->
             let k = match t with Quoted _ -> 'Q' | Unquoted _ -> 'U' | Space _ -> 'S' | Punct _ -> 'P' in
             Buffer.add_char b k;
             Buffer.add_string b (hex_of_str (text t));
             (match unquote t with Some u -> Buffer.add_char b '/'; Buffer.add_string b (hex_of_str u) | None -> ());
             Buffer.add_char b ' ') ts;
           Buffer.add_char b '.';
           Buffer.contents b)
  | op :: _ -> "UNKNOWN-OP " ^ op
  | [] -> ""

let () =
  let ic = open_in Sys.argv.(1) in
  let out = Buffer.create 65536 in
  (try
     while true do
       let line = String.trim (input_line ic) in
       if line <> "" && line.[0] <> '#' then begin
         let t = String.split_on_char ' ' line in
         Buffer.add_string out (try dispatch t with Stack_overflow -> "MODEL-EXN stack" | e -> "MODEL-EXN " ^ Printexc.to_string e);
         Buffer.add_char out '\n';
         if Buffer.length out > 60000 then (print_string (Buffer.contents out); Buffer.clear out)
       end
     done
   with End_of_file -> ());
  print_string (Buffer.contents out)
