(* c12.exe <casefile>: the extracted model of the Value conversions / equality / hashing; one output
   line per case, same protocol and text syntax as harness/src/valueterm.rs, valueconv.rs, valueeq.rs *)
open Model
open Util

let explode s = List.init (String.length s) (String.get s)
let n_of_decstr (s : string) : n = n_of_dec (List.map (fun c -> n_of_int (Char.code c)) (explode s))
let z_of_decstr (s : string) : z =
  if s <> "" && s.[0] = '-' then
    (match n_of_decstr (String.sub s 1 (String.length s - 1)) with N0 -> Z0 | Npos p -> Zneg p)
  else (match n_of_decstr s with N0 -> Z0 | Npos p -> Zpos p)
let ascii_of (l : n list) : string = String.concat "" (List.map (fun c -> String.make 1 (Char.chr (int_of_n c))) l)
let decstr_of_n (x : n) : string = ascii_of (dec_of_N x)
let decstr_of_z (x : z) : string = ascii_of (dec_of_Z x)
let hexval c = match c with
  | '0'..'9' -> Char.code c - 48 | 'a'..'f' -> Char.code c - 87 | 'A'..'F' -> Char.code c - 55 | _ -> failwith "hex digit"
let n_of_hexstr (s : string) : n = n_of_hexdigits (List.map (fun c -> n_of_int (hexval c)) (explode s))
let hexstr_of_n (width : int) (x : n) : string =
  let d = String.concat "" (List.map (fun d -> Printf.sprintf "%x" (int_of_n d)) (hexdigits x)) in
  if String.length d >= width then d else String.make (width - String.length d) '0' ^ d
let str_of_ascii (s : string) : n list = List.map (fun c -> n_of_int (Char.code c)) (explode s)

let tag_names = [
  "Bool", TBool; "TinyInt", TTinyInt; "SmallInt", TSmallInt; "Int", TInt; "BigInt", TBigInt;
  "TinyUnsigned", TTinyUnsigned; "SmallUnsigned", TSmallUnsigned; "Unsigned", TUnsigned; "BigUnsigned", TBigUnsigned;
  "Float", TFloat; "Double", TDouble; "String", TString; "Char", TChar; "Bytes", TBytes; "Json", TJson;
  "ChronoDate", TChronoDate; "ChronoTime", TChronoTime; "ChronoDateTime", TChronoDateTime;
  "ChronoDateTimeUtc", TChronoDateTimeUtc; "ChronoDateTimeLocal", TChronoDateTimeLocal;
  "ChronoDateTimeWithTimeZone", TChronoDateTimeWithTimeZone; "TimeDate", TTimeDate; "TimeTime", TTimeTime;
  "TimeDateTime", TTimeDateTime; "TimeDateTimeWithTimeZone", TTimeDateTimeWithTimeZone; "Uuid", TUuid;
  "Decimal", TDecimal; "BigDecimal", TBigDecimal; "Vector", TVector; "IpNetwork", TIpNetwork; "MacAddress", TMacAddress ]
let tag_of_name s = try List.assoc s tag_names with Not_found -> failwith ("variant " ^ s)
let name_of_tag t = fst (List.find (fun (_, t') -> t' = t) tag_names)

(* C12 keeps the representation index k of an opaque token in `text` (identity of the Rust value = id and k);
   C18 (eq_mode) drops it, and takes the JSON text after '/' *)
let eq_mode = ref false

let payload_of_tok (t : vtag) (tok : string) : payload =
  match t with
  | TBool -> PBool (match tok with "1" -> true | "0" -> false | _ -> failwith "bool")
  | TTinyInt | TSmallInt | TInt | TBigInt | TTinyUnsigned | TSmallUnsigned | TUnsigned | TBigUnsigned -> PInt (z_of_decstr tok)
  | TFloat -> PF32 (n_of_hexstr tok)
  | TDouble -> PF64 (n_of_hexstr tok)
  | TString -> PStr (str_of_hex tok)
  | TChar -> PChar (n_of_hexstr tok)
  | TBytes -> PBytes (bytes_of_hex tok)
  | TVector -> POpaque (N0, if tok = "-" then [] else List.map n_of_hexstr (String.split_on_char '.' tok))
  | _ ->
      let tok, text = match String.index_opt tok '/' with
        | Some i -> String.sub tok 0 i, Some (String.sub tok (i + 1) (String.length tok - i - 1))
        | None -> tok, None in
      let id, k = match String.index_opt tok '~' with
        | Some i -> String.sub tok 0 i, String.sub tok (i + 1) (String.length tok - i - 1)
        | None -> tok, "" in
      if !eq_mode then POpaque (n_of_decstr id, (match text with Some h -> str_of_hex h | None -> []))
      else POpaque (n_of_decstr id, str_of_ascii k)

let tok_of_payload (t : vtag) (p : payload) : string =
  match p with
  | PBool b -> if b then "1" else "0"
  | PInt z -> decstr_of_z z
  | PF32 b -> hexstr_of_n 8 b
  | PF64 b -> hexstr_of_n 16 b
  | PStr s -> hex_of_str s
  | PChar c -> hexstr_of_n 1 c
  | PBytes bs -> hex_of_bytes bs
  | POpaque (oid, text) ->
      if t = TVector then (if text = [] then "-" else String.concat "." (List.map (hexstr_of_n 8) text))
      else if text = [] then decstr_of_n oid else decstr_of_n oid ^ "~" ^ ascii_of text

(* [a,b,c] with nesting *)
let split_list (s : string) (op : char) (cl : char) : string list =
  let n = String.length s in
  if n < 2 || s.[0] <> op || s.[n - 1] <> cl then failwith ("list syntax " ^ s);
  let inner = String.sub s 1 (n - 2) in
  if inner = "" then [] else begin
    let out = ref [] and depth = ref 0 and start = ref 0 in
    String.iteri (fun i c ->
      match c with
      | '[' | '(' -> incr depth
      | ']' | ')' -> decr depth
      | ',' when !depth = 0 -> out := String.sub inner !start (i - !start) :: !out; start := i + 1
      | _ -> ()) inner;
    out := String.sub inner !start (String.length inner - !start) :: !out;
    List.rev !out end

let split1 (s : string) : string * string =
  match String.index_opt s ':' with
  | Some i -> String.sub s 0 i, String.sub s (i + 1) (String.length s - i - 1)
  | None -> failwith ("term " ^ s)

let rec value_of_term (term : string) : value =
  let tag, rest = split1 term in
  if tag = "Array" then begin
    let elem, rest = split1 rest in
    let e = tag_of_name elem in
    if rest = "N" then VArray (e, None) else VArray (e, Some (List.map value_of_term (split_list rest '[' ']')))
  end else begin
    let t = tag_of_name tag in
    if rest = "N" then V (t, None) else V (t, Some (payload_of_tok t rest))
  end

let rec term_of_value (v : value) : string =
  match v with
  | V (t, None) -> name_of_tag t ^ ":N"
  | V (t, Some p) -> name_of_tag t ^ ":" ^ tok_of_payload t p
  | VArray (e, None) -> "Array:" ^ name_of_tag e ^ ":N"
  | VArray (e, Some vs) -> "Array:" ^ name_of_tag e ^ ":[" ^ String.concat "," (List.map term_of_value vs) ^ "]"

let primitive_tag t = match t with
  | TBool | TTinyInt | TSmallInt | TInt | TBigInt | TTinyUnsigned | TSmallUnsigned | TUnsigned | TBigUnsigned
  | TFloat | TDouble | TString | TChar | TBytes -> true
  | _ -> false
let shape_of_value (v : value) : string =
  match v with
  | V (t, Some _) when not (primitive_tag t) -> name_of_tag t ^ ":*"
  | _ -> term_of_value v

let tuple_of_term (term : string) : vtuple =
  let pre p = String.length term >= String.length p && String.sub term 0 (String.length p) = p in
  let rest p = String.sub term (String.length p) (String.length term - String.length p) in
  if pre "One" then (match List.map value_of_term (split_list (rest "One") '(' ')') with [a] -> TOne a | _ -> failwith "One")
  else if pre "Two" then (match List.map value_of_term (split_list (rest "Two") '(' ')') with [a; b] -> TTwo (a, b) | _ -> failwith "Two")
  else if pre "Three" then
    (match List.map value_of_term (split_list (rest "Three") '(' ')') with [a; b; c] -> TThree (a, b, c) | _ -> failwith "Three")
  else if pre "Many" then TMany (List.map value_of_term (split_list (rest "Many") '[' ']'))
  else failwith ("tuple term " ^ term)

let term_of_tuple (t : vtuple) : string =
  match t with
  | TOne a -> "One(" ^ term_of_value a ^ ")"
  | TTwo (a, b) -> "Two(" ^ term_of_value a ^ "," ^ term_of_value b ^ ")"
  | TThree (a, b, c) -> "Three(" ^ term_of_value a ^ "," ^ term_of_value b ^ "," ^ term_of_value c ^ ")"
  | TMany l -> "Many[" ^ String.concat "," (List.map term_of_value l) ^ "]"

(* ---- type expressions ---- *)
let row_of (name : string) : vrow =
  match find_row (str_of_ascii name) value_types with
  | Some r -> r
  | None -> failwith ("no row " ^ name)

let strip pre suf s =
  let lp = String.length pre and ls = String.length suf and n = String.length s in
  if n >= lp + ls && String.sub s 0 lp = pre && String.sub s (n - ls) ls = suf then Some (String.sub s lp (n - lp - ls)) else None

let ctype_of (ty : string) : ctype =
  if ty = "Vec<u8>" then CtPlain (row_of ty)
  else if ty = "Option<Vec<u8>>" then CtOpt (row_of "Vec<u8>")
  else match strip "Option<Vec<" ">>" ty with
  | Some b -> CtOptVec (row_of b)
  | None ->
    match strip "Option<" ">" ty with
    | Some b -> CtOpt (row_of b)
    | None ->
      match strip "Vec<" ">" ty with
      | Some b -> CtVec (row_of b)
      | None -> CtPlain (row_of ty)

let row_tag (r : vrow) : vtag =
  match r.r_from, r.r_try with
  | Some s, _ -> s.s_tag
  | None, Some s -> s.s_tag
  | None, None -> failwith "row without conversions"

let cpay_of_tok (c : ctype) (tok : string) : cpay =
  match c with
  | CtPlain r -> CP (payload_of_tok (row_tag r) tok)
  | CtOpt r -> CO (if tok = "N" then None else Some (payload_of_tok (row_tag r) tok))
  | CtVec r -> CL (List.map (payload_of_tok (row_tag r)) (split_list tok '[' ']'))
  | CtOptVec r -> COL (if tok = "N" then None else Some (List.map (payload_of_tok (row_tag r)) (split_list tok '[' ']')))

let ctype_row = function CtPlain r | CtOpt r | CtVec r | CtOptVec r -> r
let tok_of_cpay (c : ctype) (x : cpay) : string =
  let t = row_tag (ctype_row c) in
  let lst l = "[" ^ String.concat "," (List.map (tok_of_payload t) l) ^ "]" in
  match x with
  | CP p -> tok_of_payload t p
  | CO None | COL None -> "N"
  | CO (Some p) -> tok_of_payload t p
  | CL l -> lst l
  | COL (Some l) -> lst l

let show_res (c : ctype) (r : cpay cres option) : string =
  match r with
  | None -> "NOIMPL"
  | Some (COk x) -> "OK " ^ tok_of_cpay c x
  | Some CErr -> "ERR"
  | Some CPanic -> "PANIC"

(* tuple patterns: must list the same component types as harness/src/valueconv.rs *)
let patterns = [
  "A", ["i32"; "String"; "f64"; "bool"; "u8"; "i64"; "char"; "Vec<u8>"; "u16"; "f32"; "i8"; "u64"];
  "B", ["i64"; "i64"; "i64"; "i64"; "i64"; "i64"; "i64"; "i64"; "i64"; "i64"; "i64"; "i64"];
  "C", ["Option<i32>"; "Option<String>"; "Option<f64>"; "Option<bool>"; "Option<u8>"; "Option<i64>"; "Option<char>";
        "Option<Vec<u8>>"; "Option<u16>"; "Option<f32>"; "Option<i8>"; "Option<u64>"];
  "D", ["Uuid"; "NaiveDate"; "Decimal"; "Json"; "Vec<i32>"; "Option<Vec<String>>"; "DateTime<Utc>"; "BigDecimal";
        "time::Date"; "IpNetwork"; "MacAddress"; "u32"] ]
let rec take n l = if n <= 0 then [] else match l with [] -> failwith "take" | x :: r -> x :: take (n - 1) r
let pattern_types pat n = List.map ctype_of (take n (List.assoc pat patterns))

let tup_into pat n toks : vtuple option =
  let cs = pattern_types pat n in
  let vs = List.map2 (fun c tok -> match ct_from c (cpay_of_tok c tok) with Some v -> v | None -> failwith "component From") cs toks in
  into_value_tuple vs

let tup_from pat n (t : vtuple) : string =
  let cs = pattern_types pat n in
  let ex = List.map (fun c v -> match ct_try veq_derived c v with Some r -> r | None -> failwith "component ValueType") cs in
  match from_value_tuple ex t with
  | None -> "NOIMPL"
  | Some (COk l) -> "OK " ^ String.concat " " (List.map2 tok_of_cpay cs l)
  | Some CErr -> "ERR"
  | Some CPanic -> "PANIC"

(* ---- hash streams ---- *)
let show_hword (w : hword) : string =
  match w with
  | HIsize z -> "isize:" ^ decstr_of_z z
  | HUsize n -> "usize:" ^ decstr_of_n n
  | HU8 n -> "u8:" ^ decstr_of_n n
  | HU16 n -> "u16:" ^ decstr_of_n n
  | HU32 n -> "u32:" ^ decstr_of_n n
  | HU64 n -> "u64:" ^ decstr_of_n n
  | HI8 z -> "i8:" ^ decstr_of_z z
  | HI16 z -> "i16:" ^ decstr_of_z z
  | HI32 z -> "i32:" ^ decstr_of_z z
  | HI64 z -> "i64:" ^ decstr_of_z z
  | HStr s -> "w:" ^ hex_of_str s
  | HBytes bs -> "w:" ^ hex_of_bytes bs
  | HOpaque (t, oid) -> "opq:" ^ name_of_tag t ^ "." ^ decstr_of_n oid
let show_stream (l : hword list) : string = if l = [] then "." else String.concat "," (List.map show_hword l)
let tf b = if b then "T" else "F"

(* dedup by the model equality: the distinct elements a HashSet<Value> keeps *)
let rec dedup eq l = match l with [] -> [] | x :: r -> x :: dedup eq (List.filter (fun y -> not (eq x y)) r)

let dispatch (t : string list) : string =
  match t with
  | ["from"; ty; tok] -> let c = ctype_of ty in
      (match ct_from c (cpay_of_tok c tok) with Some v -> term_of_value v | None -> "NOIMPL")
  | ["null"; ty] -> (match ct_null (ctype_of ty) with Some v -> term_of_value v | None -> "NOIMPL")
  | ["try"; ty; term] -> let c = ctype_of ty in show_res c (ct_try veq_derived c (value_of_term term))
  | ["rt"; ty; tok] -> let c = ctype_of ty in
      (match ct_from c (cpay_of_tok c tok) with
       | Some v -> show_res c (ct_try veq_derived c v)
       | None -> "NOIMPL")
  | ["rtx"; src; dst; tok] ->
      let rs = row_of src and rd = row_of dst in
      (match rs.r_from, rd.r_try with
       | Some f, Some tr ->
           (match try_from_side tr (from_side f (payload_of_tok f.s_tag tok)) with
            | COk p -> "OK " ^ tok_of_payload tr.s_tag p
            | CErr -> "ERR"
            | CPanic -> "PANIC")
       | _, _ -> "NOIMPL")
  | ["asnull"; term] -> (match as_null_gen (value_of_term term) with Some v -> term_of_value v | None -> "NOARM")
  | ["dummy"; term] -> (match dummy_gen (value_of_term term) with Some v -> shape_of_value v | None -> "NOARM")
  | ["deq"; a; b] -> tf (veq_derived (value_of_term a) (value_of_term b))
  | "tupinto" :: pat :: n :: toks ->
      (match tup_into pat (int_of_string n) toks with
       | None -> "NOIMPL"
       | Some vt -> term_of_tuple vt ^ " | " ^ String.concat " " (List.map term_of_value (tuple_into_iter vt)))
  | ["tupfrom"; pat; n; tterm] -> tup_from pat (int_of_string n) (tuple_of_term tterm)
  | "tup" :: pat :: n_into :: n_from :: toks ->
      (match tup_into pat (int_of_string n_into) toks with
       | None -> "NOIMPL"
       | Some vt -> tup_from pat (int_of_string n_from) vt)
  (* ---- C18 (hashable-value) ---- *)
  | ["cmp"; a; b] ->
      let a = value_of_term a and b = value_of_term b in
      tf (veq a b) ^ " " ^ tf (hstream a = hstream b)
  | ["hstream"; a] -> show_stream (hstream (value_of_term a))
  | ["tcmp"; a; b] ->
      let a = tuple_of_term a and b = tuple_of_term b in
      tf (teq a b) ^ " " ^ tf (tstream a = tstream b)
  | ["tstream"; a] -> show_stream (tstream (tuple_of_term a))
  | ["hset"; elems; probe] ->
      let l = List.map value_of_term (split_list elems '[' ']') and p = value_of_term probe in
      Printf.sprintf "%d %s" (List.length (dedup veq l)) (tf (List.exists (fun x -> veq x p) l))
  | ["wf"; a] -> tf (wf_value (value_of_term a))
  | op :: _ -> "UNKNOWN-OP " ^ op
  | [] -> ""

let () =
  let argv = Array.to_list Sys.argv in
  let file = match argv with
    | [_; f] -> f
    | _ -> prerr_endline "usage: c12.exe <casefile>"; exit 2 in
  let ic = open_in file in
  let out = Buffer.create 65536 in
  (try
     while true do
       let line = String.trim (input_line ic) in
       if line <> "" && line.[0] <> '#' then begin
         let toks = String.split_on_char ' ' line in
         eq_mode := List.mem (List.hd toks) ["cmp"; "hstream"; "tcmp"; "tstream"; "hset"; "wf"];
         let r = try dispatch toks with
           | Stack_overflow -> "MODEL-ERROR stack"
           | Failure m -> "MODEL-ERROR " ^ m
           | Not_found -> "MODEL-ERROR not-found"
           | Invalid_argument m -> "MODEL-ERROR " ^ m in
         Buffer.add_string out r;
         Buffer.add_char out '\n'
       end
     done
   with End_of_file -> ());
  print_string (Buffer.contents out)
