(* Extraction of the executable model for C12 / C18 (values, conversions, equality, hash streams).
   ExtrOcamlBasic only.  The few helper definitions below are text <-> number conversions used by
   driver.ml (decimal numerals do not fit OCaml's native int). *)
Require Import ExtrOcamlBasic.
Require Import SQV.Model.Str SQV.Model.Escape SQV.Model.Value SQV.Model.ValueRow SQV.Model.FloatBits
  SQV.Model.ValueEq SQV.Model.ValueConv SQV.Generated.ValueTypes.
Extraction Language OCaml.
Set Extraction KeepSingleton.

Definition n_of_dec (s : list N) : N := fold_left (fun a d => a * 10 + (d - 48))%N s 0%N.
Definition n_of_hexdigits (s : list N) : N := fold_left (fun a d => a * 16 + d)%N s 0%N.
(* hex digits, most significant first, at least `width` of them *)
Fixpoint hexdigits_fuel (fuel : nat) (n : N) (acc : list N) : list N :=
  match fuel with
  | O => acc
  | S f => let acc' := (n mod 16)%N :: acc in
           if (n / 16 =? 0)%N then acc' else hexdigits_fuel f (n / 16)%N acc'
  end.
Definition hexdigits (n : N) : list N := hexdigits_fuel (S (N.to_nat (N.log2 n))) n [].

Extraction "model.ml"
  escape_string dec_of_Z dec_of_N n_of_dec n_of_hexdigits hexdigits
  value_types find_row all_vtags
  from_side try_from_side ct_from ct_try ct_null
  into_value_tuple from_value_tuple tuple_into_iter
  as_null_gen dummy_gen veq_derived veq hstream teq tstream wf_value.
