#!/bin/sh
# builds extract/_build/model.exe from the compiled Coq model (coq/ must be built first)
set -e
cd "$(dirname "$0")"
mkdir -p gen _build
cd gen
coqc -Q ../../coq SQV ../Extract.v > ../_build/extract.log 2>&1 || { cat ../_build/extract.log; exit 1; }
rm -f ../Extract.vo ../Extract.glob ../.Extract.aux ../Extract.vok ../Extract.vos
cd ..
cp gen/model.ml gen/model.mli util.ml driver.ml _build/
cd _build
ocamlfind ocamlopt -O2 -w -a -package str model.mli model.ml util.ml driver.ml -o model.exe 2>/dev/null \
  || ocamlfind ocamlopt -w -a model.mli model.ml util.ml driver.ml -o model.exe
