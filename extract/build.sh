#!/bin/sh
# usage: build.sh <name> ; builds extract/_build/<name>.exe from extract/<name>/{Extract.v,driver.ml}
# and the shared extract/util.ml (coq/ must be built first). Extract.v must extract to "model.ml".
set -e
cd "$(dirname "$0")"
NAME="${1:-main}"
W="_build/$NAME"
rm -rf "$W"
mkdir -p "$W"
( cd "$W" && coqc -Q ../../../coq SQV "../../$NAME/Extract.v" > extract.log 2>&1 ) || { cat "$W/extract.log"; exit 1; }
rm -f "$NAME"/Extract.vo "$NAME"/Extract.glob "$NAME"/.Extract.aux "$NAME"/Extract.vok "$NAME"/Extract.vos
# the case-language reader (cases.ml, sexp.ml) is shared: every extraction uses main's unless it brings its own
case "$NAME" in main|ddl) cp main/cases.ml main/sexp.ml "$W/" ;; esac
cp util.ml "$NAME"/*.ml "$W/"
EXTRA=$(cd "$W" && ls *.ml | grep -v "^driver.ml$\|^model.ml$\|^util.ml$" | sort -r | tr "\n" " ")
( cd "$W" && ocamlfind ocamlopt -O2 -w -a model.mli model.ml util.ml $EXTRA driver.ml -o "../$NAME.exe" 2>/dev/null \
  || ocamlfind ocamlopt -w -a model.mli model.ml util.ml $EXTRA driver.ml -o "../$NAME.exe" )
