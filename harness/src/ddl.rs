//! C13 / C14: schema statement builder programs (table create / alter / drop / rename / truncate,
//! index create / drop, foreign key create / drop, Postgres type and extension statements) and the
//! dump of the column type table obtained by executing prepare_column_def on every ColumnType shape.
//!
//! case language (strings are hex of UTF-8, `-` = empty string / absent where noted):
//!   (tcreate clause...)   (table tref) (ifnotexists) (temporary) (comment h) (extra h) (engine h) (collate h)
//!                         (charset h) (col coldef) (check expr) (index indexstmt) (pk indexstmt) (fk fkstmt)
//!   coldef    = (cd name type|- spec...)
//!   spec      = (null) (notnull) (default e) (autoinc) (unique) (pk) (check e) (generated e stored|virtual)
//!               (extra h) (comment h) (using e)
//!   indexstmt = (index clause...) : (name h) (table tref) (col name prefix|- asc|desc|-) (primary) (unique) (nnd)
//!               (fulltext) (itype btree|hash|fulltext|(custom h)) (include h) (ifnotexists) (andwhere e) (condwhere c)
//!   fkstmt    = (fk clause...) : (name h) (fromtbl tref) (totbl tref) (fromcol h) (tocol h) (ondelete a) (onupdate a)
//!   (talter clause...)    (table tref) (addcol coldef) (addcoline coldef) (modcol coldef) (rencol a b) (dropcol a)
//!                         (addfk fkstmt) (dropfk name)
//!   (tdrop clause...)     (table tref) (ifexists) (restrict) (cascade)
//!   (trename [from to])   (ttruncate [tref])
//!   (icreate clause...)   = top-level CREATE INDEX (same clauses as indexstmt)
//!   (idrop clause...)     (name h) (table tref) (ifexists)
//!   (fkcreate clause...)  (fkdrop (name h) (table tref))
//!   (tycreate (asenum typeref) (values h...))     typeref = (ty a [b [c]])
//!   (tydrop (name typeref) (names typeref...) (ifexists) (cascade) (restrict))
//!   (tyalter (name typeref) (addvalue h) (before h) (after h) (ifnotexists) (renameto h) (renamevalue a b))
//!   (extcreate (name h) (schema h) (version h) (cascade) (ifnotexists))
//!   (extdrop (name h) (ifexists) (cascade) (restrict))
use crate::conds;
use crate::exprs::{a, expr};
use crate::sexp::S;
use crate::stmts::tref;
use crate::util::*;
use sea_query::extension::postgres::{Extension, Type, TypeRef};
use sea_query::*;
use std::io::Write;

fn hx(s: &S) -> String {
    unhexs(s.atom())
}
fn id(s: &S) -> Alias {
    a(&hx(s))
}
fn u(s: &S) -> u32 {
    s.atom().parse().expect("u32")
}

const INTERVALS: [PgInterval; 13] = [
    PgInterval::Year,
    PgInterval::Month,
    PgInterval::Day,
    PgInterval::Hour,
    PgInterval::Minute,
    PgInterval::Second,
    PgInterval::YearToMonth,
    PgInterval::DayToHour,
    PgInterval::DayToMinute,
    PgInterval::DayToSecond,
    PgInterval::HourToMinute,
    PgInterval::HourToSecond,
    PgInterval::MinuteToSecond,
];

fn array_of(elem: ColumnType) -> ColumnType {
    ColumnDef::new(a("x")).array(elem).get_column_type().unwrap().clone()
}

pub fn coltype(s: &S) -> ColumnType {
    match s {
        S::A(x) => match x.as_str() {
            "text" => ColumnType::Text,
            "blob" => ColumnType::Blob,
            "tinyint" => ColumnType::TinyInteger,
            "smallint" => ColumnType::SmallInteger,
            "int" => ColumnType::Integer,
            "bigint" => ColumnType::BigInteger,
            "utinyint" => ColumnType::TinyUnsigned,
            "usmallint" => ColumnType::SmallUnsigned,
            "uint" => ColumnType::Unsigned,
            "ubigint" => ColumnType::BigUnsigned,
            "float" => ColumnType::Float,
            "double" => ColumnType::Double,
            "datetime" => ColumnType::DateTime,
            "timestamp" => ColumnType::Timestamp,
            "timestamptz" => ColumnType::TimestampWithTimeZone,
            "time" => ColumnType::Time,
            "date" => ColumnType::Date,
            "year" => ColumnType::Year,
            "boolean" => ColumnType::Boolean,
            "json" => ColumnType::Json,
            "jsonb" => ColumnType::JsonBinary,
            "uuid" => ColumnType::Uuid,
            "cidr" => ColumnType::Cidr,
            "inet" => ColumnType::Inet,
            "macaddr" => ColumnType::MacAddr,
            "ltree" => ColumnType::LTree,
            other => panic!("coltype atom {}", other),
        },
        S::L(_) => {
            let l = s.args();
            let strlen = |l: &[S]| -> StringLen {
                if l.is_empty() {
                    StringLen::None
                } else if l[0].atom() == "max" {
                    StringLen::Max
                } else {
                    StringLen::N(u(&l[0]))
                }
            };
            let pair = |l: &[S]| -> Option<(u32, u32)> {
                if l.is_empty() {
                    None
                } else {
                    Some((u(&l[0]), u(&l[1])))
                }
            };
            let opt = |l: &[S]| -> Option<u32> {
                if l.is_empty() {
                    None
                } else {
                    Some(u(&l[0]))
                }
            };
            match s.head() {
                "char" => ColumnType::Char(opt(l)),
                "string" => ColumnType::String(strlen(l)),
                "decimal" => ColumnType::Decimal(pair(l)),
                "interval" => ColumnType::Interval(
                    if l[0].atom() == "-" { None } else { Some(INTERVALS[u(&l[0]) as usize].clone()) },
                    if l[1].atom() == "-" { None } else { Some(u(&l[1])) },
                ),
                "binary" => ColumnType::Binary(u(&l[0])),
                "varbinary" => ColumnType::VarBinary(strlen(l)),
                "bit" => ColumnType::Bit(opt(l)),
                "varbit" => ColumnType::VarBit(u(&l[0])),
                "money" => ColumnType::Money(pair(l)),
                "custom" => ColumnType::Custom(id(&l[0]).into_iden()),
                "enum" => ColumnType::Enum {
                    name: id(&l[0]).into_iden(),
                    variants: l[1..].iter().map(|v| id(v).into_iden()).collect(),
                },
                "array" => array_of(coltype(&l[0])),
                "vector" => ColumnType::Vector(opt(l)),
                other => panic!("coltype {}", other),
            }
        }
    }
}


/// sets the column type through the ColumnDef convenience method for it, where there is one with exactly
/// this meaning; false = no such method (the caller falls back to new_with_type)
fn typed_method(c: &mut ColumnDef, t: &S) -> bool {
    match t {
        S::A(x) => {
            match x.as_str() {
                "text" => c.text(),
                "blob" => c.blob(),
                "tinyint" => c.tiny_integer(),
                "smallint" => c.small_integer(),
                "int" => c.integer(),
                "bigint" => c.big_integer(),
                "utinyint" => c.tiny_unsigned(),
                "usmallint" => c.small_unsigned(),
                "uint" => c.unsigned(),
                "ubigint" => c.big_unsigned(),
                "float" => c.float(),
                "double" => c.double(),
                "datetime" => c.date_time(),
                "timestamp" => c.timestamp(),
                "timestamptz" => c.timestamp_with_time_zone(),
                "time" => c.time(),
                "date" => c.date(),
                "year" => c.year(),
                "boolean" => c.boolean(),
                "json" => c.json(),
                "jsonb" => c.json_binary(),
                "uuid" => c.uuid(),
                "cidr" => c.cidr(),
                "inet" => c.inet(),
                "macaddr" => c.mac_address(),
                "ltree" => c.ltree(),
                _ => return false,
            };
            true
        }
        S::L(_) => {
            let l = t.args();
            match (t.head(), l.len()) {
                ("char", 0) => c.char(),
                ("char", 1) => c.char_len(u(&l[0])),
                ("string", 0) => c.string(),
                ("string", 1) if l[0].atom() != "max" => c.string_len(u(&l[0])),
                ("decimal", 0) => c.decimal(),
                ("decimal", 2) => c.decimal_len(u(&l[0]), u(&l[1])),
                ("money", 0) => c.money(),
                ("money", 2) => c.money_len(u(&l[0]), u(&l[1])),
                ("binary", 1) => c.binary_len(u(&l[0])),
                ("varbinary", 1) if l[0].atom() != "max" => c.var_binary(u(&l[0])),
                ("bit", 0) => c.bit(None),
                ("bit", 1) => c.bit(Some(u(&l[0]))),
                ("varbit", 1) => c.varbit(u(&l[0])),
                #[cfg(feature = "fa")]
                ("vector", 0) => c.vector(None),
                #[cfg(feature = "fa")]
                ("vector", 1) => c.vector(Some(u(&l[0]))),
                ("custom", 1) => c.custom(id(&l[0])),
                ("enum", _) => c.enumeration(id(&l[0]), l[1..].iter().map(id)),
                ("interval", 2) => c.interval(
                    if l[0].atom() == "-" { None } else { Some(INTERVALS[u(&l[0]) as usize].clone()) },
                    if l[1].atom() == "-" { None } else { Some(u(&l[1])) },
                ),
                ("array", 1) => c.array(coltype(&l[0])),
                _ => return false,
            };
            true
        }
    }
}

pub fn coldef(s: &S) -> ColumnDef {
    assert!(s.head() == "cd", "expected cd");
    let l = s.args();
    let mut c = match &l[1] {
        S::A(x) if x == "-" => ColumnDef::new(id(&l[0])),
        // for part of the cases the type is set through the ColumnDef method documented for it
        t if crate::exprs::shash(s) % 2 == 1 => {
            let mut c = ColumnDef::new(id(&l[0]));
            if !typed_method(&mut c, t) {
                c = ColumnDef::new_with_type(id(&l[0]), coltype(t));
            }
            c
        }
        t => ColumnDef::new_with_type(id(&l[0]), coltype(t)),
    };
    for sp in &l[2..] {
        let p = sp.args();
        match sp.head() {
            "null" => c.null(),
            "notnull" => c.not_null(),
            "default" => c.default(expr(&p[0])),
            "autoinc" => c.auto_increment(),
            "unique" => c.unique_key(),
            "pk" => c.primary_key(),
            "check" => c.check(expr(&p[0])),
            "generated" => c.generated(expr(&p[0]), p[1].atom() == "stored"),
            "extra" => c.extra(hx(&p[0])),
            "comment" => c.comment(hx(&p[0])),
            "using" => c.using(expr(&p[0])),
            other => panic!("colspec {}", other),
        };
    }
    c
}

fn index_order(s: &S) -> Option<IndexOrder> {
    match s.atom() {
        "-" => None,
        "asc" => Some(IndexOrder::Asc),
        "desc" => Some(IndexOrder::Desc),
        _ => panic!("index order"),
    }
}

pub fn index_create(s: &S) -> IndexCreateStatement {
    let mut ix = Index::create();
    index_apply(&mut ix, s);
    ix
}

/// does the clause list set anything that `IndexCreateStatement::take()` leaves behind in the builder (flags, the
/// predicate and the INCLUDE list are copied, table / name / columns / index type are moved out)?
fn index_is_sticky(s: &S) -> bool {
    s.args().iter().any(|c| matches!(c.head(), "primary" | "unique" | "nnd" | "include" | "ifnotexists" | "andwhere" | "condwhere"))
}

pub fn index_apply(ix: &mut IndexCreateStatement, s: &S) {
    for c in s.args() {
        let l = c.args();
        match c.head() {
            "name" => {
                ix.name(hx(&l[0]));
            }
            "table" => {
                ix.table(tref(&l[0]));
            }
            "col" => {
                let name = id(&l[0]);
                let prefix = if l[1].atom() == "-" { None } else { Some(u(&l[1])) };
                match (prefix, index_order(&l[2])) {
                    (None, None) => ix.col(name),
                    (Some(p), None) => ix.col((name, p)),
                    (None, Some(o)) => ix.col((name, o)),
                    (Some(p), Some(o)) => ix.col((name, p, o)),
                };
            }
            "primary" => {
                ix.primary();
            }
            "unique" => {
                ix.unique();
            }
            "nnd" => {
                ix.nulls_not_distinct();
            }
            "fulltext" => {
                ix.full_text();
            }
            "itype" => {
                let t = match &l[0] {
                    S::A(x) => match x.as_str() {
                        "btree" => IndexType::BTree,
                        "hash" => IndexType::Hash,
                        "fulltext" => IndexType::FullText,
                        _ => panic!("itype"),
                    },
                    S::L(_) => IndexType::Custom(id(&l[0].args()[0]).into_iden()),
                };
                ix.index_type(t);
            }
            "include" => {
                ix.include(id(&l[0]));
            }
            "ifnotexists" => {
                ix.if_not_exists();
            }
            "andwhere" => {
                ix.and_where(expr(&l[0]));
            }
            "condwhere" => {
                ix.cond_where(conds::cond(&l[0]));
            }
            other => panic!("index clause {}", other),
        }
    }
}

fn fk_action(s: &S) -> ForeignKeyAction {
    match s.atom() {
        "restrict" => ForeignKeyAction::Restrict,
        "cascade" => ForeignKeyAction::Cascade,
        "setnull" => ForeignKeyAction::SetNull,
        "noaction" => ForeignKeyAction::NoAction,
        "setdefault" => ForeignKeyAction::SetDefault,
        _ => panic!("fk action"),
    }
}

/// the same clause list drives ForeignKeyCreateStatement and TableForeignKey (their methods delegate)
/// (fromtbl T) immediately followed by 1..3 (fromcol ..) clauses - the only from-columns of the key - is, for
/// part of the cases, given through ForeignKeyCreateStatement::from(table, columns); likewise to(..)
fn grouped(args: &[S], i: usize, tbl: &str, col: &str) -> Option<usize> {
    if args[i].head() != tbl {
        return None;
    }
    let mut j = i + 1;
    while j < args.len() && args[j].head() == col {
        j += 1;
    }
    let n = j - i - 1;
    let total = args.iter().filter(|c| c.head() == col).count();
    let tbls = args.iter().filter(|c| c.head() == tbl).count();
    if (1..=3).contains(&n) && total == n && tbls == 1 && crate::exprs::shash(&args[i]) % 2 == 1 {
        Some(n)
    } else {
        None
    }
}

pub fn fk_create(s: &S) -> ForeignKeyCreateStatement {
    let mut fk = ForeignKey::create();
    let args = s.args();
    let mut skip = 0usize;
    for (i, c) in args.iter().enumerate() {
        if skip > 0 {
            skip -= 1;
            continue;
        }
        let l = c.args();
        for (tbl, col, is_from) in [("fromtbl", "fromcol", true), ("totbl", "tocol", false)] {
            if let Some(n) = grouped(args, i, tbl, col) {
                let t = tref(&l[0]);
                let cs: Vec<Alias> = args[i + 1..i + 1 + n].iter().map(|x| id(&x.args()[0])).collect();
                match (n, is_from) {
                    (1, true) => fk.from(t, cs[0].clone()),
                    (2, true) => fk.from(t, (cs[0].clone(), cs[1].clone())),
                    (3, true) => fk.from(t, (cs[0].clone(), cs[1].clone(), cs[2].clone())),
                    (1, false) => fk.to(t, cs[0].clone()),
                    (2, false) => fk.to(t, (cs[0].clone(), cs[1].clone())),
                    _ => fk.to(t, (cs[0].clone(), cs[1].clone(), cs[2].clone())),
                };
                skip = n;
            }
        }
        if skip > 0 {
            continue;
        }
        match c.head() {
            "name" => {
                fk.name(hx(&l[0]));
            }
            "fromtbl" => {
                fk.from_tbl(tref(&l[0]));
            }
            "totbl" => {
                fk.to_tbl(tref(&l[0]));
            }
            "fromcol" => {
                fk.from_col(id(&l[0]));
            }
            "tocol" => {
                fk.to_col(id(&l[0]));
            }
            "ondelete" => {
                fk.on_delete(fk_action(&l[0]));
            }
            "onupdate" => {
                fk.on_update(fk_action(&l[0]));
            }
            other => panic!("fk clause {}", other),
        }
    }
    fk
}
fn table_fk(s: &S) -> TableForeignKey {
    let mut fk = TableForeignKey::new();
    for c in s.args() {
        let l = c.args();
        match c.head() {
            "name" => {
                fk.name(hx(&l[0]));
            }
            "fromtbl" => {
                fk.from_tbl(tref(&l[0]));
            }
            "totbl" => {
                fk.to_tbl(tref(&l[0]));
            }
            "fromcol" => {
                fk.from_col(id(&l[0]));
            }
            "tocol" => {
                fk.to_col(id(&l[0]));
            }
            "ondelete" => {
                fk.on_delete(fk_action(&l[0]));
            }
            "onupdate" => {
                fk.on_update(fk_action(&l[0]));
            }
            other => panic!("fk clause {}", other),
        }
    }
    fk
}

pub fn table_create(s: &S) -> TableCreateStatement {
    let mut t = Table::create();
    // `index` / `primary_key` take `&mut IndexCreateStatement` and leave the builder behind for the caller to use
    // again.  Part of the cases do exactly that: while nothing sticky was set on it, the builder left behind by one
    // declaration is used for the next (the model builds every index from a new builder, which is the same thing -
    // unless a call marks the caller's builder, round 10)
    let reuse = crate::exprs::shash(s) % 2 == 0;
    let mut left: Option<IndexCreateStatement> = None;
    for c in s.args() {
        let l = c.args();
        match c.head() {
            "table" => {
                t.table(tref(&l[0]));
            }
            "ifnotexists" => {
                t.if_not_exists();
            }
            "temporary" => {
                t.temporary();
            }
            "comment" => {
                t.comment(hx(&l[0]));
            }
            "extra" => {
                t.extra(hx(&l[0]));
            }
            "engine" => {
                t.engine(hx(&l[0]));
            }
            "collate" => {
                t.collate(hx(&l[0]));
            }
            "charset" => {
                t.character_set(hx(&l[0]));
            }
            "col" => {
                t.col(coldef(&l[0]));
            }
            "check" => {
                t.check(expr(&l[0]));
            }
            "index" | "pk" => {
                let mut ix = match left.take() {
                    Some(k) if reuse => k,
                    _ => Index::create(),
                };
                index_apply(&mut ix, &l[0]);
                if c.head() == "pk" {
                    t.primary_key(&mut ix);
                } else {
                    t.index(&mut ix);
                }
                if !index_is_sticky(&l[0]) {
                    left = Some(ix);
                }
            }
            "fk" => {
                t.foreign_key(&mut fk_create(&l[0]));
            }
            other => panic!("tcreate clause {}", other),
        }
    }
    t
}

pub fn table_alter(s: &S) -> TableAlterStatement {
    let mut t = Table::alter();
    for c in s.args() {
        let l = c.args();
        match c.head() {
            "table" => {
                t.table(tref(&l[0]));
            }
            "addcol" => {
                t.add_column(coldef(&l[0]));
            }
            "addcoline" => {
                t.add_column_if_not_exists(coldef(&l[0]));
            }
            "modcol" => {
                t.modify_column(coldef(&l[0]));
            }
            "rencol" => {
                t.rename_column(id(&l[0]), id(&l[1]));
            }
            "dropcol" => {
                t.drop_column(id(&l[0]));
            }
            "addfk" => {
                t.add_foreign_key(&table_fk(&l[0]));
            }
            "dropfk" => {
                t.drop_foreign_key(id(&l[0]));
            }
            other => panic!("talter clause {}", other),
        }
    }
    t
}

fn typeref(s: &S) -> TypeRef {
    let l = s.args();
    match l.len() {
        1 => TypeRef::Type(id(&l[0]).into_iden()),
        2 => TypeRef::SchemaType(id(&l[0]).into_iden(), id(&l[1]).into_iden()),
        3 => TypeRef::DatabaseSchemaType(id(&l[0]).into_iden(), id(&l[1]).into_iden(), id(&l[2]).into_iden()),
        _ => panic!("typeref arity"),
    }
}

fn sc<T: SchemaStatementBuilder>(b: B, s: &T) -> String {
    // the three public entry points of a schema statement (generic to_string / build, dynamic build_any) render the
    // same text; which one a case goes through is salted with the case line
    match (crate::exprs::shash(&S::A("schema-entry".to_string())) % 3, b) {
        (0, B::My) => s.to_string(MysqlQueryBuilder),
        (0, B::Pg) => s.to_string(PostgresQueryBuilder),
        (0, B::Sl) => s.to_string(SqliteQueryBuilder),
        (1, B::My) => s.build(MysqlQueryBuilder),
        (1, B::Pg) => s.build(PostgresQueryBuilder),
        (1, B::Sl) => s.build(SqliteQueryBuilder),
        (_, _) => s.build_any(b.sb()),
    }
}

fn render(b: B, s: &S) -> String {
    match s.head() {
        "tcreate" => sc(b, &table_create(s)),
        "talter" => sc(b, &table_alter(s)),
        "tdrop" => {
            let mut t = Table::drop();
            for c in s.args() {
                match c.head() {
                    "table" => {
                        t.table(tref(&c.args()[0]));
                    }
                    "ifexists" => {
                        t.if_exists();
                    }
                    "restrict" => {
                        t.restrict();
                    }
                    "cascade" => {
                        t.cascade();
                    }
                    other => panic!("tdrop clause {}", other),
                }
            }
            sc(b, &t)
        }
        "trename" => {
            let l = s.args();
            let mut t = Table::rename();
            if l.len() == 2 {
                t.table(tref(&l[0]), tref(&l[1]));
            }
            sc(b, &t)
        }
        "ttruncate" => {
            let l = s.args();
            let mut t = Table::truncate();
            if !l.is_empty() {
                t.table(tref(&l[0]));
            }
            sc(b, &t)
        }
        "icreate" => sc(b, &index_create(s)),
        "idrop" => {
            let mut d = Index::drop();
            for c in s.args() {
                match c.head() {
                    "name" => {
                        d.name(hx(&c.args()[0]));
                    }
                    "table" => {
                        d.table(tref(&c.args()[0]));
                    }
                    "ifexists" => {
                        d.if_exists();
                    }
                    other => panic!("idrop clause {}", other),
                }
            }
            sc(b, &d)
        }
        "fkcreate" => sc(b, &fk_create(s)),
        "fkdrop" => {
            let mut d = ForeignKey::drop();
            for c in s.args() {
                match c.head() {
                    "name" => {
                        d.name(hx(&c.args()[0]));
                    }
                    "table" => {
                        d.table(tref(&c.args()[0]));
                    }
                    other => panic!("fkdrop clause {}", other),
                }
            }
            sc(b, &d)
        }
        // TypeBuilder / ExtensionBuilder are implemented by PostgresQueryBuilder only
        "tycreate" => {
            assert!(b == B::Pg, "postgres only");
            let mut t = Type::create();
            for c in s.args() {
                match c.head() {
                    "asenum" => {
                        t.as_enum(typeref(&c.args()[0]));
                    }
                    "values" => {
                        t.values(c.args().iter().map(id).collect::<Vec<_>>());
                    }
                    other => panic!("tycreate clause {}", other),
                }
            }
            t.to_string(PostgresQueryBuilder)
        }
        "tydrop" => {
            assert!(b == B::Pg, "postgres only");
            let mut t = Type::drop();
            for c in s.args() {
                match c.head() {
                    "name" => {
                        t.name(typeref(&c.args()[0]));
                    }
                    "names" => {
                        t.names(c.args().iter().map(typeref).collect::<Vec<_>>());
                    }
                    "ifexists" => {
                        t.if_exists();
                    }
                    "cascade" => {
                        t.cascade();
                    }
                    "restrict" => {
                        t.restrict();
                    }
                    other => panic!("tydrop clause {}", other),
                }
            }
            t.to_string(PostgresQueryBuilder)
        }
        "tyalter" => {
            assert!(b == B::Pg, "postgres only");
            let mut t = Type::alter();
            for c in s.args() {
                let l = c.args();
                t = match c.head() {
                    "name" => t.name(typeref(&l[0])),
                    "addvalue" => t.add_value(id(&l[0])),
                    "before" => t.before(id(&l[0])),
                    "after" => t.after(id(&l[0])),
                    "ifnotexists" => t.if_not_exists(),
                    "renameto" => t.rename_to(id(&l[0])),
                    "renamevalue" => t.rename_value(id(&l[0]), id(&l[1])),
                    other => panic!("tyalter clause {}", other),
                };
            }
            t.to_string(PostgresQueryBuilder)
        }
        "extcreate" => {
            assert!(b == B::Pg, "postgres only");
            let mut e = Extension::create();
            for c in s.args() {
                let l = c.args();
                match c.head() {
                    "name" => {
                        e.name(hx(&l[0]));
                    }
                    "schema" => {
                        e.schema(hx(&l[0]));
                    }
                    "version" => {
                        e.version(hx(&l[0]));
                    }
                    "cascade" => {
                        e.cascade();
                    }
                    "ifnotexists" => {
                        e.if_not_exists();
                    }
                    other => panic!("extcreate clause {}", other),
                }
            }
            e.to_string(PostgresQueryBuilder)
        }
        "extdrop" => {
            assert!(b == B::Pg, "postgres only");
            let mut e = Extension::drop();
            for c in s.args() {
                let l = c.args();
                match c.head() {
                    "name" => {
                        e.name(hx(&l[0]));
                    }
                    "ifexists" => {
                        e.if_exists();
                    }
                    "cascade" => {
                        e.cascade();
                    }
                    "restrict" => {
                        e.restrict();
                    }
                    other => panic!("extdrop clause {}", other),
                }
            }
            e.to_string(PostgresQueryBuilder)
        }
        other => panic!("ddl {}", other),
    }
}

/// ddl <backend> <sexp> : hex of the statement text (PANIC is printed by main when the code panics)
pub fn run(b: B, s: &S) -> String {
    hexs(&render(b, s))
}

// -------------------------------------------------------------------------------------------------
// --dump coltypes : the column type table, obtained by executing prepare_column_def
// -------------------------------------------------------------------------------------------------

/// (shape key, arity, constructor). The keys must agree with ct_shape in coq/Model/Schema.v (a
/// disagreement shows up as a rendering disagreement in the correspondence).
pub fn shapes() -> Vec<(u32, usize, Box<dyn Fn(u32, u32) -> ColumnType>)> {
    let mut v: Vec<(u32, usize, Box<dyn Fn(u32, u32) -> ColumnType>)> = vec![
        (0, 0, Box::new(|_, _| ColumnType::Char(None))),
        (1, 1, Box::new(|p, _| ColumnType::Char(Some(p)))),
        (2, 1, Box::new(|p, _| ColumnType::String(StringLen::N(p)))),
        (3, 0, Box::new(|_, _| ColumnType::String(StringLen::None))),
        (4, 0, Box::new(|_, _| ColumnType::String(StringLen::Max))),
        (5, 0, Box::new(|_, _| ColumnType::Text)),
        (6, 0, Box::new(|_, _| ColumnType::Blob)),
        (7, 0, Box::new(|_, _| ColumnType::TinyInteger)),
        (8, 0, Box::new(|_, _| ColumnType::SmallInteger)),
        (9, 0, Box::new(|_, _| ColumnType::Integer)),
        (10, 0, Box::new(|_, _| ColumnType::BigInteger)),
        (11, 0, Box::new(|_, _| ColumnType::TinyUnsigned)),
        (12, 0, Box::new(|_, _| ColumnType::SmallUnsigned)),
        (13, 0, Box::new(|_, _| ColumnType::Unsigned)),
        (14, 0, Box::new(|_, _| ColumnType::BigUnsigned)),
        (15, 0, Box::new(|_, _| ColumnType::Float)),
        (16, 0, Box::new(|_, _| ColumnType::Double)),
        (17, 0, Box::new(|_, _| ColumnType::Decimal(None))),
        (18, 2, Box::new(|p, s| ColumnType::Decimal(Some((p, s))))),
        (19, 0, Box::new(|_, _| ColumnType::DateTime)),
        (20, 0, Box::new(|_, _| ColumnType::Timestamp)),
        (21, 0, Box::new(|_, _| ColumnType::TimestampWithTimeZone)),
        (22, 0, Box::new(|_, _| ColumnType::Time)),
        (23, 0, Box::new(|_, _| ColumnType::Date)),
        (24, 0, Box::new(|_, _| ColumnType::Year)),
        (25, 0, Box::new(|_, _| ColumnType::Interval(None, None))),
        (26, 1, Box::new(|p, _| ColumnType::Interval(None, Some(p)))),
        (70, 1, Box::new(|p, _| ColumnType::Binary(p))),
        (71, 1, Box::new(|p, _| ColumnType::VarBinary(StringLen::N(p)))),
        (72, 0, Box::new(|_, _| ColumnType::VarBinary(StringLen::None))),
        (73, 0, Box::new(|_, _| ColumnType::VarBinary(StringLen::Max))),
        (74, 0, Box::new(|_, _| ColumnType::Bit(None))),
        (75, 1, Box::new(|p, _| ColumnType::Bit(Some(p)))),
        (76, 1, Box::new(|p, _| ColumnType::VarBit(p))),
        (77, 0, Box::new(|_, _| ColumnType::Boolean)),
        (78, 0, Box::new(|_, _| ColumnType::Money(None))),
        (79, 2, Box::new(|p, s| ColumnType::Money(Some((p, s))))),
        (80, 0, Box::new(|_, _| ColumnType::Json)),
        (81, 0, Box::new(|_, _| ColumnType::JsonBinary)),
        (82, 0, Box::new(|_, _| ColumnType::Uuid)),
        // structural shapes: the model only uses whether these rows render at all
        (83, 0, Box::new(|_, _| ColumnType::Custom(a("custom_type").into_iden()))),
        (84, 0, Box::new(|_, _| ColumnType::Enum { name: a("enum_name").into_iden(), variants: vec![a("v").into_iden()] })),
        (85, 0, Box::new(|_, _| array_of(ColumnType::Integer))),
        (86, 0, Box::new(|_, _| ColumnType::Vector(None))),
        (87, 1, Box::new(|p, _| ColumnType::Vector(Some(p)))),
        (88, 0, Box::new(|_, _| ColumnType::Cidr)),
        (89, 0, Box::new(|_, _| ColumnType::Inet)),
        (90, 0, Box::new(|_, _| ColumnType::MacAddr)),
        (91, 0, Box::new(|_, _| ColumnType::LTree)),
    ];
    for (i, f) in INTERVALS.iter().enumerate() {
        let f1 = f.clone();
        let f2 = f.clone();
        v.push((30 + i as u32, 0, Box::new(move |_, _| ColumnType::Interval(Some(f1.clone()), None))));
        v.push((50 + i as u32, 1, Box::new(move |p, _| ColumnType::Interval(Some(f2.clone()), Some(p)))));
    }
    v.sort_by_key(|x| x.0);
    v
}

/// the text prepare_column_def writes for the type of a column `c` (None if it panics)
fn type_text(b: B, ty: ColumnType, autoinc: bool) -> Option<String> {
    let r = std::panic::catch_unwind(std::panic::AssertUnwindSafe(move || {
        let mut c = ColumnDef::new_with_type(a("c"), ty);
        if autoinc {
            c.auto_increment();
        }
        let mut s = String::new();
        match b {
            B::My => MysqlQueryBuilder.prepare_column_def(&c, &mut s),
            B::Pg => PostgresQueryBuilder.prepare_column_def(&c, &mut s),
            B::Sl => SqliteQueryBuilder.prepare_column_def(&c, &mut s),
        }
        s
    }));
    let s = r.ok()?;
    let q = match b {
        B::My => "`c` ",
        _ => "\"c\" ",
    };
    let rest = s.strip_prefix(q).unwrap_or_else(|| panic!("column definition does not start with the column name: {}", s));
    let kw = autoinc_keyword(b);
    if autoinc && !kw.is_empty() {
        let suffix = format!(" {}", kw);
        Some(
            rest.strip_suffix(&suffix)
                .unwrap_or_else(|| panic!("column definition does not end with the auto-increment keyword: {}", s))
                .to_string(),
        )
    } else {
        Some(rest.to_string())
    }
}

fn autoinc_keyword(b: B) -> String {
    match b {
        B::My => MysqlQueryBuilder.column_spec_auto_increment_keyword().to_string(),
        B::Pg => PostgresQueryBuilder.column_spec_auto_increment_keyword().to_string(),
        B::Sl => SqliteQueryBuilder.column_spec_auto_increment_keyword().to_string(),
    }
}

#[derive(Clone, Debug, PartialEq)]
enum Piece {
    Lit(String),
    Arg(usize),
}

fn instantiate(t: &[Piece], args: [u32; 2]) -> String {
    let mut s = String::new();
    for p in t {
        match p {
            Piece::Lit(x) => s.push_str(x),
            Piece::Arg(i) => s.push_str(&args[*i].to_string()),
        }
    }
    s
}

/// largest value of parameter `i` (the other at `base`) for which the code does not panic; None = no limit.
/// Assumes the accepted values are downward closed (checked afterwards on the probe grid).
fn limit_of(f: &dyn Fn([u32; 2]) -> bool, i: usize, base: [u32; 2]) -> Option<u32> {
    let mut at = base;
    at[i] = u32::MAX;
    if f(at) {
        return None;
    }
    let (mut lo, mut hi) = (base[i], u32::MAX); // lo ok, hi panics
    while hi - lo > 1 {
        let mid = lo + (hi - lo) / 2;
        at[i] = mid;
        if f(at) {
            lo = mid;
        } else {
            hi = mid;
        }
    }
    Some(lo)
}

const GRID: [u32; 16] = [0, 1, 2, 9, 10, 15, 16, 17, 99, 100, 255, 256, 65535, 65536, 2147483648, 4294967295];
const SENTINELS: [u32; 12] = [1234567, 7654321, 98765, 4321, 16, 15, 14, 13, 12, 11, 10, 9];

struct Row {
    tmpl: Vec<Piece>,
    limits: [Option<u32>; 2],
}

/// derive the template of a shape by executing the code at sentinel parameter values, and check it on a grid
fn derive(b: B, arity: usize, mk: &dyn Fn(u32, u32) -> ColumnType, autoinc: bool) -> Option<Row> {
    let ok = |p: [u32; 2]| type_text(b, mk(p[0], p[1]), autoinc).is_some();
    let base = [0u32, 0u32];
    if !ok(base) {
        // unsupported for every probed parameter value?
        for x in GRID {
            for y in GRID {
                if ok([x, y]) {
                    panic!("a column type renders at ({}, {}) but not at (0, 0): not of the modelled form", x, y);
                }
            }
        }
        return None;
    }
    let mut limits = [None, None];
    for i in 0..arity {
        limits[i] = limit_of(&ok, i, base);
    }
    // sentinels within the limits, pairwise distinct
    let mut sent = [0u32; 2];
    for i in 0..arity {
        sent[i] = *SENTINELS
            .iter()
            .find(|v| limits[i].map_or(true, |m| **v <= m) && (i == 0 || **v != sent[0]))
            .expect("no sentinel fits the limit");
    }
    let text = type_text(b, mk(sent[0], sent[1]), autoinc).expect("sentinel rendering");
    // split the text at the (unique) occurrences of the sentinels
    let mut marks: Vec<(usize, usize, usize)> = vec![]; // (position, length, arg)
    for i in 0..arity {
        let d = sent[i].to_string();
        let occ: Vec<usize> = text.match_indices(&d).map(|(p, _)| p).collect();
        match occ.len() {
            0 => {}
            1 => marks.push((occ[0], d.len(), i)),
            _ => panic!("parameter {} occurs more than once in {}", i, text),
        }
    }
    marks.sort();
    let mut tmpl = vec![];
    let mut pos = 0;
    for (p, len, i) in marks {
        assert!(p >= pos, "overlapping parameters in {}", text);
        if p > pos {
            tmpl.push(Piece::Lit(text[pos..p].to_string()));
        }
        tmpl.push(Piece::Arg(i));
        pos = p + len;
    }
    if pos < text.len() {
        tmpl.push(Piece::Lit(text[pos..].to_string()));
    }
    // check on the grid: panics exactly above the limits, template instantiation is the executed text
    let g0: Vec<u32> = if arity >= 1 { GRID.to_vec() } else { vec![0] };
    let g1: Vec<u32> = if arity >= 2 { GRID.to_vec() } else { vec![0] };
    for &x in &g0 {
        for &y in &g1 {
            let within = limits[0].map_or(true, |m| x <= m) && limits[1].map_or(true, |m| y <= m);
            match type_text(b, mk(x, y), autoinc) {
                Some(t) => {
                    assert!(within, "renders above the derived limit at ({}, {})", x, y);
                    assert!(t == instantiate(&tmpl, [x, y]), "template {:?} does not give {} at ({}, {})", tmpl, t, x, y);
                }
                None => assert!(!within, "panics within the derived limits at ({}, {})", x, y),
            }
        }
    }
    Some(Row { tmpl, limits })
}

fn coq_str(s: &str) -> String {
    format!("[{}]", s.chars().map(|c| (c as u32).to_string()).collect::<Vec<_>>().join("; "))
}
fn coq_opt_n(o: Option<u32>) -> String {
    match o {
        Some(n) => format!("Some {}", n),
        None => "None".to_string(),
    }
}

pub fn dump_coltypes(out: &mut impl Write) {
    // a failed derivation must be visible (main installs a silent panic hook; unsupported types panic by design)
    let r = std::panic::catch_unwind(|| {
        let mut buf: Vec<u8> = vec![];
        dump_coltypes_inner(&mut buf);
        buf
    });
    match r {
        Ok(buf) => out.write_all(&buf).unwrap(),
        Err(e) => {
            let msg = e.downcast_ref::<String>().cloned().or_else(|| e.downcast_ref::<&str>().map(|s| s.to_string())).unwrap_or_default();
            writeln!(out, "DUMP-FAILED coltypes: {}", msg).unwrap();
            out.flush().unwrap();
            std::process::exit(3);
        }
    }
}

fn dump_coltypes_inner(out: &mut impl Write) {
    writeln!(out, "(* GENERATED by sqv-harness --dump coltypes: the column type names of /repo, obtained by executing").unwrap();
    writeln!(out, "   prepare_column_def on every ColumnType shape x backend x auto-increment flag (feature").unwrap();
    writeln!(out, "   option-sqlite-exact-column-type off). A row is (backend 0=MySQL 1=Postgres 2=SQLite, shape key,").unwrap();
    writeln!(out, "   auto-increment, None if the code panics | Some (template, largest accepted value of parameter 1 / 2)).").unwrap();
    writeln!(out, "   A template is a list of literal pieces (inl text) and parameter positions (inr 0 | inr 1), found by").unwrap();
    writeln!(out, "   rendering at sentinel values and checked by execution on a 16 x 16 grid of parameter values. *)").unwrap();
    writeln!(out, "Require Import SQV.Model.Str.").unwrap();
    writeln!(out, "Definition coltype_rows : list (N * N * bool * option (list (str + N) * option N * option N)) := [").unwrap();
    let mut rows = vec![];
    let mut probes = vec![];
    for (bi, b) in BACKENDS.iter().enumerate() {
        for (key, arity, mk) in shapes() {
            for autoinc in [false, true] {
                let r = derive(*b, arity, mk.as_ref(), autoinc);
                let body = match &r {
                    None => "None".to_string(),
                    Some(row) => {
                        let ps: Vec<String> = row
                            .tmpl
                            .iter()
                            .map(|p| match p {
                                Piece::Lit(s) => format!("inl {}", coq_str(s)),
                                Piece::Arg(i) => format!("inr {}", i),
                            })
                            .collect();
                        format!("Some ([{}], {}, {})", ps.join("; "), coq_opt_n(row.limits[0]), coq_opt_n(row.limits[1]))
                    }
                };
                rows.push(format!("  ({}, {}, {}, {})", bi, key, autoinc, body));
                // executed examples (checked against the templates inside Coq)
                let pts: Vec<[u32; 2]> = match arity {
                    0 => vec![[0, 0]],
                    1 => vec![[0, 0], [7, 0], [16, 0], [17, 0], [4294967295, 0]],
                    _ => vec![[0, 0], [10, 2], [16, 4294967295], [17, 3], [4294967295, 65536]],
                };
                for p in pts {
                    let t = type_text(*b, mk(p[0], p[1]), autoinc);
                    probes.push(format!(
                        "  ({}, {}, {}, {}, {}, {})",
                        bi,
                        key,
                        autoinc,
                        p[0],
                        p[1],
                        match t {
                            Some(t) => format!("Some {}", coq_str(&t)),
                            None => "None".to_string(),
                        }
                    ));
                }
            }
        }
    }
    writeln!(out, "{}\n].", rows.join(";\n")).unwrap();
    writeln!(out, "(* executed examples: (backend, shape, auto-increment, parameter 1, parameter 2, text or None = panic) *)").unwrap();
    writeln!(out, "Definition coltype_probes : list (N * N * bool * N * N * option str) := [").unwrap();
    writeln!(out, "{}\n].", probes.join(";\n")).unwrap();
    writeln!(out, "(* TableBuilder::column_spec_auto_increment_keyword per backend *)").unwrap();
    writeln!(out, "Definition autoinc_keyword_rows : list (N * str) := [").unwrap();
    let kws: Vec<String> = BACKENDS.iter().enumerate().map(|(bi, b)| format!("  ({}, {})", bi, coq_str(&autoinc_keyword(*b)))).collect();
    writeln!(out, "{}\n].", kws.join(";\n")).unwrap();
}
