//! C03: every position where a text / char / bytes value is inlined.
use crate::util::*;
use sea_query::extension::postgres::Type;
use sea_query::*;

fn value(kind: &str, payload: &str) -> Value {
    match kind {
        "s" => Value::String(Some(Box::new(unhexs(payload)))),
        "c" => {
            let s = unhexs(payload);
            Value::Char(Some(s.chars().next().unwrap()))
        }
        "y" => Value::Bytes(Some(Box::new(unhex(payload)))),
        // v: payload = <hex of value term>:<hex of model encoding> (Json arm, array elements); fa only
        #[cfg(feature = "fa")]
        "v" => crate::valueterm::parse_value(&unhexs(payload.split(':').next().unwrap())),
        _ => panic!("kind"),
    }
}

fn qs(b: B, s: &SelectStatement) -> String {
    match b {
        B::My => s.to_string(MysqlQueryBuilder),
        B::Pg => s.to_string(PostgresQueryBuilder),
        B::Sl => s.to_string(SqliteQueryBuilder),
    }
}
fn ts<T: SchemaStatementBuilder>(b: B, s: &T) -> String {
    match b {
        B::My => s.to_string(MysqlQueryBuilder),
        B::Pg => s.to_string(PostgresQueryBuilder),
        B::Sl => s.to_string(SqliteQueryBuilder),
    }
}

/// lit <backend> <position> <kind> <payload-hex>
pub fn run(t: &[&str]) -> String {
    let b = backend(t[1]);
    let pos = t[2];
    let kind = t[3];
    let payload = t[4];
    let tb = Alias::new("t");
    let c = Alias::new("c");
    let out = match pos {
        "valstr" => b.qb().value_to_string(&value(kind, payload)),
        "val" => qs(b, Query::select().expr(Expr::val(value(kind, payload)))),
        "const" => qs(b, Query::select().expr(SimpleExpr::Constant(value(kind, payload)))),
        "field" => qs(
            b,
            Query::select().column(c.clone()).from(tb).order_by(
                c,
                Order::Field(Values(vec![value(kind, payload)])),
            ),
        ),
        "likeesc" => {
            let ch = unhexs(payload).chars().next().unwrap();
            qs(
                b,
                Query::select()
                    .column(c.clone())
                    .from(tb)
                    .and_where(Expr::col(c).like(LikeExpr::new("p").escape(ch))),
            )
        }
        "default" => ts(
            b,
            Table::create()
                .table(tb)
                .col(ColumnDef::new(c).string().default(value(kind, payload))),
        ),
        "tcomment" => ts(
            b,
            Table::create()
                .table(tb)
                .comment(unhexs(payload))
                .col(ColumnDef::new(c).string()),
        ),
        "ccomment" => ts(
            b,
            Table::create()
                .table(tb)
                .col(ColumnDef::new(c).string().comment(unhexs(payload))),
        ),
        "enum" => {
            // payload: labels joined by '.' in hex form
            let labels: Vec<Alias> = payload.split('.').map(|h| Alias::new(unhexs(h))).collect();
            ts(
                b,
                Table::create()
                    .table(tb)
                    .col(ColumnDef::new(c).enumeration(Alias::new("e"), labels)),
            )
        }
        "typecreate" => {
            let labels: Vec<Alias> = payload.split('.').map(|h| Alias::new(unhexs(h))).collect();
            Type::create()
                .as_enum(Alias::new("e"))
                .values(labels)
                .to_string(PostgresQueryBuilder)
        }
        "typeadd" => Type::alter()
            .name(Alias::new("e"))
            .add_value(Alias::new(unhexs(payload)))
            .to_string(PostgresQueryBuilder),
        "typeaddbefore" => Type::alter()
            .name(Alias::new("e"))
            .add_value(Alias::new("x"))
            .before(Alias::new(unhexs(payload)))
            .to_string(PostgresQueryBuilder),
        "typerenval" => Type::alter()
            .name(Alias::new("e"))
            .rename_value(Alias::new(unhexs(payload)), Alias::new("y"))
            .to_string(PostgresQueryBuilder),
        _ => panic!("pos"),
    };
    hexs(&out)
}
