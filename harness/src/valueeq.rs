//! C18: PartialEq / Eq / Hash of sea_query::Value and ValueTuple under `hashable-value` (feature set fb).
//!   cmp <a> <b>        -> `<a == b: T|F> <recorded hash streams identical: T|F>`
//!   hstream <a>        -> the stream of Hasher calls made by a.hash(), e.g. `isize:3,isize:1,i32:7`
//!   tcmp / tstream     -> the same for ValueTuple terms
//!   hset [a,b,..] <p>  -> `<len of HashSet<Value> built from the list> <contains p: T|F>`
//!   jtext <json token> -> hex of serde_json::to_string of the pool value (fed back to the model as text)
//! Value terms: harness/src/valueterm.rs. The recorder implements every write_* method separately, so the
//! stream shows which typed call was made (discriminants arrive as write_isize).
use crate::util::hex;
use crate::valueterm::*;
use std::collections::HashSet;
use std::hash::{Hash, Hasher};

#[derive(Default)]
struct Recorder {
    calls: Vec<String>,
}
impl Hasher for Recorder {
    fn finish(&self) -> u64 {
        0
    }
    fn write(&mut self, bytes: &[u8]) {
        self.calls.push(format!("w:{}", hex(bytes)));
    }
    fn write_u8(&mut self, i: u8) {
        self.calls.push(format!("u8:{}", i));
    }
    fn write_u16(&mut self, i: u16) {
        self.calls.push(format!("u16:{}", i));
    }
    fn write_u32(&mut self, i: u32) {
        self.calls.push(format!("u32:{}", i));
    }
    fn write_u64(&mut self, i: u64) {
        self.calls.push(format!("u64:{}", i));
    }
    fn write_u128(&mut self, i: u128) {
        self.calls.push(format!("u128:{}", i));
    }
    fn write_usize(&mut self, i: usize) {
        self.calls.push(format!("usize:{}", i));
    }
    fn write_i8(&mut self, i: i8) {
        self.calls.push(format!("i8:{}", i));
    }
    fn write_i16(&mut self, i: i16) {
        self.calls.push(format!("i16:{}", i));
    }
    fn write_i32(&mut self, i: i32) {
        self.calls.push(format!("i32:{}", i));
    }
    fn write_i64(&mut self, i: i64) {
        self.calls.push(format!("i64:{}", i));
    }
    fn write_i128(&mut self, i: i128) {
        self.calls.push(format!("i128:{}", i));
    }
    fn write_isize(&mut self, i: isize) {
        self.calls.push(format!("isize:{}", i));
    }
}

fn stream<T: Hash>(v: &T) -> String {
    let mut r = Recorder::default();
    v.hash(&mut r);
    if r.calls.is_empty() {
        ".".to_string()
    } else {
        r.calls.join(",")
    }
}
fn tf(b: bool) -> &'static str {
    if b {
        "T"
    } else {
        "F"
    }
}

pub fn run(t: &[&str]) -> String {
    match t[0] {
        "cmp" => {
            let (a, b) = (parse_value(t[1]), parse_value(t[2]));
            format!("{} {}", tf(a == b), tf(stream(&a) == stream(&b)))
        }
        "hstream" => stream(&parse_value(t[1])),
        "tcmp" => {
            let (a, b) = (parse_tuple(t[1]), parse_tuple(t[2]));
            format!("{} {}", tf(a == b), tf(stream(&a) == stream(&b)))
        }
        "tstream" => stream(&parse_tuple(t[1])),
        "hset" => {
            let set: HashSet<sea_query::Value> = split_list(t[1], '[', ']').into_iter().map(parse_value).collect();
            format!("{} {}", set.len(), tf(set.contains(&parse_value(t[2]))))
        }
        "jtext" => {
            let v = <serde_json::Value as Pay>::parse(t[1]);
            hex(serde_json::to_string(&v).unwrap().as_bytes())
        }
        other => format!("UNKNOWN-OP {}", other),
    }
}
