//! C04: every identifier position of query and schema statements.
use crate::util::*;
use sea_query::extension::postgres::Type;
use sea_query::*;

fn a(s: &str) -> Alias {
    Alias::new(s)
}

fn q<T: QueryStatementWriter>(b: B, s: &T) -> String {
    match b {
        B::My => s.to_string(MysqlQueryBuilder),
        B::Pg => s.to_string(PostgresQueryBuilder),
        B::Sl => s.to_string(SqliteQueryBuilder),
    }
}
fn sc<T: SchemaStatementBuilder>(b: B, s: &T) -> String {
    match b {
        B::My => s.to_string(MysqlQueryBuilder),
        B::Pg => s.to_string(PostgresQueryBuilder),
        B::Sl => s.to_string(SqliteQueryBuilder),
    }
}

// Derived identifiers whose (renamed) names contain quote characters: every statement position must
// quote them exactly like an Alias of the same name (the derive may generate its own prepare()).
#[derive(Iden)]
#[iden = "odd\"name` x"]
pub enum OddTable {
    Table,
    Id,
}
#[derive(Iden)]
pub enum OddCols {
    Table,
    #[iden = "we\"ird`col"]
    Weird,
    Plain,
}
#[derive(Iden)]
#[iden = "q\"s"]
pub struct OddUnit;

/// idenderived <backend> <k>: `<statement with the derived iden> <statement with Alias of the same name>`
pub fn run_derived(t: &[&str]) -> String {
    let b = backend(t[1]);
    let pair = |d: DynIden| -> String {
        let name = d.to_string();
        let with_derived = q(b, Query::select().column(d.clone()).from(d.clone()).and_where(Expr::col((d.clone(), d)).is_null()));
        let al = Alias::new(name);
        let with_alias = q(b, Query::select().column(al.clone()).from(al.clone()).and_where(Expr::col((al.clone(), al)).is_null()));
        format!("{} {}", hexs(&with_derived), hexs(&with_alias))
    };
    match t[2] {
        "0" => pair(OddTable::Table.into_iden()),
        "1" => pair(OddTable::Id.into_iden()),
        "2" => pair(OddCols::Table.into_iden()),
        "3" => pair(OddCols::Weird.into_iden()),
        "4" => pair(OddCols::Plain.into_iden()),
        "5" => pair(OddUnit.into_iden()),
        _ => panic!("derived k"),
    }
}

pub const POSITIONS: &[&str] = &[
    "tbl", "schtbl1", "schtbl2", "dbschtbl", "tblalias", "col", "tblcol1", "tblcol2", "schtblcol",
    "expralias", "subqalias", "joinalias", "jointbl", "ctename", "ctecol", "window", "windowref",
    "insertinto", "insertcol", "updatetbl", "updatecol", "deletetbl", "onconflictcol", "onconflictupd",
    "returning", "orderby", "groupby", "indexhint", "asenum", "asenumarr", "tblstar",
    "ctable", "ccol", "cidxname", "cpkname", "cidxcol", "cfkname", "cfkcol", "cfkreftbl", "cfkrefcol",
    "createidxname", "createidxtbl", "createidxcol", "dropidxname", "dropidxtbl",
    "fkcreatename", "fkcreatetbl", "fkdropname", "altaddcol", "altrenfrom", "altrento", "altdropcol",
    "altmodcol", "rentblfrom", "rentblto", "droptbl", "trunctbl", "typecreatename", "typedropname",
    "typealtername", "updfrom", "uniqname", "cenumtype",
    // foreign keys through ALTER TABLE (TableAlterOption::AddForeignKey / DropForeignKey)
    "altdropfk", "altaddfkname", "altaddfkcol", "altaddfkreftbl", "altaddfkrefcol",
];

/// iden <backend> <position> <name-hex>
pub fn run(t: &[&str]) -> String {
    let b = backend(t[1]);
    let n = a(&unhexs(t[3]));
    hexs(&render(b, t[2], n))
}

pub fn render(b: B, pos: &str, n: Alias) -> String {
    let (t, c, s) = (a("t"), a("c"), a("s"));
    match pos {
        "tbl" => q(b, Query::select().column(c).from(n)),
        "schtbl1" => q(b, Query::select().column(c).from((n, t))),
        "schtbl2" => q(b, Query::select().column(c).from((s, n))),
        "dbschtbl" => q(b, Query::select().column(c).from((n, s, t))),
        "tblalias" => q(b, Query::select().column(c).from_as(t, n)),
        "col" => q(b, Query::select().column(n).from(t)),
        "tblcol1" => q(b, Query::select().column((n, c)).from(t)),
        "tblcol2" => q(b, Query::select().column((t, n)).from(a("t"))),
        "schtblcol" => q(b, Query::select().column((n, t, c)).from(a("t"))),
        "expralias" => q(b, Query::select().expr_as(Expr::col(c), n).from(t)),
        "subqalias" => q(
            b,
            Query::select()
                .column(c)
                .from_subquery(Query::select().column(a("c")).from(t).take(), n),
        ),
        "joinalias" => q(
            b,
            Query::select().column(c).from(t).join_as(
                JoinType::InnerJoin,
                a("u"),
                n.clone(),
                Expr::col((n, a("c"))).equals((a("t"), a("c"))),
            ),
        ),
        "jointbl" => q(
            b,
            Query::select()
                .column(c)
                .from(t)
                .left_join(n, Expr::col((a("t"), a("c"))).is_not_null()),
        ),
        "ctename" => {
            let cte = CommonTableExpression::new()
                .query(Query::select().column(a("c")).from(t).take())
                .table_name(n.clone())
                .to_owned();
            q(
                b,
                &Query::select()
                    .column(c)
                    .from(n)
                    .to_owned()
                    .with(WithClause::new().cte(cte).to_owned()),
            )
        }
        "ctecol" => {
            let cte = CommonTableExpression::new()
                .query(Query::select().column(a("c")).from(t).take())
                .column(n)
                .table_name(a("w"))
                .to_owned();
            q(
                b,
                &Query::select()
                    .column(c)
                    .from(a("w"))
                    .to_owned()
                    .with(WithClause::new().cte(cte).to_owned()),
            )
        }
        "window" => q(
            b,
            Query::select()
                .column(c)
                .from(t)
                .window(n, WindowStatement::partition_by(a("c"))),
        ),
        "windowref" => q(
            b,
            Query::select()
                .from(t)
                .expr_window_name(Expr::col(c), n.clone())
                .window(n, WindowStatement::partition_by(a("c"))),
        ),
        "insertinto" => q(
            b,
            Query::insert().into_table(n).columns([c]).values_panic([1.into()]),
        ),
        "insertcol" => q(
            b,
            Query::insert().into_table(t).columns([n]).values_panic([1.into()]),
        ),
        "updatetbl" => q(b, Query::update().table(n).value(c, 1)),
        "updatecol" => q(b, Query::update().table(t).value(n, 1)),
        "updfrom" => q(
            b,
            Query::update()
                .table(t)
                .value(c, 1)
                .from(n.clone())
                .and_where(Expr::col((a("t"), a("c"))).equals((n, a("c")))),
        ),
        "deletetbl" => q(b, Query::delete().from_table(n)),
        "onconflictcol" => q(
            b,
            Query::insert()
                .into_table(t)
                .columns([c])
                .values_panic([1.into()])
                .on_conflict(OnConflict::column(n).do_nothing().to_owned()),
        ),
        "onconflictupd" => q(
            b,
            Query::insert()
                .into_table(t)
                .columns([n.clone()])
                .values_panic([1.into()])
                .on_conflict(OnConflict::column(c).update_column(n).to_owned()),
        ),
        "returning" => q(
            b,
            Query::insert()
                .into_table(t)
                .columns([c])
                .values_panic([1.into()])
                .returning(Query::returning().column(n)),
        ),
        "orderby" => q(b, Query::select().column(c).from(t).order_by(n, Order::Asc)),
        "groupby" => q(b, Query::select().column(c).from(t).group_by_col(n)),
        "indexhint" => {
            use sea_query::extension::mysql::*;
            q(
                b,
                Query::select()
                    .column(c)
                    .from(t)
                    .use_index(n, IndexHintScope::All),
            )
        }
        "asenum" => q(b, Query::select().expr(Expr::col(c).as_enum(n)).from(t)),
        "asenumarr" => q(
            b,
            Query::select()
                .expr(Expr::col(c).as_enum(a(&format!("{}[]", n.to_string()))))
                .from(t),
        ),
        "tblstar" => q(b, Query::select().column((n, Asterisk)).from(t)),
        "ctable" => sc(b, Table::create().table(n).col(ColumnDef::new(c).integer())),
        "ccol" => sc(b, Table::create().table(t).col(ColumnDef::new(n).integer())),
        "cidxname" => sc(
            b,
            Table::create()
                .table(t)
                .col(ColumnDef::new(c).integer())
                .index(Index::create().unique().name(n.to_string()).col(a("c"))),
        ),
        "uniqname" => sc(
            b,
            Table::create()
                .table(t)
                .col(ColumnDef::new(c).integer())
                .index(Index::create().name(n.to_string()).col(a("c"))),
        ),
        "cpkname" => sc(
            b,
            Table::create()
                .table(t)
                .col(ColumnDef::new(c).integer())
                .primary_key(Index::create().name(n.to_string()).col(a("c"))),
        ),
        "cidxcol" => sc(
            b,
            Table::create()
                .table(t)
                .col(ColumnDef::new(c).integer())
                .index(Index::create().unique().name("i").col(n)),
        ),
        "cfkname" | "cfkcol" | "cfkreftbl" | "cfkrefcol" => {
            let mut fk = ForeignKey::create();
            fk.name(if pos == "cfkname" { n.to_string() } else { "f".to_string() });
            fk.from(a("t"), if pos == "cfkcol" { n.clone() } else { a("c") });
            fk.to(
                if pos == "cfkreftbl" { n.clone() } else { a("u") },
                if pos == "cfkrefcol" { n.clone() } else { a("d") },
            );
            sc(
                b,
                Table::create()
                    .table(t)
                    .col(ColumnDef::new(c).integer())
                    .foreign_key(&mut fk),
            )
        }
        "cenumtype" => sc(
            b,
            Table::create()
                .table(t)
                .col(ColumnDef::new(c).enumeration(n, [a("x")])),
        ),
        "createidxname" => sc(b, Index::create().name(n.to_string()).table(t).col(c)),
        "createidxtbl" => sc(b, Index::create().name("i").table(n).col(c)),
        "createidxcol" => sc(b, Index::create().name("i").table(t).col(n)),
        "dropidxname" => sc(b, Index::drop().name(n.to_string()).table(t)),
        "dropidxtbl" => sc(b, Index::drop().name("i").table(n)),
        "fkcreatename" => sc(
            b,
            ForeignKey::create()
                .name(n.to_string())
                .from(t, c)
                .to(a("u"), a("d")),
        ),
        "fkcreatetbl" => sc(
            b,
            ForeignKey::create().name("f").from(n, c).to(a("u"), a("d")),
        ),
        "fkdropname" => sc(b, ForeignKey::drop().name(n.to_string()).table(t)),
        "altaddcol" => sc(
            b,
            Table::alter().table(t).add_column(ColumnDef::new(n).integer()),
        ),
        "altdropfk" => sc(b, Table::alter().table(t).drop_foreign_key(n)),
        "altaddfkname" | "altaddfkcol" | "altaddfkreftbl" | "altaddfkrefcol" => {
            let mut fk = TableForeignKey::new();
            fk.name(if pos == "altaddfkname" { n.to_string() } else { "f".to_string() });
            fk.from_tbl(t.clone());
            fk.from_col(if pos == "altaddfkcol" { n.clone() } else { c.clone() });
            fk.to_tbl(if pos == "altaddfkreftbl" { n.clone() } else { a("u") });
            fk.to_col(if pos == "altaddfkrefcol" { n.clone() } else { a("d") });
            sc(b, Table::alter().table(t).add_foreign_key(&fk))
        }
        "altrenfrom" => sc(b, Table::alter().table(t).rename_column(n, c)),
        "altrento" => sc(b, Table::alter().table(t).rename_column(c, n)),
        "altdropcol" => sc(b, Table::alter().table(t).drop_column(n)),
        "altmodcol" => sc(
            b,
            Table::alter()
                .table(t)
                .modify_column(ColumnDef::new(n).integer().not_null()),
        ),
        "rentblfrom" => sc(b, Table::rename().table(n, t)),
        "rentblto" => sc(b, Table::rename().table(t, n)),
        "droptbl" => sc(b, Table::drop().table(n)),
        "trunctbl" => sc(b, Table::truncate().table(n)),
        "typecreatename" => Type::create()
            .as_enum(n)
            .values([a("x")])
            .to_string(PostgresQueryBuilder),
        "typedropname" => Type::drop().name(n).to_string(PostgresQueryBuilder),
        "typealtername" => Type::alter()
            .name(n)
            .add_value(a("x"))
            .to_string(PostgresQueryBuilder),
        _ => panic!("pos"),
    }
}
