//! Model-side encoding of a real `Value` (statement-level correspondence over ALL value kinds: the `v:`
//! atom of the case language and the `venc` op).  Feature set fa and above.
//!
//! `enc(&Value)` prints the value as the small s-expression the OCaml driver decodes into the extracted
//! `value` type (extract/main/cases.ml `value_of_enc`):
//!   (b 0|1)  (i i8|i16|i32|i64|u8|u16|u32|u64 <decimal>)  (s <hex>)  (c <hex>)  (y <hex>)
//!   (f32 <bits hex> <Display text hex>)  (f64 <bits hex> <Display text hex>)
//!   (null <Variant>)  (o <Variant> <oid decimal> <formatter text hex>)
//!   (arr <ElemVariant> v1 v2 ...)  (arrnull <ElemVariant>)
//!
//! This is the ONLY place where the text an external formatter prints for a payload-crate value is
//! computed, and it is computed WITHOUT sea-query: the payload crates are called directly with the
//! documented formats (own copies of the format strings / format descriptions; never
//! `value_to_string`, `Value`'s Display or `sea_query::value::time_format`).  The model receives the
//! text and only adds the SQL quoting (coq/Model/Writer.v `value_to_string`), so a change of an arm of
//! `value_to_string_common` shows up as a correspondence difference.
//!
//! `oid` is an injective numbering of the payload: JSON = the bytes of the serde_json text, vectors =
//! the element bit patterns, the other crates = the valueterm id (`id * 16 + k`).
use crate::util::{hex, hexs};
use crate::valueterm::Pay;
use bigdecimal::num_bigint::BigUint;
use sea_query::{ArrayType, Value};
use time::format_description::FormatItem;
use time::macros::format_description;

// own copies of the documented time-crate formats (NOT sea_query::value::time_format)
static T_DATE: &[FormatItem<'static>] = format_description!("[year]-[month]-[day]");
static T_TIME: &[FormatItem<'static>] = format_description!("[hour]:[minute]:[second].[subsecond digits:6]");
static T_DATETIME: &[FormatItem<'static>] =
    format_description!("[year]-[month]-[day] [hour]:[minute]:[second].[subsecond digits:6]");
static T_DATETIME_TZ: &[FormatItem<'static>] = format_description!(
    "[year]-[month]-[day] [hour]:[minute]:[second].[subsecond digits:6] [offset_hour sign:mandatory]:[offset_minute]"
);

fn null(tag: &str) -> String {
    format!("(null {})", tag)
}

/// oid of a payload-crate value built from a valueterm id token `<id>` / `<id>~<k>`
fn oid_of_token(tok: &str) -> String {
    if tok.starts_with('?') {
        // not a value the term language can build: number it by the bytes of its description
        return bytes_oid(tok.as_bytes());
    }
    let mut it = tok.split('~');
    let id: BigUint = it.next().unwrap().parse().expect("opaque id");
    let k: u32 = it.next().map(|k| k.parse().expect("k")).unwrap_or(0);
    (id * BigUint::from(16u32) + BigUint::from(k)).to_string()
}
fn bytes_oid(b: &[u8]) -> String {
    let mut v = vec![1u8];
    v.extend_from_slice(b);
    BigUint::from_bytes_be(&v).to_string()
}

fn opaque<T: Pay>(tag: &str, v: &Option<Box<T>>, text: impl FnOnce(&T) -> String) -> String {
    match v {
        None => null(tag),
        Some(x) => format!("(o {} {} {})", tag, oid_of_token(&x.show()), hexs(&text(x))),
    }
}

fn int<T: std::fmt::Display>(variant: &str, short: &str, v: &Option<T>) -> String {
    match v {
        None => null(variant),
        Some(x) => format!("(i {} {})", short, x),
    }
}

pub fn array_type_name(t: &ArrayType) -> String {
    format!("{:?}", t)
}

pub fn enc(v: &Value) -> String {
    match v {
        Value::Bool(None) => null("Bool"),
        Value::Bool(Some(b)) => format!("(b {})", if *b { 1 } else { 0 }),
        Value::TinyInt(x) => int("TinyInt", "i8", x),
        Value::SmallInt(x) => int("SmallInt", "i16", x),
        Value::Int(x) => int("Int", "i32", x),
        Value::BigInt(x) => int("BigInt", "i64", x),
        Value::TinyUnsigned(x) => int("TinyUnsigned", "u8", x),
        Value::SmallUnsigned(x) => int("SmallUnsigned", "u16", x),
        Value::Unsigned(x) => int("Unsigned", "u32", x),
        Value::BigUnsigned(x) => int("BigUnsigned", "u64", x),
        Value::Float(None) => null("Float"),
        Value::Float(Some(x)) => format!("(f32 {:x} {})", x.to_bits(), hexs(&format!("{}", x))),
        Value::Double(None) => null("Double"),
        Value::Double(Some(x)) => format!("(f64 {:x} {})", x.to_bits(), hexs(&format!("{}", x))),
        Value::String(None) => null("String"),
        Value::String(Some(s)) => format!("(s {})", hexs(s)),
        Value::Char(None) => null("Char"),
        Value::Char(Some(c)) => format!("(c {})", hexs(&c.to_string())),
        Value::Bytes(None) => null("Bytes"),
        Value::Bytes(Some(b)) => format!("(y {})", hex(b)),
        Value::Json(None) => null("Json"),
        Value::Json(Some(j)) => {
            let text = serde_json::to_string(&**j).expect("serde_json::to_string");
            format!("(o Json {} {})", bytes_oid(text.as_bytes()), hexs(&text))
        }
        Value::ChronoDate(x) => opaque("ChronoDate", x, |d| d.format("%Y-%m-%d").to_string()),
        Value::ChronoTime(x) => opaque("ChronoTime", x, |d| d.format("%H:%M:%S").to_string()),
        Value::ChronoDateTime(x) => opaque("ChronoDateTime", x, |d| d.format("%Y-%m-%d %H:%M:%S").to_string()),
        Value::ChronoDateTimeUtc(x) => opaque("ChronoDateTimeUtc", x, |d| d.format("%Y-%m-%d %H:%M:%S %:z").to_string()),
        Value::ChronoDateTimeLocal(x) => {
            opaque("ChronoDateTimeLocal", x, |d| d.format("%Y-%m-%d %H:%M:%S %:z").to_string())
        }
        Value::ChronoDateTimeWithTimeZone(x) => {
            opaque("ChronoDateTimeWithTimeZone", x, |d| d.format("%Y-%m-%d %H:%M:%S %:z").to_string())
        }
        Value::TimeDate(x) => opaque("TimeDate", x, |d| d.format(T_DATE).expect("time format")),
        Value::TimeTime(x) => opaque("TimeTime", x, |d| d.format(T_TIME).expect("time format")),
        Value::TimeDateTime(x) => opaque("TimeDateTime", x, |d| d.format(T_DATETIME).expect("time format")),
        Value::TimeDateTimeWithTimeZone(x) => {
            opaque("TimeDateTimeWithTimeZone", x, |d| d.format(T_DATETIME_TZ).expect("time format"))
        }
        Value::Uuid(x) => opaque("Uuid", x, |d| format!("{}", d)),
        Value::Decimal(x) => opaque("Decimal", x, |d| format!("{}", d)),
        Value::BigDecimal(x) => opaque("BigDecimal", x, |d| format!("{}", d)),
        Value::IpNetwork(x) => opaque("IpNetwork", x, |d| format!("{}", d)),
        Value::MacAddress(x) => opaque("MacAddress", x, |d| format!("{}", d)),
        Value::Vector(None) => null("Vector"),
        Value::Vector(Some(vec)) => {
            let fs: &[f32] = vec.as_slice();
            let text = fs.iter().map(|f| format!("{}", f)).collect::<Vec<_>>().join(",");
            let mut bytes = vec![];
            for f in fs {
                bytes.extend_from_slice(&f.to_bits().to_be_bytes());
            }
            format!("(o Vector {} {})", bytes_oid(&bytes), hexs(&text))
        }
        Value::Array(ty, None) => format!("(arrnull {})", array_type_name(ty)),
        Value::Array(ty, Some(vs)) => {
            let mut s = format!("(arr {}", array_type_name(ty));
            for e in vs.iter() {
                s.push(' ');
                s.push_str(&enc(e));
            }
            s.push(')');
            s
        }
    }
}

/// bound-value form of the kinds the legacy `exprs::show_value` does not print: the encoding with
/// spaces replaced by `_` (the values field of an output line is split on ` ` and `,`)
pub fn show_bound(v: &Value) -> String {
    enc(v).replace(' ', "_")
}

/// venc <hex of value term> : hex of the model encoding
pub fn run(t: &[&str]) -> String {
    let v = crate::valueterm::parse_value(&crate::util::unhexs(t[1]));
    hexs(&enc(&v))
}
