use sea_query::*;

pub fn hex(s: &[u8]) -> String {
    if s.is_empty() {
        return "-".to_string();
    }
    let mut o = String::with_capacity(s.len() * 2);
    for b in s {
        o.push_str(&format!("{:02x}", b));
    }
    o
}
pub fn hexs(s: &str) -> String {
    hex(s.as_bytes())
}
pub fn unhex(h: &str) -> Vec<u8> {
    if h == "-" {
        return vec![];
    }
    (0..h.len() / 2)
        .map(|i| u8::from_str_radix(&h[2 * i..2 * i + 2], 16).unwrap())
        .collect()
}
pub fn unhexs(h: &str) -> String {
    String::from_utf8(unhex(h)).expect("utf8")
}

#[derive(Clone, Copy, PartialEq, Debug)]
pub enum B {
    My,
    Pg,
    Sl,
}
pub fn backend(s: &str) -> B {
    match s {
        "my" => B::My,
        "pg" => B::Pg,
        "sl" => B::Sl,
        _ => panic!("backend"),
    }
}
pub const BACKENDS: [B; 3] = [B::My, B::Pg, B::Sl];
impl B {
    pub fn name(&self) -> &'static str {
        match self {
            B::My => "my",
            B::Pg => "pg",
            B::Sl => "sl",
        }
    }
    pub fn esc(&self) -> &'static dyn EscapeBuilder {
        match self {
            B::My => &MysqlQueryBuilder,
            B::Pg => &PostgresQueryBuilder,
            B::Sl => &SqliteQueryBuilder,
        }
    }
    pub fn qb(&self) -> &'static dyn QueryBuilder {
        match self {
            B::My => &MysqlQueryBuilder,
            B::Pg => &PostgresQueryBuilder,
            B::Sl => &SqliteQueryBuilder,
        }
    }
    pub fn sb(&self) -> &'static dyn SchemaBuilder {
        match self {
            B::My => &MysqlQueryBuilder,
            B::Pg => &PostgresQueryBuilder,
            B::Sl => &SqliteQueryBuilder,
        }
    }
}
