//! Text <-> real Rust values for the Value properties (C12, C18). Feature set fa/fb only.
//!
//! Payload token of a Rust type (trait Pay): bool `0|1`; integers decimal; f32/f64 the bit pattern in
//! hex (8/16 digits); char the code point in hex; String/Vec<u8> hex of the bytes (`-` = empty);
//! pgvector::Vector the f32 bit patterns separated by `.` (`-` = empty); values of the payload crates
//! `<id>` or `<id>~<k>`: the value is built deterministically from the integer id, k selects another
//! representation of the SAME value where the crate has one (decimal scale, time-zone offset, JSON key
//! insertion order). show() recomputes the token from the value alone (inverse of the construction).
//! serde_json::Value additionally accepts `s<hex>`: the JSON string with that content.
//! Option<T>: `N` or the token of T. Vec<T>: `[tok,tok]`.
//!
//! Value term: `Variant:N` | `Variant:<token>` | `Array:Elem:N` | `Array:Elem:[term,term]`.
//! ValueTuple term: `One(t)` `Two(t,t)` `Three(t,t,t)` `Many[t,..]`.
use crate::util::{hex, unhex};
use sea_query::{ArrayType, Value, ValueTuple};
use std::borrow::Cow;

pub trait Pay: Sized {
    fn parse(tok: &str) -> Self;
    fn show(&self) -> String;
}

fn split_id(tok: &str) -> (u128, u32) {
    let tok = tok.split('/').next().unwrap();
    let mut it = tok.split('~');
    let id: u128 = it.next().unwrap().parse().expect("opaque id");
    let k: u32 = it.next().map(|k| k.parse().expect("k")).unwrap_or(0);
    (id, k)
}
fn join_id(id: u128, k: u32) -> String {
    if k == 0 {
        format!("{}", id)
    } else {
        format!("{}~{}", id, k)
    }
}
/// the token is accepted only if rebuilding the value from it gives the very same value
fn checked<T: std::fmt::Debug>(tok: String, y: &T, rebuilt: Option<T>) -> String {
    match rebuilt {
        Some(r) if format!("{:?}", r) == format!("{:?}", y) => tok,
        _ => format!("?{}", hex(format!("{:?}", y).as_bytes())),
    }
}

macro_rules! pay_int {
    ($($t:ty),*) => {$(
        impl Pay for $t {
            fn parse(tok: &str) -> Self { tok.parse().expect("integer payload out of range") }
            fn show(&self) -> String { format!("{}", self) }
        }
    )*};
}
pay_int!(i8, i16, i32, i64, u8, u16, u32, u64);

impl Pay for bool {
    fn parse(tok: &str) -> Self {
        match tok {
            "0" => false,
            "1" => true,
            _ => panic!("bool"),
        }
    }
    fn show(&self) -> String {
        (if *self { "1" } else { "0" }).to_string()
    }
}
impl Pay for f32 {
    fn parse(tok: &str) -> Self {
        assert!(tok.len() == 8);
        f32::from_bits(u32::from_str_radix(tok, 16).unwrap())
    }
    fn show(&self) -> String {
        format!("{:08x}", self.to_bits())
    }
}
impl Pay for f64 {
    fn parse(tok: &str) -> Self {
        assert!(tok.len() == 16);
        f64::from_bits(u64::from_str_radix(tok, 16).unwrap())
    }
    fn show(&self) -> String {
        format!("{:016x}", self.to_bits())
    }
}
impl Pay for char {
    fn parse(tok: &str) -> Self {
        char::from_u32(u32::from_str_radix(tok, 16).unwrap()).expect("scalar value")
    }
    fn show(&self) -> String {
        format!("{:x}", *self as u32)
    }
}
impl Pay for String {
    fn parse(tok: &str) -> Self {
        String::from_utf8(unhex(tok)).expect("utf8")
    }
    fn show(&self) -> String {
        hex(self.as_bytes())
    }
}
impl Pay for Cow<'static, str> {
    fn parse(tok: &str) -> Self {
        Cow::Owned(String::parse(tok))
    }
    fn show(&self) -> String {
        hex(self.as_bytes())
    }
}
impl Pay for Vec<u8> {
    fn parse(tok: &str) -> Self {
        unhex(tok)
    }
    fn show(&self) -> String {
        hex(self)
    }
}
impl Pay for pgvector::Vector {
    fn parse(tok: &str) -> Self {
        if tok == "-" {
            return pgvector::Vector::from(Vec::<f32>::new());
        }
        pgvector::Vector::from(tok.split('.').map(f32::parse).collect::<Vec<f32>>())
    }
    fn show(&self) -> String {
        let v = self.as_slice();
        if v.is_empty() {
            return "-".to_string();
        }
        v.iter().map(|f| f.show()).collect::<Vec<_>>().join(".")
    }
}
impl<T: Pay> Pay for Option<T> {
    fn parse(tok: &str) -> Self {
        if tok == "N" {
            None
        } else {
            Some(T::parse(tok))
        }
    }
    fn show(&self) -> String {
        match self {
            None => "N".to_string(),
            Some(x) => x.show(),
        }
    }
}

/// `[a,b,c]` -> items (terms may nest brackets / parentheses)
pub fn split_list(s: &str, open: char, close: char) -> Vec<&str> {
    assert!(s.starts_with(open) && s.ends_with(close), "list syntax: {}", s);
    let inner = &s[1..s.len() - 1];
    let mut out = vec![];
    if inner.is_empty() {
        return out;
    }
    let (mut depth, mut start) = (0i32, 0usize);
    for (i, c) in inner.char_indices() {
        match c {
            '[' | '(' => depth += 1,
            ']' | ')' => depth -= 1,
            ',' if depth == 0 => {
                out.push(&inner[start..i]);
                start = i + 1;
            }
            _ => {}
        }
    }
    out.push(&inner[start..]);
    out
}

macro_rules! pay_vec {
    ($($t:ty),*) => {$(
        impl Pay for Vec<$t> {
            fn parse(tok: &str) -> Self { split_list(tok, '[', ']').into_iter().map(<$t>::parse).collect() }
            fn show(&self) -> String { format!("[{}]", self.iter().map(|x| x.show()).collect::<Vec<_>>().join(",")) }
        }
    )*};
}
pay_vec!(
    bool, i8, i16, i32, i64, u16, u32, u64, f32, f64, char, String, Vec<u8>, serde_json::Value,
    chrono::NaiveDate, chrono::NaiveTime, chrono::NaiveDateTime, chrono::DateTime<chrono::Utc>,
    chrono::DateTime<chrono::Local>, chrono::DateTime<chrono::FixedOffset>, time::Date, time::Time,
    time::PrimitiveDateTime, time::OffsetDateTime, rust_decimal::Decimal, bigdecimal::BigDecimal, uuid::Uuid,
    uuid::fmt::Braced, uuid::fmt::Hyphenated, uuid::fmt::Simple, uuid::fmt::Urn, ipnetwork::IpNetwork,
    mac_address::MacAddress
);

// ---- payload crates: value <-> id ----------------------------------------------------------------

/// JSON pool: (source text, the same value with another key insertion order)
pub const JSON_POOL: &[(&str, &str)] = &[
    ("null", "null"),
    ("true", "true"),
    ("false", "false"),
    ("0", "0"),
    ("1", "1"),
    ("1.0", "1.0"),
    ("-0.0", "-0.0"),
    ("\"\"", "\"\""),
    ("\"a\"", "\"a\""),
    ("\"null\"", "\"null\""),
    ("[]", "[]"),
    ("[null]", "[null]"),
    ("[1,2]", "[1,2]"),
    ("[2,1]", "[2,1]"),
    ("{}", "{}"),
    ("{\"a\":1,\"b\":2}", "{\"b\":2,\"a\":1}"),
    ("{\"a\":1,\"b\":3}", "{\"b\":3,\"a\":1}"),
    ("{\"a\":2,\"b\":1}", "{\"b\":1,\"a\":2}"),
    (
        "{\"a\":-1.5e10,\"b\":{\"x\":\"\u{e9}\\n'\",\"y\":[1,{\"q\":null,\"p\":[]}]}}",
        "{\"b\":{\"y\":[1,{\"p\":[],\"q\":null}],\"x\":\"\u{e9}\\n'\"},\"a\":-1.5e10}",
    ),
    ("18446744073709551615", "18446744073709551615"),
    ("-9223372036854775808", "-9223372036854775808"),
    ("1e300", "1e300"),
    ("{\"\":{\"\":{}}}", "{\"\":{\"\":{}}}"),
    // appended for the statement-level value pool (tools/richvalues.py); ids 0..22 are used by C12 / C18 and
    // must keep their numbers: quotes, backslashes, placeholder marks, non-ASCII inside JSON strings
    ("\"it's\"", "\"it's\""),
    ("\"say \\\"hi\\\"\"", "\"say \\\"hi\\\"\""),
    ("\"back\\\\slash\\\\\"", "\"back\\\\slash\\\\\""),
    ("\"\\\\'\"", "\"\\\\'\""),
    ("{\"k'\\\"\":\"? $1 ?? $$\"}", "{\"k'\\\"\":\"? $1 ?? $$\"}"),
    ("[\"\u{e9}\u{4e2d}\u{1f600}\",\"\\u0000\\u001a\\t\"]", "[\"\u{e9}\u{4e2d}\u{1f600}\",\"\\u0000\\u001a\\t\"]"),
    ("{\"a\":\"x\\\\\",\"b\":\"' OR 1=1 --\"}", "{\"b\":\"' OR 1=1 --\",\"a\":\"x\\\\\"}"),
    ("\"%_\\\\%\"", "\"%_\\\\%\""),
    // appended for C18 (ids 31..35): documents that differ only in the sign of a float zero - equal as f64,
    // different as text; equality and hashing of Value::Json must treat them alike
    ("0.0", "0.0"),
    ("[0.0]", "[0.0]"),
    ("[-0.0]", "[-0.0]"),
    ("{\"z\":0.0}", "{\"z\":0.0}"),
    ("{\"z\":-0.0}", "{\"z\":-0.0}"),
];

impl Pay for serde_json::Value {
    fn parse(tok: &str) -> Self {
        // `s<hex>`: the JSON string with that content (any text; used by C03 for the Json arm)
        if let Some(h) = tok.strip_prefix('s') {
            return serde_json::Value::String(String::parse(h));
        }
        let (id, k) = split_id(tok);
        let e = JSON_POOL[id as usize];
        serde_json::from_str(if k == 0 { e.0 } else { e.1 }).expect("json pool entry")
    }
    fn show(&self) -> String {
        for (i, e) in JSON_POOL.iter().enumerate() {
            let v: serde_json::Value = serde_json::from_str(e.0).unwrap();
            if v == *self && v.to_string() == self.to_string() {
                return join_id(i as u128, 0);
            }
        }
        format!("?{}", hex(self.to_string().as_bytes()))
    }
}

const OFFSETS: [i32; 4] = [0, 3600, -(5 * 3600 + 1800), 14 * 3600];

fn chrono_epoch() -> chrono::NaiveDate {
    chrono::NaiveDate::from_ymd_opt(1970, 1, 1).unwrap()
}
impl Pay for chrono::NaiveDate {
    fn parse(tok: &str) -> Self {
        let (id, _) = split_id(tok);
        chrono_epoch() + chrono::Duration::days(id as i64)
    }
    fn show(&self) -> String {
        let id = (*self - chrono_epoch()).num_days();
        checked(join_id(id as u128, 0), self, Some(chrono_epoch() + chrono::Duration::days(id)))
    }
}
const NS: u128 = 1_000_000_000;
/// time-of-day and date-time payload ids count NANOSECONDS (since midnight / since the Unix epoch): a conversion
/// that loses sub-second digits changes the id
fn naive_time(id: u128) -> Option<chrono::NaiveTime> {
    chrono::NaiveTime::from_num_seconds_from_midnight_opt((id / NS) as u32, (id % NS) as u32)
}
impl Pay for chrono::NaiveTime {
    fn parse(tok: &str) -> Self {
        naive_time(split_id(tok).0).expect("time of day in ns")
    }
    fn show(&self) -> String {
        use chrono::Timelike;
        let id = self.num_seconds_from_midnight() as u128 * NS + self.nanosecond() as u128;
        checked(join_id(id, 0), self, naive_time(id))
    }
}
fn utc_dt(id: u128) -> Option<chrono::DateTime<chrono::Utc>> {
    chrono::DateTime::<chrono::Utc>::from_timestamp((id / NS) as i64, (id % NS) as u32)
}
fn utc_id(d: &chrono::DateTime<chrono::Utc>) -> u128 {
    d.timestamp() as u128 * NS + d.timestamp_subsec_nanos() as u128
}
fn naive_dt(id: u128) -> chrono::NaiveDateTime {
    utc_dt(id).expect("date-time in ns").naive_utc()
}
impl Pay for chrono::NaiveDateTime {
    fn parse(tok: &str) -> Self {
        naive_dt(split_id(tok).0)
    }
    fn show(&self) -> String {
        let id = utc_id(&self.and_utc());
        checked(join_id(id, 0), self, Some(naive_dt(id)))
    }
}
impl Pay for chrono::DateTime<chrono::Utc> {
    fn parse(tok: &str) -> Self {
        utc_dt(split_id(tok).0).unwrap()
    }
    fn show(&self) -> String {
        let id = utc_id(self);
        checked(join_id(id, 0), self, utc_dt(id))
    }
}
impl Pay for chrono::DateTime<chrono::Local> {
    fn parse(tok: &str) -> Self {
        <chrono::DateTime<chrono::Utc>>::parse(tok).with_timezone(&chrono::Local)
    }
    fn show(&self) -> String {
        let id = utc_id(&self.with_timezone(&chrono::Utc));
        checked(join_id(id, 0), self, utc_dt(id).map(|d| d.with_timezone(&chrono::Local)))
    }
}
fn fixed_dt(id: u128, k: u32) -> Option<chrono::DateTime<chrono::FixedOffset>> {
    let off = chrono::FixedOffset::east_opt(*OFFSETS.get(k as usize)?)?;
    Some(utc_dt(id)?.with_timezone(&off))
}
impl Pay for chrono::DateTime<chrono::FixedOffset> {
    fn parse(tok: &str) -> Self {
        let (id, k) = split_id(tok);
        fixed_dt(id, k).expect("datetime with offset")
    }
    fn show(&self) -> String {
        let id = utc_id(&self.with_timezone(&chrono::Utc));
        let off = self.offset().local_minus_utc();
        let k = OFFSETS.iter().position(|o| *o == off).map(|k| k as u32).unwrap_or(99);
        checked(join_id(id, k), self, fixed_dt(id, k))
    }
}
const UNIX_JD: i32 = 2440588;
impl Pay for time::Date {
    fn parse(tok: &str) -> Self {
        time::Date::from_julian_day(UNIX_JD + split_id(tok).0 as i32).unwrap()
    }
    fn show(&self) -> String {
        let id = self.to_julian_day() - UNIX_JD;
        checked(join_id(id as u128, 0), self, time::Date::from_julian_day(UNIX_JD + id).ok())
    }
}
fn time_time(id: u128) -> Option<time::Time> {
    let s = id / NS;
    time::Time::from_hms_nano((s / 3600) as u8, ((s / 60) % 60) as u8, (s % 60) as u8, (id % NS) as u32).ok()
}
impl Pay for time::Time {
    fn parse(tok: &str) -> Self {
        time_time(split_id(tok).0).expect("time of day in ns")
    }
    fn show(&self) -> String {
        let (h, m, s, ns) = self.as_hms_nano();
        let id = ((h as u128 * 60 + m as u128) * 60 + s as u128) * NS + ns as u128;
        checked(join_id(id, 0), self, time_time(id))
    }
}
fn prim_dt(id: u128) -> time::PrimitiveDateTime {
    let d = time::OffsetDateTime::from_unix_timestamp_nanos(id as i128).expect("date-time in ns");
    time::PrimitiveDateTime::new(d.date(), d.time())
}
impl Pay for time::PrimitiveDateTime {
    fn parse(tok: &str) -> Self {
        prim_dt(split_id(tok).0)
    }
    fn show(&self) -> String {
        let id = self.assume_utc().unix_timestamp_nanos() as u128;
        checked(join_id(id, 0), self, Some(prim_dt(id)))
    }
}
fn offset_dt(id: u128, k: u32) -> Option<time::OffsetDateTime> {
    let off = time::UtcOffset::from_whole_seconds(*OFFSETS.get(k as usize)?).ok()?;
    Some(time::OffsetDateTime::from_unix_timestamp_nanos(id as i128).ok()?.to_offset(off))
}
impl Pay for time::OffsetDateTime {
    fn parse(tok: &str) -> Self {
        let (id, k) = split_id(tok);
        offset_dt(id, k).expect("offset datetime")
    }
    fn show(&self) -> String {
        let id = self.unix_timestamp_nanos() as u128;
        let off = self.offset().whole_seconds();
        let k = OFFSETS.iter().position(|o| *o == off).map(|k| k as u32).unwrap_or(99);
        checked(join_id(id, k), self, offset_dt(id, k))
    }
}
fn decimal(id: u128, k: u32) -> Option<rust_decimal::Decimal> {
    if k > 6 || id > 1_000_000_000_000 {
        return None;
    }
    Some(rust_decimal::Decimal::new(id as i64 * 10i64.pow(k), k))
}
impl Pay for rust_decimal::Decimal {
    fn parse(tok: &str) -> Self {
        let (id, k) = split_id(tok);
        decimal(id, k).expect("decimal")
    }
    fn show(&self) -> String {
        let k = self.scale();
        let m = self.mantissa();
        if m < 0 || k > 6 {
            return format!("?{}", hex(format!("{:?}", self).as_bytes()));
        }
        let id = m as u128 / 10u128.pow(k);
        checked(join_id(id, k), self, decimal(id, k))
    }
}
fn bigdec(id: u128, k: u32) -> Option<bigdecimal::BigDecimal> {
    if k > 6 {
        return None;
    }
    let n = bigdecimal::num_bigint::BigInt::from(id) * bigdecimal::num_bigint::BigInt::from(10u64.pow(k));
    Some(bigdecimal::BigDecimal::new(n, k as i64))
}
impl Pay for bigdecimal::BigDecimal {
    fn parse(tok: &str) -> Self {
        let (id, k) = split_id(tok);
        bigdec(id, k).expect("bigdecimal")
    }
    fn show(&self) -> String {
        let (n, scale) = self.as_bigint_and_exponent();
        if !(0..=6).contains(&scale) {
            return format!("?{}", hex(format!("{:?}", self).as_bytes()));
        }
        let k = scale as u32;
        let q = n / bigdecimal::num_bigint::BigInt::from(10u64.pow(k));
        match q.to_string().parse::<u128>() {
            Ok(id) => checked(join_id(id, k), self, bigdec(id, k)),
            Err(_) => format!("?{}", hex(format!("{:?}", self).as_bytes())),
        }
    }
}
impl Pay for uuid::Uuid {
    fn parse(tok: &str) -> Self {
        uuid::Uuid::from_u128(split_id(tok).0)
    }
    fn show(&self) -> String {
        join_id(self.as_u128(), 0)
    }
}
macro_rules! pay_uuid_fmt {
    ($($t:ty, $f:ident);*) => {$(
        impl Pay for $t {
            fn parse(tok: &str) -> Self { uuid::Uuid::from_u128(split_id(tok).0).$f() }
            fn show(&self) -> String { join_id(self.as_uuid().as_u128(), 0) }
        }
    )*};
}
pay_uuid_fmt!(uuid::fmt::Braced, braced; uuid::fmt::Hyphenated, hyphenated; uuid::fmt::Simple, simple; uuid::fmt::Urn, urn);

/// id = (2 * address [+ 1 for IPv6]) * 130 + p;  p = 0: the full-length prefix, p > 0: prefix length p - 1
/// (host bits may be set: 192.168.1.5/24 is a value of its own, different from 192.168.1.0/24).  No `~k` part: in
/// the equality checks k stands for a representation that does not take part in equality.
fn ipnet(id: u128) -> Option<ipnetwork::IpNetwork> {
    let (a, p) = (id / 130, (id % 130) as u32);
    if a % 2 == 0 {
        let addr = u32::try_from(a / 2).ok()?;
        let len = if p == 0 { 32 } else { u8::try_from(p - 1).ok()? };
        Some(ipnetwork::IpNetwork::V4(ipnetwork::Ipv4Network::new(std::net::Ipv4Addr::from(addr), len).ok()?))
    } else {
        let len = if p == 0 { 128 } else { u8::try_from(p - 1).ok()? };
        Some(ipnetwork::IpNetwork::V6(ipnetwork::Ipv6Network::new(std::net::Ipv6Addr::from(a / 2), len).ok()?))
    }
}
impl Pay for ipnetwork::IpNetwork {
    fn parse(tok: &str) -> Self {
        ipnet(split_id(tok).0).expect("ip network")
    }
    fn show(&self) -> String {
        let (a, full) = match self {
            ipnetwork::IpNetwork::V4(n) => (u32::from(n.ip()) as u128 * 2, 32),
            ipnetwork::IpNetwork::V6(n) => (u128::from(n.ip()) * 2 + 1, 128),
        };
        let p = if self.prefix() == full { 0 } else { self.prefix() as u128 + 1 };
        let id = a * 130 + p;
        checked(join_id(id, 0), self, ipnet(id))
    }
}
fn mac(id: u128) -> mac_address::MacAddress {
    let b = (id as u64).to_be_bytes();
    mac_address::MacAddress::new([b[2], b[3], b[4], b[5], b[6], b[7]])
}
impl Pay for mac_address::MacAddress {
    fn parse(tok: &str) -> Self {
        mac(split_id(tok).0)
    }
    fn show(&self) -> String {
        let b = self.bytes();
        let id = u64::from_be_bytes([0, 0, b[0], b[1], b[2], b[3], b[4], b[5]]) as u128;
        checked(join_id(id, 0), self, Some(mac(id)))
    }
}

// ---- Value terms -------------------------------------------------------------------------------------

pub fn array_type(name: &str) -> ArrayType {
    match name {
        "Bool" => ArrayType::Bool,
        "TinyInt" => ArrayType::TinyInt,
        "SmallInt" => ArrayType::SmallInt,
        "Int" => ArrayType::Int,
        "BigInt" => ArrayType::BigInt,
        "TinyUnsigned" => ArrayType::TinyUnsigned,
        "SmallUnsigned" => ArrayType::SmallUnsigned,
        "Unsigned" => ArrayType::Unsigned,
        "BigUnsigned" => ArrayType::BigUnsigned,
        "Float" => ArrayType::Float,
        "Double" => ArrayType::Double,
        "String" => ArrayType::String,
        "Char" => ArrayType::Char,
        "Bytes" => ArrayType::Bytes,
        "Json" => ArrayType::Json,
        "ChronoDate" => ArrayType::ChronoDate,
        "ChronoTime" => ArrayType::ChronoTime,
        "ChronoDateTime" => ArrayType::ChronoDateTime,
        "ChronoDateTimeUtc" => ArrayType::ChronoDateTimeUtc,
        "ChronoDateTimeLocal" => ArrayType::ChronoDateTimeLocal,
        "ChronoDateTimeWithTimeZone" => ArrayType::ChronoDateTimeWithTimeZone,
        "TimeDate" => ArrayType::TimeDate,
        "TimeTime" => ArrayType::TimeTime,
        "TimeDateTime" => ArrayType::TimeDateTime,
        "TimeDateTimeWithTimeZone" => ArrayType::TimeDateTimeWithTimeZone,
        "Uuid" => ArrayType::Uuid,
        "Decimal" => ArrayType::Decimal,
        "BigDecimal" => ArrayType::BigDecimal,
        "IpNetwork" => ArrayType::IpNetwork,
        "MacAddress" => ArrayType::MacAddress,
        _ => panic!("array type {}", name),
    }
}

fn opt<T: Pay>(tok: &str) -> Option<T> {
    <Option<T>>::parse(tok)
}
fn optb<T: Pay>(tok: &str) -> Option<Box<T>> {
    <Option<T>>::parse(tok).map(Box::new)
}

/// builds the Value directly from its constructor (no conversion impl of sea-query involved)
pub fn parse_value(term: &str) -> Value {
    let (tag, rest) = term.split_once(':').expect("value term");
    match tag {
        "Array" => {
            let (elem, rest) = rest.split_once(':').expect("array term");
            let ty = array_type(elem);
            if rest == "N" {
                Value::Array(ty, None)
            } else {
                Value::Array(ty, Some(Box::new(split_list(rest, '[', ']').into_iter().map(parse_value).collect())))
            }
        }
        "Bool" => Value::Bool(opt(rest)),
        "TinyInt" => Value::TinyInt(opt(rest)),
        "SmallInt" => Value::SmallInt(opt(rest)),
        "Int" => Value::Int(opt(rest)),
        "BigInt" => Value::BigInt(opt(rest)),
        "TinyUnsigned" => Value::TinyUnsigned(opt(rest)),
        "SmallUnsigned" => Value::SmallUnsigned(opt(rest)),
        "Unsigned" => Value::Unsigned(opt(rest)),
        "BigUnsigned" => Value::BigUnsigned(opt(rest)),
        "Float" => Value::Float(opt(rest)),
        "Double" => Value::Double(opt(rest)),
        "String" => Value::String(optb(rest)),
        "Char" => Value::Char(opt(rest)),
        "Bytes" => Value::Bytes(optb(rest)),
        "Json" => Value::Json(optb(rest)),
        "ChronoDate" => Value::ChronoDate(optb(rest)),
        "ChronoTime" => Value::ChronoTime(optb(rest)),
        "ChronoDateTime" => Value::ChronoDateTime(optb(rest)),
        "ChronoDateTimeUtc" => Value::ChronoDateTimeUtc(optb(rest)),
        "ChronoDateTimeLocal" => Value::ChronoDateTimeLocal(optb(rest)),
        "ChronoDateTimeWithTimeZone" => Value::ChronoDateTimeWithTimeZone(optb(rest)),
        "TimeDate" => Value::TimeDate(optb(rest)),
        "TimeTime" => Value::TimeTime(optb(rest)),
        "TimeDateTime" => Value::TimeDateTime(optb(rest)),
        "TimeDateTimeWithTimeZone" => Value::TimeDateTimeWithTimeZone(optb(rest)),
        "Uuid" => Value::Uuid(optb(rest)),
        "Decimal" => Value::Decimal(optb(rest)),
        "BigDecimal" => Value::BigDecimal(optb(rest)),
        "Vector" => Value::Vector(optb(rest)),
        "IpNetwork" => Value::IpNetwork(optb(rest)),
        "MacAddress" => Value::MacAddress(optb(rest)),
        _ => panic!("variant {}", tag),
    }
}

fn so<T: Pay>(tag: &str, v: &Option<T>) -> String {
    format!("{}:{}", tag, v.show())
}
fn sb<T: Pay>(tag: &str, v: &Option<Box<T>>) -> String {
    match v {
        None => format!("{}:N", tag),
        Some(x) => format!("{}:{}", tag, x.show()),
    }
}

pub fn show_value(v: &Value) -> String {
    match v {
        Value::Bool(x) => so("Bool", x),
        Value::TinyInt(x) => so("TinyInt", x),
        Value::SmallInt(x) => so("SmallInt", x),
        Value::Int(x) => so("Int", x),
        Value::BigInt(x) => so("BigInt", x),
        Value::TinyUnsigned(x) => so("TinyUnsigned", x),
        Value::SmallUnsigned(x) => so("SmallUnsigned", x),
        Value::Unsigned(x) => so("Unsigned", x),
        Value::BigUnsigned(x) => so("BigUnsigned", x),
        Value::Float(x) => so("Float", x),
        Value::Double(x) => so("Double", x),
        Value::String(x) => sb("String", x),
        Value::Char(x) => so("Char", x),
        Value::Bytes(x) => sb("Bytes", x),
        Value::Json(x) => sb("Json", x),
        Value::ChronoDate(x) => sb("ChronoDate", x),
        Value::ChronoTime(x) => sb("ChronoTime", x),
        Value::ChronoDateTime(x) => sb("ChronoDateTime", x),
        Value::ChronoDateTimeUtc(x) => sb("ChronoDateTimeUtc", x),
        Value::ChronoDateTimeLocal(x) => sb("ChronoDateTimeLocal", x),
        Value::ChronoDateTimeWithTimeZone(x) => sb("ChronoDateTimeWithTimeZone", x),
        Value::TimeDate(x) => sb("TimeDate", x),
        Value::TimeTime(x) => sb("TimeTime", x),
        Value::TimeDateTime(x) => sb("TimeDateTime", x),
        Value::TimeDateTimeWithTimeZone(x) => sb("TimeDateTimeWithTimeZone", x),
        Value::Uuid(x) => sb("Uuid", x),
        Value::Decimal(x) => sb("Decimal", x),
        Value::BigDecimal(x) => sb("BigDecimal", x),
        Value::Vector(x) => sb("Vector", x),
        Value::IpNetwork(x) => sb("IpNetwork", x),
        Value::MacAddress(x) => sb("MacAddress", x),
        Value::Array(ty, x) => {
            let ty = format!("{:?}", ty);
            match x {
                None => format!("Array:{}:N", ty),
                Some(vs) => format!("Array:{}:[{}]", ty, vs.iter().map(show_value).collect::<Vec<_>>().join(",")),
            }
        }
    }
}

/// like show_value, but the payload of payload-crate variants is not printed (used for dummy_value)
pub fn show_value_shape(v: &Value) -> String {
    let s = show_value(v);
    match v {
        Value::Bool(_)
        | Value::TinyInt(_)
        | Value::SmallInt(_)
        | Value::Int(_)
        | Value::BigInt(_)
        | Value::TinyUnsigned(_)
        | Value::SmallUnsigned(_)
        | Value::Unsigned(_)
        | Value::BigUnsigned(_)
        | Value::Float(_)
        | Value::Double(_)
        | Value::String(_)
        | Value::Char(_)
        | Value::Bytes(_)
        | Value::Array(_, _) => s,
        _ => {
            let (tag, rest) = s.split_once(':').unwrap();
            if rest == "N" {
                s.clone()
            } else {
                format!("{}:*", tag)
            }
        }
    }
}

pub fn parse_tuple(term: &str) -> ValueTuple {
    if let Some(r) = term.strip_prefix("One") {
        let v: Vec<Value> = split_list(r, '(', ')').into_iter().map(parse_value).collect();
        let [a]: [Value; 1] = v.try_into().expect("One arity");
        ValueTuple::One(a)
    } else if let Some(r) = term.strip_prefix("Two") {
        let v: Vec<Value> = split_list(r, '(', ')').into_iter().map(parse_value).collect();
        let [a, b]: [Value; 2] = v.try_into().expect("Two arity");
        ValueTuple::Two(a, b)
    } else if let Some(r) = term.strip_prefix("Three") {
        let v: Vec<Value> = split_list(r, '(', ')').into_iter().map(parse_value).collect();
        let [a, b, c]: [Value; 3] = v.try_into().expect("Three arity");
        ValueTuple::Three(a, b, c)
    } else if let Some(r) = term.strip_prefix("Many") {
        ValueTuple::Many(split_list(r, '[', ']').into_iter().map(parse_value).collect())
    } else {
        panic!("tuple term {}", term)
    }
}

pub fn show_tuple(t: &ValueTuple) -> String {
    match t {
        ValueTuple::One(a) => format!("One({})", show_value(a)),
        ValueTuple::Two(a, b) => format!("Two({},{})", show_value(a), show_value(b)),
        ValueTuple::Three(a, b, c) => format!("Three({},{},{})", show_value(a), show_value(b), show_value(c)),
        ValueTuple::Many(l) => format!("Many[{}]", l.iter().map(show_value).collect::<Vec<_>>().join(",")),
    }
}
