//! tiny s-expression reader for the case language
#[derive(Debug, Clone)]
pub enum S {
    A(String),
    L(Vec<S>),
}
impl S {
    pub fn atom(&self) -> &str {
        match self {
            S::A(a) => a,
            S::L(_) => panic!("expected atom, got list"),
        }
    }
    pub fn list(&self) -> &[S] {
        match self {
            S::L(l) => l,
            S::A(a) => panic!("expected list, got atom {}", a),
        }
    }
    pub fn head(&self) -> &str {
        self.list()[0].atom()
    }
    pub fn args(&self) -> &[S] {
        &self.list()[1..]
    }
}
pub fn parse(s: &str) -> S {
    let toks: Vec<String> = s
        .replace('(', " ( ")
        .replace(')', " ) ")
        .split_whitespace()
        .map(|x| x.to_string())
        .collect();
    let mut i = 0;
    let r = parse_at(&toks, &mut i);
    assert!(i == toks.len(), "trailing tokens");
    r
}
fn parse_at(t: &[String], i: &mut usize) -> S {
    if t[*i] == "(" {
        *i += 1;
        let mut l = vec![];
        while t[*i] != ")" {
            l.push(parse_at(t, i));
        }
        *i += 1;
        S::L(l)
    } else {
        *i += 1;
        S::A(t[*i - 1].clone())
    }
}
