//! sqv-harness: runs the real sea-query implementation on case files.
//! usage: sqv-harness <casefile>   (one case per line, one output line per case)
use std::io::{BufRead, BufWriter, Write};

mod util;
#[cfg(feature = "fa")]
mod valueterm;
#[cfg(feature = "fa")]
mod valueenc;
#[cfg(feature = "fa")]
mod valueconv;
#[cfg(feature = "fb")]
mod valueeq;
mod lexical;
mod literal;
mod ident;
mod sexp;
mod exprs;
mod conds;
mod stmts;
mod dump;
mod takes;
mod ddl;

fn main() {
    let args: Vec<String> = std::env::args().collect();
    if args.len() < 2 {
        eprintln!("usage: sqv-harness <casefile>|--enum ...");
        std::process::exit(2);
    }
    std::panic::set_hook(Box::new(|_| {}));
    let out = std::io::stdout();
    let mut out = BufWriter::new(out.lock());
    if args[1] == "--dump" {
        dump::run(&args[2..], &mut out);
        return;
    }
    if args[1] == "--enum" {
        lexical::enum_cmd(&args[2..], &mut out);
        return;
    }
    let f = std::fs::File::open(&args[1]).expect("open casefile");
    for line in std::io::BufReader::new(f).lines() {
        let line = line.unwrap();
        let line = line.trim();
        if line.is_empty() || line.starts_with('#') {
            continue;
        }
        let toks: Vec<&str> = line.split(' ').collect();
        // which of several equivalent public-API paths builds a node depends on the node AND on the case line
        exprs::set_salt(line);
        stmts::reset_probe();
        let r = std::panic::catch_unwind(|| dispatch(&toks));
        match r {
            Ok(s) => writeln!(out, "{}", s).unwrap(),
            Err(_) => writeln!(out, "PANIC").unwrap(),
        }
    }
}

fn dispatch(t: &[&str]) -> String {
    match t[0] {
        "esc" | "tok" => lexical::run(t),
        "lit" => literal::run(t),
        "iden" => ident::run(t),
        "idenderived" => ident::run_derived(t),
        "idenpos" => ident::POSITIONS.join(" "),
        "tk" | "tkv" => takes::run(t),
        "tktypes" => takes::types(),
        "expr" => exprs::run(util::backend(t[1]), &sexp::parse(&t[2..].join(" "))),
        "stmt" => stmts::run(util::backend(t[1]), &sexp::parse(&t[2..].join(" "))),
        "inject" => stmts::run_inject(util::backend(t[1]), &sexp::parse(&t[2..].join(" "))),
        "entry" => stmts::run_entry(util::backend(t[1]), &sexp::parse(&t[2..].join(" "))),
        "ddl" => ddl::run(util::backend(t[1]), &sexp::parse(&t[2..].join(" "))),
        "ftext" => {
            // ftext f32|f64 <bits-hex>: the Display text of the float
            if t[1] == "f32" {
                util::hexs(&format!("{}", f32::from_bits(u32::from_str_radix(t[2], 16).unwrap())))
            } else {
                util::hexs(&format!("{}", f64::from_bits(u64::from_str_radix(t[2], 16).unwrap())))
            }
        }
        #[cfg(feature = "fa")]
        "venc" => valueenc::run(t),
        #[cfg(feature = "fa")]
        "from" | "null" | "try" | "rt" | "rtx" | "asnull" | "dummy" | "deq" | "tupinto" | "tupfrom" | "tup" => valueconv::run(t),
        #[cfg(feature = "fb")]
        "cmp" | "hstream" | "tcmp" | "tstream" | "hset" | "jtext" => valueeq::run(t),
        other => format!("UNKNOWN-OP {}", other),
    }
}
