//! Expression layer: builds SimpleExpr values from the case language (AST constructors and a few
//! API-level nodes), renders them, and dumps the finite tables (operator spellings, function
//! names, parenthesis decisions) obtained by executing the code.
use sea_query::extension::postgres::PgExpr;
use sea_query::extension::sqlite::SqliteExpr;
use crate::sexp::S;
use crate::util::*;
use sea_query::extension::postgres::{PgBinOper, PgFunc};
use sea_query::extension::sqlite::SqliteBinOper;
use sea_query::*;
use std::io::Write;

pub fn a(s: &str) -> Alias {
    Alias::new(s)
}
fn hx(s: &S) -> String {
    unhexs(s.atom())
}

// ---------------------------------------------------------------------------------------------
// key tables (must agree with binop_key / func_key / shape_key in coq/Model/Expr.v; any
// disagreement shows up as a rendering disagreement in the correspondence)
// ---------------------------------------------------------------------------------------------
fn leak(s: String) -> &'static str {
    Box::leak(s.into_boxed_str())
}
pub fn binops() -> Vec<(u32, &'static str, BinOper)> {
    let mut v = vec![
        (0, "and", BinOper::And),
        (1, "or", BinOper::Or),
        (2, "like", BinOper::Like),
        (3, "notlike", BinOper::NotLike),
        (4, "is", BinOper::Is),
        (5, "isnot", BinOper::IsNot),
        (6, "in", BinOper::In),
        (7, "notin", BinOper::NotIn),
        (8, "between", BinOper::Between),
        (9, "notbetween", BinOper::NotBetween),
        (10, "eq", BinOper::Equal),
        (11, "ne", BinOper::NotEqual),
        (12, "lt", BinOper::SmallerThan),
        (13, "gt", BinOper::GreaterThan),
        (14, "le", BinOper::SmallerThanOrEqual),
        (15, "ge", BinOper::GreaterThanOrEqual),
        (16, "add", BinOper::Add),
        (17, "sub", BinOper::Sub),
        (18, "mul", BinOper::Mul),
        (19, "div", BinOper::Div),
        (20, "mod", BinOper::Mod),
        (21, "bitand", BinOper::BitAnd),
        (22, "bitor", BinOper::BitOr),
        (23, "lshift", BinOper::LShift),
        (24, "rshift", BinOper::RShift),
        (25, "as", BinOper::As),
        (26, "escape", BinOper::Escape),
        (27, "custom", BinOper::Custom("~~")),
    ];
    let pg = [
        PgBinOper::ILike,
        PgBinOper::NotILike,
        PgBinOper::Matches,
        PgBinOper::Contains,
        PgBinOper::Contained,
        PgBinOper::Concatenate,
        PgBinOper::Overlap,
        PgBinOper::Similarity,
        PgBinOper::WordSimilarity,
        PgBinOper::StrictWordSimilarity,
        PgBinOper::SimilarityDistance,
        PgBinOper::WordSimilarityDistance,
        PgBinOper::StrictWordSimilarityDistance,
        PgBinOper::GetJsonField,
        PgBinOper::CastJsonField,
        PgBinOper::Regex,
        PgBinOper::RegexCaseInsensitive,
        #[cfg(feature = "fa")]
        PgBinOper::EuclideanDistance,
        #[cfg(feature = "fa")]
        PgBinOper::NegativeInnerProduct,
        #[cfg(feature = "fa")]
        PgBinOper::CosineDistance,
    ];
    for (i, o) in pg.iter().enumerate() {
        v.push((30 + i as u32, leak(format!("pg{}", i)), BinOper::PgOperator(*o)));
    }
    let sl = [
        SqliteBinOper::Glob,
        SqliteBinOper::Match,
        SqliteBinOper::GetJsonField,
        SqliteBinOper::CastJsonField,
    ];
    for (i, o) in sl.iter().enumerate() {
        v.push((60 + i as u32, leak(format!("sl{}", i)), BinOper::SqliteOperator(*o)));
    }
    v
}
pub fn binop_named(name: &str) -> BinOper {
    if let Some(h) = name.strip_prefix("cust:") {
        return BinOper::Custom(leak(unhexs(h)));
    }
    binops()
        .into_iter()
        .find(|(_, n, _)| *n == name)
        .unwrap_or_else(|| panic!("binop {}", name))
        .2
}

/// (key, name, constructor taking the argument list)
pub fn funcs() -> Vec<(u32, &'static str, fn() -> FunctionCall)> {
    fn d() -> SimpleExpr {
        Expr::val(0).into()
    }
    let mut v: Vec<(u32, &'static str, fn() -> FunctionCall)> = vec![
        (0, "max", || Func::max(d())),
        (1, "min", || Func::min(d())),
        (2, "sum", || Func::sum(d())),
        (3, "avg", || Func::avg(d())),
        (4, "abs", || Func::abs(d())),
        (5, "count", || Func::count(d())),
        (6, "ifnull", || Func::if_null(d(), d())),
        (7, "greatest", || Func::greatest([d()])),
        (8, "least", || Func::least([d()])),
        (9, "charlength", || Func::char_length(d())),
        (10, "cast", || Func::cast_as(d(), a("x"))),
        (12, "coalesce", || Func::coalesce([d()])),
        (13, "lower", || Func::lower(d())),
        (14, "upper", || Func::upper(d())),
        (15, "bitand", || Func::bit_and(d())),
        (16, "bitor", || Func::bit_or(d())),
        (17, "random", Func::random),
        (18, "round", || Func::round(d())),
        (19, "md5", || Func::md5(d())),
        (30, "pg0", || PgFunc::to_tsquery(d(), None)),
        (31, "pg1", || PgFunc::to_tsvector(d(), None)),
        (32, "pg2", || PgFunc::phraseto_tsquery(d(), None)),
        (33, "pg3", || PgFunc::plainto_tsquery(d(), None)),
        (34, "pg4", || PgFunc::websearch_to_tsquery(d(), None)),
        (35, "pg5", || PgFunc::ts_rank(d(), d())),
        (36, "pg6", || PgFunc::ts_rank_cd(d(), d())),
        (37, "pg7", || PgFunc::starts_with(d(), d())),
        (38, "pg8", PgFunc::gen_random_uuid),
        (39, "pg9", || PgFunc::json_build_object(Vec::<(SimpleExpr, SimpleExpr)>::new())),
        (40, "pg10", || PgFunc::json_agg(d())),
        (41, "pg11", || PgFunc::array_agg(d())),
        (42, "pg12", || PgFunc::date_trunc(sea_query::PgDateTruncUnit::Day, d())),
    ];
    #[cfg(feature = "fa")]
    {
        v.push((43, "pg13", || PgFunc::any(d())));
        v.push((44, "pg14", || PgFunc::some(d())));
        v.push((45, "pg15", || PgFunc::all(d())));
    }
    v
}


/// structural hash of a case node (FNV-1a over its text): decides, per node, which of several equivalent
/// ways of building it is taken
thread_local! {
    static SALT: std::cell::Cell<u64> = std::cell::Cell::new(0);
}
/// called once per case line: the same node takes different paths in different cases, the same path when a
/// case is replayed
pub fn set_salt(line: &str) {
    let h = line.bytes().fold(0xcbf29ce484222325u64, |h, b| (h ^ b as u64).wrapping_mul(0x100000001b3));
    SALT.with(|c| c.set(h));
}
pub fn shash(s: &S) -> u64 {
    let salt = SALT.with(|c| c.get());
    let h = (shash0(s) ^ salt).wrapping_mul(0x9e3779b97f4a7c15);
    h ^ (h >> 29)
}
fn shash0(s: &S) -> u64 {
    match s {
        S::A(x) => x.bytes().fold(0xcbf29ce484222325u64, |h, b| (h ^ b as u64).wrapping_mul(0x100000001b3)),
        S::L(l) => l.iter().fold(0x9e3779b97f4a7c15u64, |h, x| (h ^ shash0(x)).wrapping_mul(0x100000001b3).rotate_left(7)),
    }
}

/// the FunctionCall named in the case language with the given arguments
pub fn func_call(name: &str, args: Vec<SimpleExpr>) -> FunctionCall {
    let fc = if let Some(h) = name.strip_prefix("cust:") {
        Func::cust(a(&unhexs(h)))
    } else {
        (funcs().into_iter().find(|(_, n, _)| *n == name).expect("func").2)()
    };
    fc.args(args)
}

/// the ExprTrait method that is documented to build `l <op> r`, where there is one
/// the same method through the three places it is defined: the ExprTrait default, the inherent method of `Expr`
/// (`Expr::expr(e).m(..)`) and the inherent method of `SimpleExpr`
macro_rules! via {
    ($s:expr, $e:expr, $m:ident ( $($a:expr),* )) => {{
        let e0: SimpleExpr = $e;
        match (shash($s) >> 17) % 3 {
            0 => ExprTrait::$m(e0, $($a),*),
            1 => Expr::expr(e0).$m($($a),*),
            _ => e0.$m($($a),*),
        }
    }};
}

fn r_is_even(r: &SimpleExpr) -> bool {
    format!("{:?}", r).len() % 2 == 0
}

/// binary operators through the inherent methods of `Expr` and the backend extension traits
fn api_bin_expr(l: SimpleExpr, op: &str, r: SimpleExpr) -> Option<SimpleExpr> {
    let x = Expr::expr(l);
    Some(match op {
        "eq" => x.eq(r),
        "ne" => x.ne(r),
        "lt" => x.lt(r),
        "gt" => x.gt(r),
        "le" => x.lte(r),
        "ge" => x.gte(r),
        "add" => x.add(r),
        "sub" => x.sub(r),
        "mul" => x.mul(r),
        "div" => x.div(r),
        "mod" => x.modulo(r),
        "lshift" => x.left_shift(r),
        "rshift" => x.right_shift(r),
        "is" => x.is(r),
        "isnot" => x.is_not(r),
        // PgExpr::ilike / not_ilike take a pattern: when the right operand is a plain string value
        "pg0" | "pg1" => match &r {
            SimpleExpr::Value(Value::String(Some(p))) => {
                if op == "pg0" { PgExpr::ilike(x, p.as_str()) } else { PgExpr::not_ilike(x, p.as_str()) }
            }
            _ => return None,
        },
        "pg2" => PgExpr::matches(x, r),
        "pg3" => PgExpr::contains(x, r),
        "pg4" => PgExpr::contained(x, r),
        "pg5" => if r_is_even(&r) { PgExpr::concatenate(x, r) } else { PgExpr::concat(x, r) },
        "pg13" => PgExpr::get_json_field(x, r),
        "pg14" => PgExpr::cast_json_field(x, r),
        "sl0" => SqliteExpr::glob(x, r),
        "sl1" => SqliteExpr::matches(x, r),
        "sl2" => SqliteExpr::get_json_field(x, r),
        "sl3" => SqliteExpr::cast_json_field(x, r),
        _ => return None,
    })
}

/// the inherent methods of SimpleExpr that shadow the trait's
fn api_bin_inherent(l: SimpleExpr, op: &str, r: SimpleExpr) -> Option<SimpleExpr> {
    Some(match op {
        "eq" => l.eq(r),
        "ne" => l.ne(r),
        "add" => l.add(r),
        "sub" => l.sub(r),
        "mul" => l.mul(r),
        "div" => l.div(r),
        "and" => l.and(r),
        "or" => l.or(r),
        _ => return None,
    })
}

fn api_bin(l: SimpleExpr, op: &str, r: SimpleExpr) -> Option<SimpleExpr> {
    Some(match op {
        "eq" => ExprTrait::eq(l, r),
        "ne" => ExprTrait::ne(l, r),
        "lt" => ExprTrait::lt(l, r),
        "gt" => ExprTrait::gt(l, r),
        "le" => ExprTrait::lte(l, r),
        "ge" => ExprTrait::gte(l, r),
        "add" => ExprTrait::add(l, r),
        "sub" => ExprTrait::sub(l, r),
        "mul" => ExprTrait::mul(l, r),
        "div" => ExprTrait::div(l, r),
        "mod" => ExprTrait::modulo(l, r),
        "lshift" => ExprTrait::left_shift(l, r),
        "rshift" => ExprTrait::right_shift(l, r),
        "and" => ExprTrait::and(l, r),
        "or" => ExprTrait::or(l, r),
        "is" => ExprTrait::is(l, r),
        "isnot" => ExprTrait::is_not(l, r),
        "bitand" => ExprTrait::bit_and(l, r),
        "bitor" => ExprTrait::bit_or(l, r),
        _ => return None,
    })
}

/// the Func constructor called with the real arguments, where the arity fits its signature
fn api_func(name: &str, args: &[SimpleExpr]) -> Option<FunctionCall> {
    let one = |f: fn(SimpleExpr) -> FunctionCall| if args.len() == 1 { Some(f(args[0].clone())) } else { None };
    match name {
        "max" => one(|x| Func::max(x)),
        "min" => one(|x| Func::min(x)),
        "sum" => one(|x| Func::sum(x)),
        "avg" => one(|x| Func::avg(x)),
        "abs" => one(|x| Func::abs(x)),
        "count" => one(|x| Func::count(x)),
        "charlength" => one(|x| Func::char_length(x)),
        "lower" => one(|x| Func::lower(x)),
        "upper" => one(|x| Func::upper(x)),
        "bitand" => one(|x| Func::bit_and(x)),
        "bitor" => one(|x| Func::bit_or(x)),
        "round" if args.len() == 2 => Some(Func::round_with_precision(args[0].clone(), args[1].clone())),
        "round" => one(|x| Func::round(x)),
        "md5" => one(|x| Func::md5(x)),
        "ifnull" if args.len() == 2 => Some(Func::if_null(args[0].clone(), args[1].clone())),
        // the argument list as a Vec, or as an iterator whose size_hint is not exact (filter / flatten / chain)
        "greatest" | "least" | "coalesce" => {
            let v = args.to_vec();
            let mk = |name: &str, it: Box<dyn Iterator<Item = SimpleExpr>>| match name {
                "greatest" => Func::greatest(it),
                "least" => Func::least(it),
                _ => Func::coalesce(it),
            };
            Some(match format!("{:?}", args).len() % 4 {
                0 => mk(name, Box::new(v.into_iter())),
                1 => mk(name, Box::new(v.into_iter().filter(|_| true))),
                2 => mk(name, Box::new(v.into_iter().map(Some).flatten())),
                _ => {
                    let mut it = v.into_iter();
                    let first = it.next();
                    mk(name, Box::new(first.into_iter().chain(it.filter(|_| true))))
                }
            })
        }
        "random" if args.is_empty() => Some(Func::random()),
        // DATE_TRUNC('<unit>', e): the unit is spelled by Display for PgDateTruncUnit
        "pg12" => match args {
            [SimpleExpr::Value(Value::String(Some(u))), e] => {
                use sea_query::PgDateTruncUnit::*;
                let unit = match u.as_str() {
                    "microseconds" => Microseconds,
                    "milliseconds" => Milliseconds,
                    "second" => Second,
                    "minute" => Minute,
                    "hour" => Hour,
                    "day" => Day,
                    "week" => Week,
                    "month" => Month,
                    "quarter" => Quarter,
                    "year" => Year,
                    "decade" => Decade,
                    "century" => Century,
                    "millennium" => Millennium,
                    _ => return None,
                };
                Some(PgFunc::date_trunc(unit, e.clone()))
            }
            _ => None,
        },
        // JSON_BUILD_OBJECT(k1, v1, k2, v2, ..) from a list of pairs
        "pg9" if args.len() % 2 == 0 => Some(PgFunc::json_build_object(
            args.chunks(2).map(|p| (p[0].clone(), p[1].clone())).collect::<Vec<_>>(),
        )),
        // Postgres full-text constructors: (expr, Option<regconfig>) - the configuration comes first in the call
        "pg0" | "pg1" | "pg2" | "pg3" | "pg4" => {
            let (e, cfg) = match args {
                [e] => (e.clone(), None),
                [SimpleExpr::Value(Value::Unsigned(Some(c))), e] => (e.clone(), Some(*c)),
                _ => return None,
            };
            Some(match name {
                "pg0" => PgFunc::to_tsquery(e, cfg),
                "pg1" => PgFunc::to_tsvector(e, cfg),
                "pg2" => PgFunc::phraseto_tsquery(e, cfg),
                "pg3" => PgFunc::plainto_tsquery(e, cfg),
                _ => PgFunc::websearch_to_tsquery(e, cfg),
            })
        }
        "pg5" if args.len() == 2 => Some(PgFunc::ts_rank(args[0].clone(), args[1].clone())),
        "pg6" if args.len() == 2 => Some(PgFunc::ts_rank_cd(args[0].clone(), args[1].clone())),
        "pg7" if args.len() == 2 => Some(PgFunc::starts_with(args[0].clone(), args[1].clone())),
        "pg8" if args.is_empty() => Some(PgFunc::gen_random_uuid()),
        "pg10" if args.len() == 1 => Some(PgFunc::json_agg(args[0].clone())),
        "pg11" if args.len() == 1 => Some(PgFunc::array_agg(args[0].clone())),
        _ => None,
    }
}

// ---------------------------------------------------------------------------------------------
// values
// ---------------------------------------------------------------------------------------------
pub fn value(s: &S) -> Value {
    let t: Vec<&str> = s.atom().split(':').collect();
    match t[0] {
        "b" => Value::Bool(Some(t[1] == "1")),
        "i" => {
            let z: i128 = t[2].parse().unwrap();
            match t[1] {
                "i8" => Value::TinyInt(Some(z as i8)),
                "i16" => Value::SmallInt(Some(z as i16)),
                "i32" => Value::Int(Some(z as i32)),
                "i64" => Value::BigInt(Some(z as i64)),
                "u8" => Value::TinyUnsigned(Some(z as u8)),
                "u16" => Value::SmallUnsigned(Some(z as u16)),
                "u32" => Value::Unsigned(Some(z as u32)),
                "u64" => Value::BigUnsigned(Some(z as u64)),
                _ => panic!("int tag"),
            }
        }
        "s" => Value::String(Some(Box::new(unhexs(t[1])))),
        "c" => Value::Char(Some(unhexs(t[1]).chars().next().unwrap())),
        "y" => Value::Bytes(Some(Box::new(unhex(t[1])))),
        "f32" => Value::Float(Some(f32::from_bits(u32::from_str_radix(t[1], 16).unwrap()))),
        "f64" => Value::Double(Some(f64::from_bits(u64::from_str_radix(t[1], 16).unwrap()))),
        "n" => match t[1] {
            "b" => Value::Bool(None),
            "i8" => Value::TinyInt(None),
            "i16" => Value::SmallInt(None),
            "i32" => Value::Int(None),
            "i64" => Value::BigInt(None),
            "u8" => Value::TinyUnsigned(None),
            "u16" => Value::SmallUnsigned(None),
            "u32" => Value::Unsigned(None),
            "u64" => Value::BigUnsigned(None),
            "f32" => Value::Float(None),
            "f64" => Value::Double(None),
            "s" => Value::String(None),
            "c" => Value::Char(None),
            "y" => Value::Bytes(None),
            _ => panic!("null tag"),
        },
        // v:<hex of value term>:<hex of model encoding>: any Value variant, built from its constructor by
        // valueterm::parse_value; the third field is for the model only (valueenc.rs)
        #[cfg(feature = "fa")]
        "v" => crate::valueterm::parse_value(&unhexs(t[1])),
        _ => panic!("value kind {}", t[0]),
    }
}
/// the text an external formatter prints for a float (given to the model with the case)
pub fn float_text(v: &Value) -> Option<String> {
    match v {
        Value::Float(Some(x)) => Some(format!("{}", x)),
        Value::Double(Some(x)) => Some(format!("{}", x)),
        _ => None,
    }
}

// ---------------------------------------------------------------------------------------------
// expressions
// ---------------------------------------------------------------------------------------------
pub fn colref(s: &S) -> ColumnRef {
    let l = s.args();
    // the enum variant, or the IntoColumnRef conversion of an identifier / tuple / Asterisk
    let conv = shash(s) % 2 == 1;
    match s.head() {
        "col" => match (l.len(), conv) {
            (1, false) => ColumnRef::Column(a(&hx(&l[0])).into_iden()),
            (1, true) => a(&hx(&l[0])).into_column_ref(),
            (2, false) => ColumnRef::TableColumn(a(&hx(&l[0])).into_iden(), a(&hx(&l[1])).into_iden()),
            (2, true) => (a(&hx(&l[0])), a(&hx(&l[1]))).into_column_ref(),
            (3, false) => ColumnRef::SchemaTableColumn(
                a(&hx(&l[0])).into_iden(),
                a(&hx(&l[1])).into_iden(),
                a(&hx(&l[2])).into_iden(),
            ),
            (3, true) => (a(&hx(&l[0])), a(&hx(&l[1])), a(&hx(&l[2]))).into_column_ref(),
            _ => panic!("col arity"),
        },
        "star" if conv => Asterisk.into_column_ref(),
        "star" => ColumnRef::Asterisk,
        "tstar" if conv => (a(&hx(&l[0])), Asterisk).into_column_ref(),
        "tstar" => ColumnRef::TableAsterisk(a(&hx(&l[0])).into_iden()),
        _ => panic!("colref"),
    }
}

pub fn expr(s: &S) -> SimpleExpr {
    let l = s.args();
    match s.head() {
        "col" | "star" | "tstar" => match shash(s) % 4 {
            1 => Expr::col(colref(s)).into(),
            3 => Expr::column(colref(s)),
            2 if s.head() == "star" => Expr::asterisk().into(),
            2 if s.head() == "tstar" => Expr::table_asterisk(a(&hx(&l[0]))).into(),
            _ => SimpleExpr::Column(colref(s)),
        },
        // Every node that has a public constructor / method is built, for part of the cases, THROUGH that
        // constructor instead of the enum variant (the choice is a hash of the node's text, so a case always
        // takes the same path): the model is indifferent, so a constructor that builds something else than the
        // variant shows up as a rendering disagreement.
        "tuple" => {
            if shash(s) % 2 == 0 {
                SimpleExpr::Tuple(l.iter().map(expr).collect())
            } else {
                Expr::tuple(l.iter().map(expr)).into()
            }
        }
        "not" => {
            if shash(s) % 2 == 0 {
                SimpleExpr::Unary(UnOper::Not, Box::new(expr(&l[0])))
            } else {
                ExprTrait::not(expr(&l[0]))
            }
        }
        "bin" => {
            let (lft, rgt) = (expr(&l[1]), expr(&l[2]));
            let name = l[0].atom();
            match shash(s) % 6 {
                5 => match api_bin_inherent(lft.clone(), name, rgt.clone()) {
                    Some(e) => e,
                    None => SimpleExpr::Binary(Box::new(lft), binop_named(name), Box::new(rgt)),
                },
                1 => match api_bin(lft.clone(), name, rgt.clone()) {
                    Some(e) => e,
                    None => SimpleExpr::Binary(Box::new(lft), binop_named(name), Box::new(rgt)),
                },
                3 => match api_bin_expr(lft.clone(), name, rgt.clone()) {
                    Some(e) => e,
                    None => Expr::expr(lft).binary(binop_named(name), rgt),
                },
                4 => {
                    // a column on the right: the equals / not_equals helpers
                    if let (true, SimpleExpr::Column(c)) = (matches!(name, "eq" | "ne"), &rgt) {
                        let c = c.clone();
                        match (name, (shash(s) >> 9) % 2) {
                            ("eq", 0) => ExprTrait::equals(lft, c),
                            ("eq", _) => Expr::expr(lft).equals(c),
                            (_, 0) => ExprTrait::not_equals(lft, c),
                            (_, _) => Expr::expr(lft).not_equals(c),
                        }
                    } else {
                        lft.binary(binop_named(name), rgt)
                    }
                }
                2 => ExprTrait::binary(lft, binop_named(name), rgt),
                _ => SimpleExpr::Binary(Box::new(lft), binop_named(name), Box::new(rgt)),
            }
        }
        "fn" => {
            let name = l[0].atom();
            let args: Vec<SimpleExpr> = l[1..].iter().map(expr).collect();
            if shash(s) % 4 == 1 && args.len() == 1 {
                // the aggregate helpers of Expr / ExprTrait
                let x = args[0].clone();
                match (name, (shash(s) >> 7) % 2) {
                    ("max", 0) => return Expr::expr(x).max(),
                    ("max", _) => return Expr::expr(x).max(),
                    ("min", 0) => return Expr::expr(x).min(),
                    ("min", _) => return Expr::expr(x).min(),
                    ("sum", 0) => return Expr::expr(x).sum(),
                    ("sum", _) => return Expr::expr(x).sum(),
                    ("count", 0) => return Expr::expr(x).count(),
                    ("count", _) => return Expr::expr(x).count(),
                    _ => {}
                }
            }
            if shash(s) % 4 == 1 && args.len() == 2 && name == "ifnull" {
                let (x, y) = (args[0].clone(), args[1].clone());
                return if (shash(s) >> 7) % 2 == 0 { Expr::expr(x).if_null(y) } else { Expr::expr(x).if_null(y) };
            }
            if shash(s) % 4 != 0 {
                if let Some(fc) = api_func(name, &args) {
                    return SimpleExpr::FunctionCall(fc);
                }
            }
            let fc = if let Some(h) = name.strip_prefix("cust:") {
                Func::cust(a(&unhexs(h)))
            } else {
                (funcs().into_iter().find(|(_, n, _)| *n == name).expect("func").2)()
            };
            if shash(s) % 3 == 2 {
                SimpleExpr::FunctionCall(fc.args(args.into_iter().filter(|_| true)))
            } else {
                SimpleExpr::FunctionCall(fc.args(args))
            }
        }
        "countdistinct" => match shash(s) % 3 {
            0 => SimpleExpr::FunctionCall(Func::count_distinct(expr(&l[0]))),
            1 => Expr::expr(expr(&l[0])).count_distinct(),
            _ => Expr::expr(expr(&l[0])).count_distinct(),
        },
        "sq" => {
            let op = match l[0].atom() {
                "-" => None,
                "exists" => Some(SubQueryOper::Exists),
                "any" => Some(SubQueryOper::Any),
                "some" => Some(SubQueryOper::Some),
                "all" => Some(SubQueryOper::All),
                _ => panic!("sqop"),
            };
            // Expr::exists / any / some / all take a SelectStatement
            if shash(s) % 2 == 1 && l[1].head() == "select" {
                let sel = crate::stmts::select(&l[1]);
                match op {
                    Some(SubQueryOper::Exists) => return Expr::exists(sel),
                    Some(SubQueryOper::Any) => return Expr::any(sel),
                    Some(SubQueryOper::Some) => return Expr::some(sel),
                    Some(SubQueryOper::All) => return Expr::all(sel),
                    None => return SimpleExpr::SubQuery(None, Box::new(SubQueryStatement::SelectStatement(sel))),
                }
            }
            SimpleExpr::SubQuery(op, Box::new(crate::stmts::subquery(&l[1])))
        }
        "val" => {
            match shash(s) % 3 {
                0 => SimpleExpr::Value(value(&l[0])),
                1 => Expr::val(value(&l[0])).into(),
                _ => Expr::value(value(&l[0])),
            }
        }
        "vals" => SimpleExpr::Values(l.iter().map(value).collect()),
        "cust" => {
            if shash(s) % 2 == 0 {
                SimpleExpr::Custom(hx(&l[0]))
            } else {
                Expr::cust(hx(&l[0]))
            }
        }
        "custw" => SimpleExpr::CustomWithExpr(hx(&l[0]), l[1..].iter().map(expr).collect()),
        // the same node through the public constructors (0..n arguments, the empty list included)
        "custv" => Expr::cust_with_values(hx(&l[0]), l[1..].iter().map(value)),
        "custe" => Expr::cust_with_exprs(hx(&l[0]), l[1..].iter().map(expr)),
        "custe1" => {
            assert!(l.len() == 2, "custe1 takes exactly one expression");
            Expr::cust_with_expr(hx(&l[0]), expr(&l[1]))
        }
        "kw" if shash(s) % 2 == 1 && matches!(l[0].atom(), "cdate" | "ctime" | "cts") => match l[0].atom() {
            "cdate" => Expr::current_date().into(),
            "ctime" => Expr::current_time().into(),
            _ => Expr::current_timestamp().into(),
        },
        "kw" if shash(s) % 2 == 1 && l[0].atom().starts_with("cust:") => {
            Expr::custom_keyword(a(&unhexs(l[0].atom().strip_prefix("cust:").unwrap()))).into()
        }
        "kw" => SimpleExpr::Keyword(match l[0].atom() {
            "null" => Keyword::Null,
            "cdate" => Keyword::CurrentDate,
            "ctime" => Keyword::CurrentTime,
            "cts" => Keyword::CurrentTimestamp,
            x => Keyword::Custom(a(&unhexs(x.strip_prefix("cust:").unwrap())).into_iden()),
        }),
        "asenum" => SimpleExpr::AsEnum(a(&hx(&l[0])).into_iden(), Box::new(expr(&l[1]))),
        "case" => {
            // (case (w <cond> <result>)... [(else e)])
            let mut c = CaseStatement::new();
            for (wi, w) in l.iter().enumerate() {
                match w.head() {
                    // the first arm also through Expr::case
                    "w" if wi == 0 && shash(s) % 2 == 1 => {
                        c = Expr::case(crate::conds::cond_or_expr(&w.args()[0]), expr(&w.args()[1]))
                    }
                    "w" => c = c.case(crate::conds::cond_or_expr(&w.args()[0]), expr(&w.args()[1])),
                    "else" => c = c.finally(expr(&w.args()[0])),
                    _ => panic!("case arm"),
                }
            }
            SimpleExpr::Case(Box::new(c))
        }
        "const" => SimpleExpr::Constant(value(&l[0])),
        // ---- API-level nodes (the encodings of ExprTrait are part of what is checked) ----
        "between" => via!(s, expr(&l[0]), between(expr(&l[1]), expr(&l[2]))),
        "notbetween" => via!(s, expr(&l[0]), not_between(expr(&l[1]), expr(&l[2]))),
        "likeapi" => {
            let mut le = LikeExpr::new(hx(&l[1]));
            if l.len() > 2 {
                le = le.escape(hx(&l[2]).chars().next().unwrap());
            }
            via!(s, expr(&l[0]), like(le))
        }
        "notlikeapi" => {
            let mut le = LikeExpr::new(hx(&l[1]));
            if l.len() > 2 {
                le = le.escape(hx(&l[2]).chars().next().unwrap());
            }
            via!(s, expr(&l[0]), not_like(le))
        }
        "isin" => via!(s, expr(&l[0]), is_in(l[1..].iter().map(value))),
        "isnotin" => via!(s, expr(&l[0]), is_not_in(l[1..].iter().map(value))),
        "intuples" => via!(s, expr(&l[0]), in_tuples(l[1..].iter().map(|t| {
            let mut vs: Vec<Value> = t.list().iter().map(value).collect();
            // the ValueTuple variant of the arity for part of the cases
            if shash(t) % 3 == 0 {
                return ValueTuple::Many(vs);
            }
            match vs.len() {
                1 => ValueTuple::One(vs.remove(0)),
                2 => {
                    let b = vs.remove(1);
                    ValueTuple::Two(vs.remove(0), b)
                }
                3 => {
                    let c = vs.remove(2);
                    let b = vs.remove(1);
                    ValueTuple::Three(vs.remove(0), b, c)
                }
                _ => ValueTuple::Many(vs),
            }
        }))),
        "isnull" => via!(s, expr(&l[0]), is_null()),
        "isnotnull" => via!(s, expr(&l[0]), is_not_null()),
        "castas" => via!(s, expr(&l[0]), cast_as(a(&hx(&l[1])))),
        "fncast" => SimpleExpr::FunctionCall(Func::cast_as(expr(&l[0]), a(&hx(&l[1])))),
        "fncastq" if shash(s) % 2 == 1 => {
            expr(&l[0]).cast_as_quoted(a(&hx(&l[1])), sea_query::Quote::new(l[2].atom().parse::<u8>().unwrap()))
        }
        "fncastq" => SimpleExpr::FunctionCall(Func::cast_as_quoted(
            expr(&l[0]),
            a(&hx(&l[1])),
            sea_query::Quote::new(l[2].atom().parse::<u8>().unwrap()),
        )),
        "andapi" => expr(&l[0]).and(expr(&l[1])),
        "orapi" => expr(&l[0]).or(expr(&l[1])),
        "notapi" => via!(s, expr(&l[0]), not()),
        "insub" => via!(s, expr(&l[0]), in_subquery(crate::stmts::select(&l[1]))),
        "notinsub" => via!(s, expr(&l[0]), not_in_subquery(crate::stmts::select(&l[1]))),
        "exists" => Expr::exists(crate::stmts::select(&l[0])),
        other => panic!("expr head {}", other),
    }
}

pub fn render_select_expr(b: B, e: SimpleExpr) -> (String, String, Vec<Value>) {
    let mut q = Query::select();
    q.expr(e);
    let inline = match b {
        B::My => q.to_string(MysqlQueryBuilder),
        B::Pg => q.to_string(PostgresQueryBuilder),
        B::Sl => q.to_string(SqliteQueryBuilder),
    };
    let (sql, vals) = match b {
        B::My => q.build(MysqlQueryBuilder),
        B::Pg => q.build(PostgresQueryBuilder),
        B::Sl => q.build(SqliteQueryBuilder),
    };
    (inline, sql, vals.0)
}

pub fn show_value(v: &Value) -> String {
    // canonical, type-tagged form used to compare bound values with the model
    match v {
        Value::Bool(x) => format!("b:{}", x.map(|b| if b { "1" } else { "0" }.to_string()).unwrap_or("N".into())),
        Value::TinyInt(x) => format!("i8:{}", x.map(|v| v.to_string()).unwrap_or("N".into())),
        Value::SmallInt(x) => format!("i16:{}", x.map(|v| v.to_string()).unwrap_or("N".into())),
        Value::Int(x) => format!("i32:{}", x.map(|v| v.to_string()).unwrap_or("N".into())),
        Value::BigInt(x) => format!("i64:{}", x.map(|v| v.to_string()).unwrap_or("N".into())),
        Value::TinyUnsigned(x) => format!("u8:{}", x.map(|v| v.to_string()).unwrap_or("N".into())),
        Value::SmallUnsigned(x) => format!("u16:{}", x.map(|v| v.to_string()).unwrap_or("N".into())),
        Value::Unsigned(x) => format!("u32:{}", x.map(|v| v.to_string()).unwrap_or("N".into())),
        Value::BigUnsigned(x) => format!("u64:{}", x.map(|v| v.to_string()).unwrap_or("N".into())),
        Value::Float(x) => format!("f32:{}", x.map(|v| format!("{:x}", v.to_bits())).unwrap_or("N".into())),
        Value::Double(x) => format!("f64:{}", x.map(|v| format!("{:x}", v.to_bits())).unwrap_or("N".into())),
        Value::String(x) => format!("s:{}", x.as_ref().map(|v| hexs(v)).unwrap_or("N".into())),
        Value::Char(x) => format!("c:{}", x.map(|v| hexs(&v.to_string())).unwrap_or("N".into())),
        Value::Bytes(x) => format!("y:{}", x.as_ref().map(|v| hex(v)).unwrap_or("N".into())),
        // payload-crate kinds, vectors, arrays: the model encoding (formatter text computed independently of
        // sea-query), spaces written as `_`
        #[cfg(feature = "fa")]
        other => crate::valueenc::show_bound(other),
        #[cfg(not(feature = "fa"))]
        #[allow(unreachable_patterns)]
        other => format!("o:{}", hexs(&format!("{:?}", other))),
    }
}

/// expr <backend> <sexp> : `<inline-hex> <params-sql-hex> <v1,v2,...> <lit1,lit2,...>`
pub fn run(b: B, s: &S) -> String {
    let e = expr(s);
    let (inline, sql, vals) = render_select_expr(b, e);
    crate::stmts::show(b, inline, sql, Values(vals))
}

// ---------------------------------------------------------------------------------------------
// table dump
// ---------------------------------------------------------------------------------------------
fn coq_str(s: &str) -> String {
    format!("[{}]", s.chars().map(|c| (c as u32).to_string()).collect::<Vec<_>>().join("; "))
}
fn opt_text(f: impl FnOnce(&mut String) + std::panic::UnwindSafe) -> String {
    match std::panic::catch_unwind(|| {
        let mut s = String::new();
        f(&mut s);
        s
    }) {
        Ok(s) => format!("Some {}", coq_str(&s)),
        Err(_) => "None".to_string(),
    }
}

pub fn shapes() -> Vec<(u32, SimpleExpr)> {
    let c: SimpleExpr = Expr::col(a("c")).into();
    let mut v: Vec<(u32, SimpleExpr)> = vec![
        (200, c.clone()),
        (201, SimpleExpr::Tuple(vec![])),
        (202, SimpleExpr::Unary(UnOper::Not, Box::new(c.clone()))),
        (203, SimpleExpr::FunctionCall(Func::max(c.clone()))),
        (
            204,
            SimpleExpr::SubQuery(
                None,
                Box::new(SubQueryStatement::SelectStatement(Query::select().expr(Expr::val(1)).take())),
            ),
        ),
        (205, SimpleExpr::Value(1.into())),
        (206, SimpleExpr::Values(vec![1.into()])),
        (207, SimpleExpr::Custom("x".into())),
        (208, SimpleExpr::CustomWithExpr("x".into(), vec![])),
        (209, SimpleExpr::Keyword(Keyword::Null)),
        (210, SimpleExpr::AsEnum(a("t").into_iden(), Box::new(c.clone()))),
        (211, SimpleExpr::Case(Box::new(CaseStatement::new().finally(1)))),
        (212, SimpleExpr::Constant(1.into())),
    ];
    for (k, _, op) in binops() {
        v.push((k, SimpleExpr::Binary(Box::new(c.clone()), op, Box::new(c.clone()))));
    }
    v
}

pub fn dump_tables(out: &mut impl Write) {
    let more = cfg!(feature = "fc");
    let sfx = if more { "_more" } else { "" };
    writeln!(out, "(* GENERATED by sqv-harness --dump exprtables: finite tables obtained by executing /repo's code:").unwrap();
    writeln!(out, "   PrecedenceDecider / OperLeftAssocDecider over every (inner shape, outer operator), operator and").unwrap();
    writeln!(out, "   function spellings per backend. option-more-parentheses = {} *)", more).unwrap();
    writeln!(out, "Require Import SQV.Model.Str.").unwrap();
    let mut opers: Vec<(u32, Oper)> = binops().into_iter().map(|(k, _, o)| (k, Oper::BinOper(o))).collect();
    opers.push((100, Oper::UnOper(UnOper::Not)));
    for b in BACKENDS {
        let n = b.name();
        // drop-paren decisions
        writeln!(out, "Definition drop_paren_rows_{}{} : list (N * N * bool) := [", n, sfx).unwrap();
        let mut rows = vec![];
        for (sk, inner) in shapes() {
            for (ok, outer) in &opers {
                let d = match b {
                    B::My => MysqlQueryBuilder.inner_expr_well_known_greater_precedence(&inner, outer),
                    B::Pg => PostgresQueryBuilder.inner_expr_well_known_greater_precedence(&inner, outer),
                    B::Sl => SqliteQueryBuilder.inner_expr_well_known_greater_precedence(&inner, outer),
                };
                if d {
                    rows.push(format!("  ({}, {}, true)", sk, ok));
                }
            }
        }
        writeln!(out, "{}", rows.join(";\n")).unwrap();
        writeln!(out, "].").unwrap();
        writeln!(out, "Definition lassoc_rows_{}{} : list N := [{}].", n, sfx,
            binops().into_iter().filter(|(_, _, op)| match b {
                B::My => MysqlQueryBuilder.well_known_left_associative(op),
                B::Pg => PostgresQueryBuilder.well_known_left_associative(op),
                B::Sl => SqliteQueryBuilder.well_known_left_associative(op),
            }).map(|(k, _, _)| k.to_string()).collect::<Vec<_>>().join("; ")).unwrap();
        if more {
            continue;
        }
        writeln!(out, "Definition binop_rows_{} : list (N * option str) := [", n).unwrap();
        let rows: Vec<String> = binops().into_iter().filter(|(k, _, _)| *k != 27).map(|(k, _, op)| {
            format!("  ({}, {})", k, opt_text(move |s| b.qb().prepare_bin_oper(&op, s)))
        }).collect();
        writeln!(out, "{}\n].", rows.join(";\n")).unwrap();
        writeln!(out, "Definition func_rows_{} : list (N * option str) := [", n).unwrap();
        let rows: Vec<String> = funcs().into_iter().map(|(k, _, f)| {
            format!("  ({}, {})", k, opt_text(move |s| { let fc = f(); b.qb().prepare_function_name(fc.get_func(), s) }))
        }).collect();
        writeln!(out, "{}\n].", rows.join(";\n")).unwrap();
        writeln!(out, "Definition sqop_rows_{} : list (N * option str) := [", n).unwrap();
        let rows: Vec<String> = [SubQueryOper::Exists, SubQueryOper::Any, SubQueryOper::Some, SubQueryOper::All]
            .into_iter().enumerate().map(|(k, op)| {
                format!("  ({}, {})", k, opt_text(move |s| b.qb().prepare_sub_query_oper(&op, s)))
            }).collect();
        writeln!(out, "{}\n].", rows.join(";\n")).unwrap();
    }
}
