//! C15: builder histories with take / clone / clear markers, replayed through the public API.
//!
//! case line:   tk <Type> <op> <op> ...        (tkv ... = the same plus a readable log, hex-encoded)
//! an op is a builder method code, optionally with a small parameter (`limit.3`), or one of the markers
//!   take        statement.take()
//!   clone       keep a clone aside, go on with the source
//!   cswap       keep the source aside, go on with the clone
//!   <clear>     one of the clear_* / reset_* / from_clear methods of the type
//! output: `<Type> F=<debug field names> | <event> <event> ... | E:<bits> H=<hash>`; see `run_subject`.
//! `tktypes` lists the statement types, their ops (with the clause each op fills) and their clear methods.
use crate::util::*;
use sea_query::extension::mysql::{IndexHintScope, MySqlSelectStatementExt};
use sea_query::extension::postgres::{PostgresSelectStatementExt, SampleMethod};
use sea_query::*;
use std::fmt::Debug;
use std::hash::{Hash, Hasher};
use std::panic::{catch_unwind, AssertUnwindSafe};

// ------------------------------------------------------------------------------------------------
// small argument builders (every identifier goes through one non-generic function)
// ------------------------------------------------------------------------------------------------

#[inline(never)]
fn a(s: &str) -> DynIden {
    Alias::new(s).into_iden()
}
const NAMES: [&str; 6] = ["a", "b", "c", "t", "u", "v"];
fn n(k: u32) -> DynIden {
    a(NAMES[(k as usize) % NAMES.len()])
}
fn tbl(k: u32) -> DynIden {
    a(["t", "u", "v", "w"][(k as usize) % 4])
}
fn ex(k: u32) -> SimpleExpr {
    match k % 4 {
        0 => Expr::col(n(k)).eq(k as i32),
        1 => Expr::col((tbl(k), n(k))).is_not_null(),
        2 => Expr::col(n(k)).like(format!("x{}%", k)),
        _ => Expr::col(n(k)).gt(k as i32).and(Expr::col(n(k + 1)).lt(9)),
    }
}
fn cond(k: u32) -> Condition {
    match k % 6 {
        0 => Cond::any().add(ex(k)).add(ex(k + 1)),
        1 => Cond::all().add(ex(k)),
        2 => Cond::all().not().add(ex(k)).add(Cond::any().add(ex(k + 1)).add(ex(k + 2))),
        // member-less groups still render a predicate (FALSE, NOT TRUE): "no members" is not "no condition"
        4 => Cond::any(),
        5 => Cond::all().not(),
        _ => Cond::any().add(ex(k)),
    }
}
fn sub(k: u32) -> SelectStatement {
    // built the way user code does it: a chain ended by take()
    match k % 3 {
        0 => Query::select().column(n(k)).from(tbl(k + 1)).take(),
        1 => Query::select()
            .columns([n(k), n(k + 1)])
            .from(tbl(k))
            .and_where(ex(k))
            .limit(k as u64 + 1)
            .take(),
        _ => Query::select()
            .expr(Expr::val(k as i32))
            .expr(Expr::val("s"))
            .take(),
    }
}
fn sub2(k: u32) -> SelectStatement {
    // two columns, for INSERT ... SELECT
    Query::select()
        .columns([n(k), n(k + 1)])
        .from(tbl(k))
        .take()
}
fn win(k: u32) -> WindowStatement {
    match k % 3 {
        0 => WindowStatement::partition_by(n(k)),
        1 => WindowStatement::partition_by(n(k))
            .order_by(n(k + 1), Order::Desc)
            .take(),
        _ => WindowStatement::new()
            .order_by(n(k), Order::Asc)
            .frame_start(FrameType::Rows, Frame::UnboundedPreceding)
            .take(),
    }
}
fn ord(k: u32) -> Order {
    if k % 2 == 0 {
        Order::Asc
    } else {
        Order::Desc
    }
}
fn nulls(k: u32) -> NullOrdering {
    if k % 2 == 0 {
        NullOrdering::First
    } else {
        NullOrdering::Last
    }
}
fn cte(k: u32) -> CommonTableExpression {
    CommonTableExpression::new()
        .query(sub(k))
        .table_name(a(&format!("cte{}", k % 3)))
        .to_owned()
}
fn with_clause(k: u32) -> WithClause {
    let mut w = WithClause::new();
    w.cte(cte(k));
    if k % 2 == 1 {
        w.cte(cte(k + 1));
    }
    w
}
fn lock_type(k: u32) -> LockType {
    [LockType::Update, LockType::NoKeyUpdate, LockType::Share, LockType::KeyShare][(k as usize) % 4]
}
fn lock_beh(k: u32) -> LockBehavior {
    if k % 2 == 0 {
        LockBehavior::Nowait
    } else {
        LockBehavior::SkipLocked
    }
}
fn union_type(k: u32) -> UnionType {
    [UnionType::All, UnionType::Distinct, UnionType::Intersect, UnionType::Except][(k as usize) % 4]
}
fn returning(k: u32) -> ReturningClause {
    match k % 3 {
        0 => Query::returning().all(),
        1 => Query::returning().column(n(k)),
        _ => Query::returning().columns([n(k), n(k + 1)]),
    }
}
fn on_conflict(k: u32) -> OnConflict {
    match k % 4 {
        0 => OnConflict::column(n(k)).do_nothing().to_owned(),
        1 => OnConflict::column(n(k)).update_column(n(k + 1)).to_owned(),
        2 => OnConflict::columns([n(k), n(k + 1)])
            .value(n(k + 2), Expr::val(k as i32))
            .action_and_where(ex(k))
            .to_owned(),
        _ => OnConflict::new().expr(Expr::col(n(k))).do_nothing().to_owned(),
    }
}
fn fk_action(k: u32) -> ForeignKeyAction {
    [
        ForeignKeyAction::Restrict,
        ForeignKeyAction::Cascade,
        ForeignKeyAction::SetNull,
        ForeignKeyAction::NoAction,
        ForeignKeyAction::SetDefault,
    ][(k as usize) % 5]
}
fn coldef(k: u32) -> ColumnDef {
    let mut c = ColumnDef::new(n(k));
    match k % 4 {
        0 => c.integer().not_null().auto_increment().primary_key(),
        1 => c.string_len(10 + k).default("d"),
        2 => c.text().null(),
        _ => c.big_integer().unique_key(),
    };
    c
}
fn index_stmt(k: u32) -> IndexCreateStatement {
    let mut i = Index::create();
    i.name(format!("idx{}", k % 3)).col(n(k));
    if k % 2 == 1 {
        i.col(n(k + 1)).unique();
    }
    i
}
fn fk_stmt(k: u32) -> ForeignKeyCreateStatement {
    let mut f = ForeignKey::create();
    f.name(format!("fk{}", k % 3))
        .from(tbl(k), n(k))
        .to(tbl(k + 1), n(k + 1));
    if k % 2 == 1 {
        f.on_delete(fk_action(k)).on_update(fk_action(k + 1));
    }
    f
}
fn table_fk(k: u32) -> TableForeignKey {
    let mut f = TableForeignKey::new();
    f.name(format!("fk{}", k % 3))
        .from_tbl(tbl(k))
        .from_col(n(k))
        .to_tbl(tbl(k + 1))
        .to_col(n(k + 1));
    f
}

// ------------------------------------------------------------------------------------------------
// observation helpers
// ------------------------------------------------------------------------------------------------

fn guarded<F: FnOnce() -> String>(f: F) -> String {
    match catch_unwind(AssertUnwindSafe(f)) {
        Ok(s) => s,
        Err(_) => "<PANIC>".to_string(),
    }
}
fn q3<T: QueryStatementWriter>(s: &T) -> [String; 3] {
    let one = |b: B| {
        guarded(|| match b {
            B::My => {
                let (sql, v) = s.build(MysqlQueryBuilder);
                format!("{} || {} || {:?}", s.to_string(MysqlQueryBuilder), sql, v)
            }
            B::Pg => {
                let (sql, v) = s.build(PostgresQueryBuilder);
                format!("{} || {} || {:?}", s.to_string(PostgresQueryBuilder), sql, v)
            }
            B::Sl => {
                let (sql, v) = s.build(SqliteQueryBuilder);
                format!("{} || {} || {:?}", s.to_string(SqliteQueryBuilder), sql, v)
            }
        })
    };
    [one(B::My), one(B::Pg), one(B::Sl)]
}
fn s3<T: SchemaStatementBuilder>(s: &T) -> [String; 3] {
    let one = |b: B| {
        guarded(|| match b {
            B::My => format!("{} || {}", s.to_string(MysqlQueryBuilder), s.build(MysqlQueryBuilder)),
            B::Pg => format!("{} || {}", s.to_string(PostgresQueryBuilder), s.build(PostgresQueryBuilder)),
            B::Sl => format!("{} || {}", s.to_string(SqliteQueryBuilder), s.build(SqliteQueryBuilder)),
        })
    };
    [one(B::My), one(B::Pg), one(B::Sl)]
}

/// top-level `field: value` pairs of a derived Debug rendering `Name { f: v, ... }`
pub fn debug_fields(d: &str) -> Vec<(String, String)> {
    let mut out = vec![];
    let open = match d.find('{') {
        Some(i) => i,
        None => return out,
    };
    let inner = &d[open + 1..d.rfind('}').unwrap_or(d.len())];
    let bytes: Vec<char> = inner.chars().collect();
    let (mut depth, mut i, mut start) = (0i32, 0usize, 0usize);
    let mut in_str = false;
    let mut parts: Vec<String> = vec![];
    while i < bytes.len() {
        let c = bytes[i];
        if in_str {
            if c == '\\' {
                i += 1;
            } else if c == '"' {
                in_str = false;
            }
        } else {
            match c {
                '"' => in_str = true,
                '(' | '[' | '{' => depth += 1,
                ')' | ']' | '}' => depth -= 1,
                ',' if depth == 0 => {
                    parts.push(bytes[start..i].iter().collect());
                    start = i + 1;
                }
                _ => {}
            }
        }
        i += 1;
    }
    parts.push(bytes[start..].iter().collect());
    for p in parts {
        let p = p.trim();
        if p.is_empty() {
            continue;
        }
        if let Some(ix) = p.find(": ") {
            out.push((p[..ix].to_string(), p[ix + 2..].to_string()));
        } else {
            out.push((p.to_string(), String::new()));
        }
    }
    out
}

fn hash_strs(xs: &[String]) -> u64 {
    let mut h = std::collections::hash_map::DefaultHasher::new();
    for x in xs {
        x.hash(&mut h);
    }
    h.finish()
}

// ------------------------------------------------------------------------------------------------
// the statement types
// ------------------------------------------------------------------------------------------------

pub trait Subject: Clone + Debug + 'static {
    const NAME: &'static str;
    /// (op code, takes a parameter, clause the op fills)
    const OPS: &'static [(&'static str, bool, &'static str)];
    /// (clear method, clause it clears)
    const CLEARS: &'static [(&'static str, &'static str)];
    const HAS_TAKE: bool;
    fn fresh() -> Self;
    fn op(&mut self, code: &str, k: u32) -> bool;
    fn render(&self) -> [String; 3];
    fn same(&self, _o: &Self) -> Option<bool> {
        None
    }
    fn do_take(&mut self) -> Option<Self> {
        None
    }
    fn do_clear(&mut self, _m: &str) -> bool {
        false
    }
}

macro_rules! ordered_ops {
    ($s:ident, $code:ident, $k:ident) => {
        match $code {
            "order_by" => {
                $s.order_by(n($k), ord($k));
            }
            "order_by_tbl" => {
                $s.order_by((tbl($k), n($k)), ord($k));
            }
            "order_by_expr" => {
                $s.order_by_expr(Expr::col(n($k)).add(1), ord($k));
            }
            "order_by_field" => {
                $s.order_by(
                    n($k),
                    Order::Field(Values(vec![Value::from($k as i32), Value::from("z")])),
                );
            }
            "order_by_customs" => {
                $s.order_by_customs([(format!("c{}", $k), ord($k)), ("d".to_string(), ord($k + 1))]);
            }
            "order_by_columns" => {
                $s.order_by_columns([(n($k), ord($k)), (n($k + 1), ord($k + 1))]);
            }
            "order_by_with_nulls" => {
                $s.order_by_with_nulls(n($k), ord($k), nulls($k / 2));
            }
            "order_by_expr_with_nulls" => {
                $s.order_by_expr_with_nulls(Expr::col(n($k)).sub(2), ord($k), nulls($k / 2));
            }
            "order_by_customs_with_nulls" => {
                $s.order_by_customs_with_nulls([(format!("c{}", $k), ord($k), nulls($k / 2))]);
            }
            "order_by_columns_with_nulls" => {
                $s.order_by_columns_with_nulls([(n($k), ord($k), nulls($k / 2))]);
            }
            _ => return false,
        }
    };
}

// ---- SelectStatement ---------------------------------------------------------------------------

impl Subject for SelectStatement {
    const NAME: &'static str = "SelectStatement";
    const HAS_TAKE: bool = true;
    const OPS: &'static [(&'static str, bool, &'static str)] = &[
        ("distinct", false, "distinct"),
        ("distinct_on", true, "distinct"),
        ("column", true, "selects"),
        ("tcolumn", true, "selects"),
        ("star", false, "selects"),
        ("columns", true, "selects"),
        ("expr", true, "selects"),
        ("exprs", true, "selects"),
        ("expr_as", true, "selects"),
        ("expr_window", true, "selects"),
        ("expr_window_as", true, "selects"),
        ("expr_window_name", true, "selects"),
        ("expr_window_name_as", true, "selects"),
        ("exprs_mut_for_each", false, "selects"),
        ("from", true, "from"),
        ("from_schema", true, "from"),
        ("from_as", true, "from"),
        ("from_subquery", true, "from"),
        ("from_values", true, "from"),
        ("from_function", true, "from"),
        ("cross_join", true, "join"),
        ("left_join", true, "join"),
        ("right_join", true, "join"),
        ("inner_join", true, "join"),
        ("full_outer_join", true, "join"),
        ("join", true, "join"),
        ("join_as", true, "join"),
        ("join_subquery", true, "join"),
        ("join_lateral", true, "join"),
        ("and_where", true, "where"),
        ("and_where_option", true, "where"),
        ("cond_where", true, "where"),
        ("group_by_col", true, "groups"),
        ("group_by_columns", true, "groups"),
        ("add_group_by", true, "groups"),
        ("conditions", true, "groups"),
        ("apply_if", true, "groups"),
        ("apply", true, "groups"),
        ("and_having", true, "having"),
        ("cond_having", true, "having"),
        ("order_by", true, "orders"),
        ("order_by_tbl", true, "orders"),
        ("order_by_expr", true, "orders"),
        ("order_by_field", true, "orders"),
        ("order_by_customs", true, "orders"),
        ("order_by_columns", true, "orders"),
        ("order_by_with_nulls", true, "orders"),
        ("order_by_expr_with_nulls", true, "orders"),
        ("order_by_customs_with_nulls", true, "orders"),
        ("order_by_columns_with_nulls", true, "orders"),
        ("limit", true, "limit"),
        ("offset", true, "offset"),
        ("lock", true, "lock"),
        ("lock_with_tables", true, "lock"),
        ("lock_with_behavior", true, "lock"),
        ("lock_with_tables_behavior", true, "lock"),
        ("lock_shared", false, "lock"),
        ("lock_exclusive", false, "lock"),
        ("union", true, "unions"),
        ("unions", true, "unions"),
        ("with_cte", true, "with"),
        ("window", true, "window"),
        ("table_sample", true, "table_sample"),
        ("use_index", true, "index_hints"),
        ("force_index", true, "index_hints"),
        ("ignore_index", true, "index_hints"),
    ];
    const CLEARS: &'static [(&'static str, &'static str)] = &[
        ("clear_selects", "selects"),
        ("from_clear", "from"),
        ("reset_limit", "limit"),
        ("reset_offset", "offset"),
        ("clear_order_by", "orders"),
    ];
    fn fresh() -> Self {
        SelectStatement::new()
    }
    fn render(&self) -> [String; 3] {
        q3(self)
    }
    fn same(&self, o: &Self) -> Option<bool> {
        Some(self == o)
    }
    fn do_take(&mut self) -> Option<Self> {
        Some(self.take())
    }
    fn do_clear(&mut self, m: &str) -> bool {
        match m {
            "clear_selects" => {
                self.clear_selects();
            }
            "from_clear" => {
                self.from_clear();
            }
            "reset_limit" => {
                self.reset_limit();
            }
            "reset_offset" => {
                self.reset_offset();
            }
            "clear_order_by" => {
                self.clear_order_by();
            }
            _ => return false,
        }
        true
    }
    fn op(&mut self, code: &str, k: u32) -> bool {
        let s = self;
        match code {
            "distinct" => {
                s.distinct();
            }
            "distinct_on" => {
                s.distinct_on([n(k), n(k + 1)]);
            }
            "column" => {
                s.column(n(k));
            }
            "tcolumn" => {
                s.column((tbl(k), n(k)));
            }
            "star" => {
                s.column(Asterisk);
            }
            "columns" => {
                s.columns([n(k), n(k + 1)]);
            }
            "expr" => {
                s.expr(Expr::val(k as i32));
            }
            "exprs" => {
                s.exprs([Expr::col(n(k)).into(), SimpleExpr::from(Expr::val(format!("s{}", k)))]);
            }
            "expr_as" => {
                s.expr_as(Expr::col(n(k)).add(1), a(&format!("x{}", k)));
            }
            "expr_window" => {
                s.expr_window(Expr::col(n(k)), win(k));
            }
            "expr_window_as" => {
                s.expr_window_as(Expr::col(n(k)), win(k), a("wa"));
            }
            "expr_window_name" => {
                s.expr_window_name(Expr::col(n(k)), a("w"));
            }
            "expr_window_name_as" => {
                s.expr_window_name_as(Expr::col(n(k)), a("w"), a("wn"));
            }
            "exprs_mut_for_each" => {
                s.exprs_mut_for_each(|e| e.alias = Some(a("m")));
            }
            "from" => {
                s.from(tbl(k));
            }
            "from_schema" => {
                s.from((a("sch"), tbl(k)));
            }
            "from_as" => {
                s.from_as(tbl(k), a(&format!("al{}", k)));
            }
            "from_subquery" => {
                s.from_subquery(sub(k), a("sq"));
            }
            "from_values" => {
                s.from_values([(k as i32, "x"), (k as i32 + 1, "y")], a("vals"));
            }
            "from_function" => {
                s.from_function(Func::cust(a("gen")).arg(k as i32), a("fa"));
            }
            "cross_join" => {
                s.cross_join(tbl(k), ex(k));
            }
            "left_join" => {
                s.left_join(tbl(k), ex(k));
            }
            "right_join" => {
                s.right_join(tbl(k), ex(k));
            }
            "inner_join" => {
                s.inner_join(tbl(k), cond(k));
            }
            "full_outer_join" => {
                s.full_outer_join(tbl(k), ex(k));
            }
            "join" => {
                s.join(JoinType::Join, tbl(k), ex(k));
            }
            "join_as" => {
                s.join_as(JoinType::LeftJoin, tbl(k), a("ja"), ex(k));
            }
            "join_subquery" => {
                s.join_subquery(JoinType::InnerJoin, sub(k), a("js"), ex(k));
            }
            "join_lateral" => {
                s.join_lateral(JoinType::LeftJoin, sub(k), a("jl"), ex(k));
            }
            "and_where" => {
                s.and_where(ex(k));
            }
            "and_where_option" => {
                s.and_where_option(if k % 2 == 0 { Some(ex(k)) } else { None });
            }
            "cond_where" => {
                s.cond_where(cond(k));
            }
            "group_by_col" => {
                s.group_by_col(n(k));
            }
            "group_by_columns" => {
                s.group_by_columns([n(k), n(k + 1)]);
            }
            "add_group_by" => {
                s.add_group_by([Expr::col(n(k)).add(1), Expr::col(n(k + 1)).into()]);
            }
            "conditions" => {
                s.conditions(
                    k % 2 == 0,
                    |q| {
                        q.group_by_col(n(k));
                    },
                    |q| {
                        q.group_by_col((tbl(k), n(k)));
                    },
                );
            }
            "apply_if" => {
                s.apply_if(if k % 2 == 0 { Some(k) } else { None }, |q, v| {
                    q.group_by_col(n(v + 1));
                });
            }
            "apply" => {
                s.apply(|q| {
                    q.group_by_col(n(k + 2));
                });
            }
            "and_having" => {
                s.and_having(ex(k));
            }
            "cond_having" => {
                s.cond_having(cond(k));
            }
            "limit" => {
                s.limit(k as u64);
            }
            "offset" => {
                s.offset(k as u64 * 10);
            }
            "lock" => {
                s.lock(lock_type(k));
            }
            "lock_with_tables" => {
                s.lock_with_tables(lock_type(k), [tbl(k), tbl(k + 1)]);
            }
            "lock_with_behavior" => {
                s.lock_with_behavior(lock_type(k), lock_beh(k));
            }
            "lock_with_tables_behavior" => {
                s.lock_with_tables_behavior(lock_type(k), [tbl(k)], lock_beh(k));
            }
            "lock_shared" => {
                s.lock_shared();
            }
            "lock_exclusive" => {
                s.lock_exclusive();
            }
            "union" => {
                s.union(union_type(k), sub(k));
            }
            "unions" => {
                s.unions([(union_type(k), sub(k)), (union_type(k + 1), sub(k + 1))]);
            }
            "with_cte" => {
                s.with_cte(with_clause(k));
            }
            "window" => {
                s.window(a("w"), win(k));
            }
            "table_sample" => {
                s.table_sample(
                    if k % 2 == 0 { SampleMethod::BERNOULLI } else { SampleMethod::SYSTEM },
                    10.0 + k as f64,
                    if k % 3 == 0 { Some(1.5) } else { None },
                );
            }
            "use_index" => {
                s.use_index(a(&format!("ix{}", k)), IndexHintScope::All);
            }
            "force_index" => {
                s.force_index(a(&format!("ix{}", k)), IndexHintScope::Join);
            }
            "ignore_index" => {
                s.ignore_index(a(&format!("ix{}", k)), IndexHintScope::OrderBy);
            }
            _ => ordered_ops!(s, code, k),
        }
        true
    }
}

// ---- InsertStatement ---------------------------------------------------------------------------

impl Subject for InsertStatement {
    const NAME: &'static str = "InsertStatement";
    const HAS_TAKE: bool = false;
    const OPS: &'static [(&'static str, bool, &'static str)] = &[
        ("replace", false, "replace"),
        ("into_table", true, "table"),
        ("columns", true, "columns"),
        ("values_panic", true, "source"),
        ("values", true, "source"),
        ("values_from_panic", true, "source"),
        ("select_from", true, "source"),
        ("on_conflict", true, "on_conflict"),
        ("returning", true, "returning"),
        ("returning_col", true, "returning"),
        ("returning_all", false, "returning"),
        ("with_cte", true, "with"),
        ("or_default_values", false, "default_values"),
        ("or_default_values_many", true, "default_values"),
    ];
    const CLEARS: &'static [(&'static str, &'static str)] = &[];
    fn fresh() -> Self {
        InsertStatement::new()
    }
    fn render(&self) -> [String; 3] {
        q3(self)
    }
    fn same(&self, o: &Self) -> Option<bool> {
        Some(self == o)
    }
    fn op(&mut self, code: &str, k: u32) -> bool {
        let s = self;
        match code {
            "replace" => {
                s.replace();
            }
            "into_table" => {
                s.into_table(tbl(k));
            }
            "columns" => {
                s.columns([n(k), n(k + 1)]);
            }
            "values_panic" => {
                s.values_panic([(k as i32).into(), format!("v{}", k).into()]);
            }
            "values" => {
                // the Result is part of the builder protocol; an Err leaves the statement as it was
                let _ = s.values([Expr::val(k as i32).into(), Expr::col(n(k)).add(1)]);
            }
            "values_from_panic" => {
                s.values_from_panic([
                    [Value::from(k as i32).into(), SimpleExpr::from(Value::from("p"))],
                    [Value::from(k as i32 + 1).into(), SimpleExpr::from(Value::from("q"))],
                ]);
            }
            "select_from" => {
                let _ = s.select_from(sub2(k));
            }
            "on_conflict" => {
                s.on_conflict(on_conflict(k));
            }
            "returning" => {
                s.returning(returning(k));
            }
            "returning_col" => {
                s.returning_col(n(k));
            }
            "returning_all" => {
                s.returning_all();
            }
            "with_cte" => {
                s.with_cte(with_clause(k));
            }
            "or_default_values" => {
                s.or_default_values();
            }
            "or_default_values_many" => {
                s.or_default_values_many(k + 1);
            }
            _ => return false,
        }
        true
    }
}

// ---- UpdateStatement ---------------------------------------------------------------------------

impl Subject for UpdateStatement {
    const NAME: &'static str = "UpdateStatement";
    const HAS_TAKE: bool = false;
    const OPS: &'static [(&'static str, bool, &'static str)] = &[
        ("table", true, "table"),
        ("from", true, "from"),
        ("values", true, "values"),
        ("value", true, "values"),
        ("limit", true, "limit"),
        ("returning", true, "returning"),
        ("returning_col", true, "returning"),
        ("returning_all", false, "returning"),
        ("with_cte", true, "with"),
        ("and_where", true, "where"),
        ("and_where_option", true, "where"),
        ("cond_where", true, "where"),
        ("order_by", true, "orders"),
        ("order_by_tbl", true, "orders"),
        ("order_by_expr", true, "orders"),
        ("order_by_field", true, "orders"),
        ("order_by_customs", true, "orders"),
        ("order_by_columns", true, "orders"),
        ("order_by_with_nulls", true, "orders"),
        ("order_by_expr_with_nulls", true, "orders"),
        ("order_by_customs_with_nulls", true, "orders"),
        ("order_by_columns_with_nulls", true, "orders"),
    ];
    const CLEARS: &'static [(&'static str, &'static str)] = &[("clear_order_by", "orders")];
    fn fresh() -> Self {
        UpdateStatement::new()
    }
    fn render(&self) -> [String; 3] {
        q3(self)
    }
    fn same(&self, o: &Self) -> Option<bool> {
        Some(self == o)
    }
    fn do_clear(&mut self, m: &str) -> bool {
        if m == "clear_order_by" {
            self.clear_order_by();
            true
        } else {
            false
        }
    }
    fn op(&mut self, code: &str, k: u32) -> bool {
        let s = self;
        match code {
            "table" => {
                s.table(tbl(k));
            }
            "from" => {
                s.from(tbl(k + 1));
            }
            "values" => {
                s.values([(n(k), (k as i32).into()), (n(k + 1), Expr::col(n(k)).add(1))]);
            }
            "value" => {
                s.value(n(k), format!("v{}", k));
            }
            "limit" => {
                s.limit(k as u64);
            }
            "returning" => {
                s.returning(returning(k));
            }
            "returning_col" => {
                s.returning_col(n(k));
            }
            "returning_all" => {
                s.returning_all();
            }
            "with_cte" => {
                s.with_cte(with_clause(k));
            }
            "and_where" => {
                s.and_where(ex(k));
            }
            "and_where_option" => {
                s.and_where_option(if k % 2 == 0 { Some(ex(k)) } else { None });
            }
            "cond_where" => {
                s.cond_where(cond(k));
            }
            _ => ordered_ops!(s, code, k),
        }
        true
    }
}

// ---- DeleteStatement ---------------------------------------------------------------------------

impl Subject for DeleteStatement {
    const NAME: &'static str = "DeleteStatement";
    const HAS_TAKE: bool = false;
    const OPS: &'static [(&'static str, bool, &'static str)] = &[
        ("from_table", true, "table"),
        ("limit", true, "limit"),
        ("returning", true, "returning"),
        ("returning_col", true, "returning"),
        ("returning_all", false, "returning"),
        ("with_cte", true, "with"),
        ("and_where", true, "where"),
        ("and_where_option", true, "where"),
        ("cond_where", true, "where"),
        ("order_by", true, "orders"),
        ("order_by_tbl", true, "orders"),
        ("order_by_expr", true, "orders"),
        ("order_by_field", true, "orders"),
        ("order_by_customs", true, "orders"),
        ("order_by_columns", true, "orders"),
        ("order_by_with_nulls", true, "orders"),
        ("order_by_expr_with_nulls", true, "orders"),
        ("order_by_customs_with_nulls", true, "orders"),
        ("order_by_columns_with_nulls", true, "orders"),
    ];
    const CLEARS: &'static [(&'static str, &'static str)] = &[("clear_order_by", "orders")];
    fn fresh() -> Self {
        DeleteStatement::new()
    }
    fn render(&self) -> [String; 3] {
        q3(self)
    }
    fn same(&self, o: &Self) -> Option<bool> {
        Some(self == o)
    }
    fn do_clear(&mut self, m: &str) -> bool {
        if m == "clear_order_by" {
            self.clear_order_by();
            true
        } else {
            false
        }
    }
    fn op(&mut self, code: &str, k: u32) -> bool {
        let s = self;
        match code {
            "from_table" => {
                s.from_table(tbl(k));
            }
            "limit" => {
                s.limit(k as u64);
            }
            "returning" => {
                s.returning(returning(k));
            }
            "returning_col" => {
                s.returning_col(n(k));
            }
            "returning_all" => {
                s.returning_all();
            }
            "with_cte" => {
                s.with_cte(with_clause(k));
            }
            "and_where" => {
                s.and_where(ex(k));
            }
            "and_where_option" => {
                s.and_where_option(if k % 2 == 0 { Some(ex(k)) } else { None });
            }
            "cond_where" => {
                s.cond_where(cond(k));
            }
            _ => ordered_ops!(s, code, k),
        }
        true
    }
}

// ---- WindowStatement ---------------------------------------------------------------------------

impl Subject for WindowStatement {
    const NAME: &'static str = "WindowStatement";
    const HAS_TAKE: bool = true;
    const OPS: &'static [(&'static str, bool, &'static str)] = &[
        ("partition_by", true, "partition_by"),
        ("partition_by_customs", true, "partition_by"),
        ("partition_by_columns", true, "partition_by"),
        ("add_partition_by", true, "partition_by"),
        ("frame_start", true, "frame"),
        ("frame_between", true, "frame"),
        ("frame", true, "frame"),
        ("order_by", true, "order_by"),
        ("order_by_tbl", true, "order_by"),
        ("order_by_expr", true, "order_by"),
        ("order_by_field", true, "order_by"),
        ("order_by_customs", true, "order_by"),
        ("order_by_columns", true, "order_by"),
        ("order_by_with_nulls", true, "order_by"),
        ("order_by_expr_with_nulls", true, "order_by"),
        ("order_by_customs_with_nulls", true, "order_by"),
        ("order_by_columns_with_nulls", true, "order_by"),
    ];
    const CLEARS: &'static [(&'static str, &'static str)] = &[("clear_order_by", "order_by")];
    fn fresh() -> Self {
        WindowStatement::new()
    }
    fn render(&self) -> [String; 3] {
        // a window is rendered inside a select: inline (OVER (...)) and named (WINDOW w AS ...)
        let mut q = Query::select();
        q.from(a("t"))
            .expr_window(Expr::col(a("c")), self.clone())
            .window(a("w"), self.clone());
        q3(&q)
    }
    fn same(&self, o: &Self) -> Option<bool> {
        Some(self == o)
    }
    fn do_take(&mut self) -> Option<Self> {
        Some(self.take())
    }
    fn do_clear(&mut self, m: &str) -> bool {
        if m == "clear_order_by" {
            self.clear_order_by();
            true
        } else {
            false
        }
    }
    fn op(&mut self, code: &str, k: u32) -> bool {
        let s = self;
        let frame = |j: u32| match j % 5 {
            0 => Frame::UnboundedPreceding,
            1 => Frame::Preceding(j),
            2 => Frame::CurrentRow,
            3 => Frame::Following(j),
            _ => Frame::UnboundedFollowing,
        };
        let ft = |j: u32| if j % 2 == 0 { FrameType::Rows } else { FrameType::Range };
        match code {
            "partition_by" => {
                OverStatement::partition_by(s, n(k));
            }
            "partition_by_customs" => {
                s.partition_by_customs([format!("p{}", k), "q".to_string()]);
            }
            "partition_by_columns" => {
                s.partition_by_columns([n(k), n(k + 1)]);
            }
            "add_partition_by" => {
                s.add_partition_by(Expr::col(n(k)).add(1));
            }
            "frame_start" => {
                s.frame_start(ft(k), frame(k));
            }
            "frame_between" => {
                s.frame_between(ft(k), frame(k), frame(k + 2));
            }
            "frame" => {
                s.frame(ft(k), frame(k), if k % 2 == 0 { Some(frame(k + 3)) } else { None });
            }
            _ => ordered_ops!(s, code, k),
        }
        true
    }
}

// ---- ColumnDef ---------------------------------------------------------------------------------

impl Subject for ColumnDef {
    const NAME: &'static str = "ColumnDef";
    const HAS_TAKE: bool = true;
    const OPS: &'static [(&'static str, bool, &'static str)] = &[
        ("not_null", false, "spec"),
        ("null", false, "spec"),
        ("default", true, "spec"),
        ("auto_increment", false, "spec"),
        ("unique_key", false, "spec"),
        ("primary_key", false, "spec"),
        ("check", true, "spec"),
        ("generated", true, "spec"),
        ("extra", true, "spec"),
        ("using", true, "spec"),
        ("comment", true, "spec"),
        ("char_len", true, "types"),
        ("char", false, "types"),
        ("string_len", true, "types"),
        ("string", false, "types"),
        ("text", false, "types"),
        ("tiny_integer", false, "types"),
        ("small_integer", false, "types"),
        ("integer", false, "types"),
        ("big_integer", false, "types"),
        ("tiny_unsigned", false, "types"),
        ("small_unsigned", false, "types"),
        ("unsigned", false, "types"),
        ("big_unsigned", false, "types"),
        ("float", false, "types"),
        ("double", false, "types"),
        ("decimal_len", true, "types"),
        ("decimal", false, "types"),
        ("date_time", false, "types"),
        ("interval", true, "types"),
        ("timestamp", false, "types"),
        ("timestamp_with_time_zone", false, "types"),
        ("time", false, "types"),
        ("date", false, "types"),
        ("year", false, "types"),
        ("binary_len", true, "types"),
        ("binary", false, "types"),
        ("var_binary", true, "types"),
        ("bit", true, "types"),
        ("varbit", true, "types"),
        ("blob", false, "types"),
        ("boolean", false, "types"),
        ("money_len", true, "types"),
        ("money", false, "types"),
        ("json", false, "types"),
        ("json_binary", false, "types"),
        ("uuid", false, "types"),
        ("custom", true, "types"),
        ("enumeration", true, "types"),
        ("array", true, "types"),
        ("cidr", false, "types"),
        ("inet", false, "types"),
        ("mac_address", false, "types"),
        ("ltree", false, "types"),
    ];
    const CLEARS: &'static [(&'static str, &'static str)] = &[];
    fn fresh() -> Self {
        ColumnDef::new(a("c"))
    }
    fn render(&self) -> [String; 3] {
        let mut t = Table::create();
        t.table(a("t")).col(self.clone());
        let mut al = Table::alter();
        al.table(a("t")).add_column(self.clone());
        let (x, y) = (s3(&t), s3(&al));
        [
            format!("{} ## {}", x[0], y[0]),
            format!("{} ## {}", x[1], y[1]),
            format!("{} ## {}", x[2], y[2]),
        ]
    }
    fn do_take(&mut self) -> Option<Self> {
        Some(self.take())
    }
    fn op(&mut self, code: &str, k: u32) -> bool {
        let s = self;
        match code {
            "not_null" => {
                s.not_null();
            }
            "null" => {
                s.null();
            }
            "default" => {
                if k % 2 == 0 {
                    s.default(k as i32);
                } else {
                    s.default(format!("d{}", k));
                }
            }
            "auto_increment" => {
                s.auto_increment();
            }
            "unique_key" => {
                s.unique_key();
            }
            "primary_key" => {
                s.primary_key();
            }
            "check" => {
                s.check(Expr::col(a("c")).gt(k as i32));
            }
            "generated" => {
                s.generated(Expr::col(a("d")).add(k as i32), k % 2 == 0);
            }
            "extra" => {
                s.extra(format!("EXTRA{}", k));
            }
            "using" => {
                s.using(Expr::col(a("c")).cast_as(a("integer")));
            }
            "comment" => {
                s.comment(format!("it's {}", k));
            }
            "char_len" => {
                s.char_len(k + 1);
            }
            "char" => {
                s.char();
            }
            "string_len" => {
                s.string_len(k + 10);
            }
            "string" => {
                s.string();
            }
            "text" => {
                s.text();
            }
            "tiny_integer" => {
                s.tiny_integer();
            }
            "small_integer" => {
                s.small_integer();
            }
            "integer" => {
                s.integer();
            }
            "big_integer" => {
                s.big_integer();
            }
            "tiny_unsigned" => {
                s.tiny_unsigned();
            }
            "small_unsigned" => {
                s.small_unsigned();
            }
            "unsigned" => {
                s.unsigned();
            }
            "big_unsigned" => {
                s.big_unsigned();
            }
            "float" => {
                s.float();
            }
            "double" => {
                s.double();
            }
            "decimal_len" => {
                s.decimal_len(10 + k, k);
            }
            "decimal" => {
                s.decimal();
            }
            "date_time" => {
                s.date_time();
            }
            "interval" => {
                s.interval(
                    if k % 2 == 0 { Some(PgInterval::YearToMonth) } else { None },
                    if k % 3 == 0 { Some(k) } else { None },
                );
            }
            "timestamp" => {
                s.timestamp();
            }
            "timestamp_with_time_zone" => {
                s.timestamp_with_time_zone();
            }
            "time" => {
                s.time();
            }
            "date" => {
                s.date();
            }
            "year" => {
                s.year();
            }
            "binary_len" => {
                s.binary_len(k + 1);
            }
            "binary" => {
                s.binary();
            }
            "var_binary" => {
                s.var_binary(k + 1);
            }
            "bit" => {
                s.bit(if k % 2 == 0 { Some(k + 1) } else { None });
            }
            "varbit" => {
                s.varbit(k + 1);
            }
            "blob" => {
                s.blob();
            }
            "boolean" => {
                s.boolean();
            }
            "money_len" => {
                s.money_len(10 + k, 2);
            }
            "money" => {
                s.money();
            }
            "json" => {
                s.json();
            }
            "json_binary" => {
                s.json_binary();
            }
            "uuid" => {
                s.uuid();
            }
            "custom" => {
                s.custom(a(&format!("cust{}", k)));
            }
            "enumeration" => {
                s.enumeration(a("en"), [a("x"), n(k)]);
            }
            "array" => {
                s.array(if k % 2 == 0 { ColumnType::Integer } else { ColumnType::Text });
            }
            "cidr" => {
                s.cidr();
            }
            "inet" => {
                s.inet();
            }
            "mac_address" => {
                s.mac_address();
            }
            "ltree" => {
                s.ltree();
            }
            _ => return false,
        }
        true
    }
}

// ---- schema statements -------------------------------------------------------------------------

impl Subject for TableCreateStatement {
    const NAME: &'static str = "TableCreateStatement";
    const HAS_TAKE: bool = true;
    const OPS: &'static [(&'static str, bool, &'static str)] = &[
        ("if_not_exists", false, "if_not_exists"),
        ("table", true, "table"),
        ("comment", true, "comment"),
        ("col", true, "columns"),
        ("col_mut", true, "columns"),
        ("check", true, "check"),
        ("index", true, "indexes"),
        ("primary_key", true, "indexes"),
        ("foreign_key", true, "foreign_keys"),
        ("engine", true, "options"),
        ("collate", true, "options"),
        ("character_set", true, "options"),
        ("extra", true, "extra"),
        ("temporary", false, "temporary"),
    ];
    const CLEARS: &'static [(&'static str, &'static str)] = &[];
    fn fresh() -> Self {
        TableCreateStatement::new()
    }
    fn render(&self) -> [String; 3] {
        s3(self)
    }
    fn do_take(&mut self) -> Option<Self> {
        Some(self.take())
    }
    fn op(&mut self, code: &str, k: u32) -> bool {
        let s = self;
        match code {
            "if_not_exists" => {
                s.if_not_exists();
            }
            "table" => {
                s.table(tbl(k));
            }
            "comment" => {
                s.comment(format!("table {}", k));
            }
            "col" => {
                s.col(coldef(k));
            }
            "col_mut" => {
                // the documented style: a &mut ColumnDef chain, taken by IntoColumnDef
                s.col(ColumnDef::new(n(k)).integer().not_null());
            }
            "check" => {
                s.check(ex(k));
            }
            "index" => {
                s.index(&mut index_stmt(k));
            }
            "primary_key" => {
                s.primary_key(&mut index_stmt(k));
            }
            "foreign_key" => {
                s.foreign_key(&mut fk_stmt(k));
            }
            "engine" => {
                s.engine(format!("E{}", k));
            }
            "collate" => {
                s.collate(format!("C{}", k));
            }
            "character_set" => {
                s.character_set(format!("S{}", k));
            }
            "extra" => {
                s.extra(format!("X{}", k));
            }
            "temporary" => {
                s.temporary();
            }
            _ => return false,
        }
        true
    }
}

impl Subject for TableAlterStatement {
    const NAME: &'static str = "TableAlterStatement";
    const HAS_TAKE: bool = true;
    const OPS: &'static [(&'static str, bool, &'static str)] = &[
        ("table", true, "table"),
        ("add_column", true, "options"),
        ("add_column_if_not_exists", true, "options"),
        ("modify_column", true, "options"),
        ("rename_column", true, "options"),
        ("drop_column", true, "options"),
        ("add_foreign_key", true, "options"),
        ("drop_foreign_key", true, "options"),
    ];
    const CLEARS: &'static [(&'static str, &'static str)] = &[];
    fn fresh() -> Self {
        TableAlterStatement::new()
    }
    fn render(&self) -> [String; 3] {
        s3(self)
    }
    fn do_take(&mut self) -> Option<Self> {
        Some(self.take())
    }
    fn op(&mut self, code: &str, k: u32) -> bool {
        let s = self;
        match code {
            "table" => {
                s.table(tbl(k));
            }
            "add_column" => {
                s.add_column(coldef(k));
            }
            "add_column_if_not_exists" => {
                s.add_column_if_not_exists(ColumnDef::new(n(k)).string().null());
            }
            "modify_column" => {
                s.modify_column(coldef(k + 1));
            }
            "rename_column" => {
                s.rename_column(n(k), n(k + 1));
            }
            "drop_column" => {
                s.drop_column(n(k));
            }
            "add_foreign_key" => {
                s.add_foreign_key(&table_fk(k));
            }
            "drop_foreign_key" => {
                s.drop_foreign_key(a(&format!("fk{}", k)));
            }
            _ => return false,
        }
        true
    }
}

impl Subject for TableDropStatement {
    const NAME: &'static str = "TableDropStatement";
    const HAS_TAKE: bool = true;
    const OPS: &'static [(&'static str, bool, &'static str)] = &[
        ("table", true, "tables"),
        ("if_exists", false, "if_exists"),
        ("restrict", false, "options"),
        ("cascade", false, "options"),
    ];
    const CLEARS: &'static [(&'static str, &'static str)] = &[];
    fn fresh() -> Self {
        TableDropStatement::new()
    }
    fn render(&self) -> [String; 3] {
        s3(self)
    }
    fn do_take(&mut self) -> Option<Self> {
        Some(self.take())
    }
    fn op(&mut self, code: &str, k: u32) -> bool {
        match code {
            "table" => {
                self.table(tbl(k));
            }
            "if_exists" => {
                self.if_exists();
            }
            "restrict" => {
                self.restrict();
            }
            "cascade" => {
                self.cascade();
            }
            _ => return false,
        }
        true
    }
}

impl Subject for TableRenameStatement {
    const NAME: &'static str = "TableRenameStatement";
    const HAS_TAKE: bool = true;
    const OPS: &'static [(&'static str, bool, &'static str)] = &[("table", true, "names")];
    const CLEARS: &'static [(&'static str, &'static str)] = &[];
    fn fresh() -> Self {
        TableRenameStatement::new()
    }
    fn render(&self) -> [String; 3] {
        s3(self)
    }
    fn do_take(&mut self) -> Option<Self> {
        Some(self.take())
    }
    fn op(&mut self, code: &str, k: u32) -> bool {
        match code {
            "table" => {
                self.table(tbl(k), tbl(k + 1));
            }
            _ => return false,
        }
        true
    }
}

impl Subject for TableTruncateStatement {
    const NAME: &'static str = "TableTruncateStatement";
    const HAS_TAKE: bool = true;
    const OPS: &'static [(&'static str, bool, &'static str)] = &[("table", true, "table"), ("table_schema", true, "table")];
    const CLEARS: &'static [(&'static str, &'static str)] = &[];
    fn fresh() -> Self {
        TableTruncateStatement::new()
    }
    fn render(&self) -> [String; 3] {
        s3(self)
    }
    fn do_take(&mut self) -> Option<Self> {
        Some(self.take())
    }
    fn op(&mut self, code: &str, k: u32) -> bool {
        match code {
            "table" => {
                self.table(tbl(k));
            }
            "table_schema" => {
                self.table((a("sch"), tbl(k)));
            }
            _ => return false,
        }
        true
    }
}

impl Subject for IndexCreateStatement {
    const NAME: &'static str = "IndexCreateStatement";
    const HAS_TAKE: bool = true;
    const OPS: &'static [(&'static str, bool, &'static str)] = &[
        ("if_not_exists", false, "if_not_exists"),
        ("name", true, "index"),
        ("table", true, "table"),
        ("col", true, "index"),
        ("col_prefix", true, "index"),
        ("col_order", true, "index"),
        ("col_prefix_order", true, "index"),
        ("primary", false, "primary"),
        ("unique", false, "unique"),
        ("nulls_not_distinct", false, "nulls_not_distinct"),
        ("full_text", false, "index_type"),
        ("index_type", true, "index_type"),
        ("include", true, "include_columns"),
        ("and_where", true, "where"),
        ("cond_where", true, "where"),
    ];
    const CLEARS: &'static [(&'static str, &'static str)] = &[];
    fn fresh() -> Self {
        IndexCreateStatement::new()
    }
    fn render(&self) -> [String; 3] {
        s3(self)
    }
    fn do_take(&mut self) -> Option<Self> {
        Some(self.take())
    }
    fn op(&mut self, code: &str, k: u32) -> bool {
        let s = self;
        let io = |j: u32| if j % 2 == 0 { IndexOrder::Asc } else { IndexOrder::Desc };
        match code {
            "if_not_exists" => {
                s.if_not_exists();
            }
            "name" => {
                s.name(format!("idx{}", k));
            }
            "table" => {
                s.table(tbl(k));
            }
            "col" => {
                s.col(n(k));
            }
            "col_prefix" => {
                s.col((n(k), k + 1));
            }
            "col_order" => {
                s.col((n(k), io(k)));
            }
            "col_prefix_order" => {
                s.col((n(k), k + 1, io(k)));
            }
            "primary" => {
                s.primary();
            }
            "unique" => {
                s.unique();
            }
            "nulls_not_distinct" => {
                s.nulls_not_distinct();
            }
            "full_text" => {
                s.full_text();
            }
            "index_type" => {
                s.index_type(match k % 4 {
                    0 => IndexType::BTree,
                    1 => IndexType::Hash,
                    2 => IndexType::FullText,
                    _ => IndexType::Custom(a("gin")),
                });
            }
            "include" => {
                s.include(n(k));
            }
            "and_where" => {
                s.and_where(ex(k));
            }
            "cond_where" => {
                s.cond_where(cond(k));
            }
            _ => return false,
        }
        true
    }
}

impl Subject for IndexDropStatement {
    const NAME: &'static str = "IndexDropStatement";
    const HAS_TAKE: bool = false;
    const OPS: &'static [(&'static str, bool, &'static str)] =
        &[("name", true, "index"), ("table", true, "table"), ("if_exists", false, "if_exists")];
    const CLEARS: &'static [(&'static str, &'static str)] = &[];
    fn fresh() -> Self {
        IndexDropStatement::new()
    }
    fn render(&self) -> [String; 3] {
        s3(self)
    }
    fn op(&mut self, code: &str, k: u32) -> bool {
        match code {
            "name" => {
                self.name(format!("idx{}", k));
            }
            "table" => {
                self.table(tbl(k));
            }
            "if_exists" => {
                self.if_exists();
            }
            _ => return false,
        }
        true
    }
}

impl Subject for ForeignKeyCreateStatement {
    const NAME: &'static str = "ForeignKeyCreateStatement";
    const HAS_TAKE: bool = true;
    const OPS: &'static [(&'static str, bool, &'static str)] = &[
        ("name", true, "foreign_key"),
        ("from", true, "foreign_key"),
        ("to", true, "foreign_key"),
        ("from_tbl", true, "foreign_key"),
        ("to_tbl", true, "foreign_key"),
        ("from_col", true, "foreign_key"),
        ("to_col", true, "foreign_key"),
        ("on_delete", true, "foreign_key"),
        ("on_update", true, "foreign_key"),
    ];
    const CLEARS: &'static [(&'static str, &'static str)] = &[];
    fn fresh() -> Self {
        ForeignKeyCreateStatement::new()
    }
    fn render(&self) -> [String; 3] {
        let mut t = Table::create();
        t.table(a("t"))
            .col(ColumnDef::new(a("c")).integer())
            .foreign_key(&mut self.clone());
        let (x, y) = (s3(self), s3(&t));
        [
            format!("{} ## {}", x[0], y[0]),
            format!("{} ## {}", x[1], y[1]),
            format!("{} ## {}", x[2], y[2]),
        ]
    }
    fn do_take(&mut self) -> Option<Self> {
        Some(self.take())
    }
    fn op(&mut self, code: &str, k: u32) -> bool {
        let s = self;
        match code {
            "name" => {
                s.name(format!("fk{}", k));
            }
            "from" => {
                s.from(tbl(k), n(k));
            }
            "to" => {
                s.to(tbl(k + 1), (n(k), n(k + 1)));
            }
            "from_tbl" => {
                s.from_tbl(tbl(k));
            }
            "to_tbl" => {
                s.to_tbl(tbl(k + 1));
            }
            "from_col" => {
                s.from_col(n(k));
            }
            "to_col" => {
                s.to_col(n(k + 1));
            }
            "on_delete" => {
                s.on_delete(fk_action(k));
            }
            "on_update" => {
                s.on_update(fk_action(k));
            }
            _ => return false,
        }
        true
    }
}

impl Subject for ForeignKeyDropStatement {
    const NAME: &'static str = "ForeignKeyDropStatement";
    const HAS_TAKE: bool = false;
    const OPS: &'static [(&'static str, bool, &'static str)] = &[("name", true, "foreign_key"), ("table", true, "table")];
    const CLEARS: &'static [(&'static str, &'static str)] = &[];
    fn fresh() -> Self {
        ForeignKeyDropStatement::new()
    }
    fn render(&self) -> [String; 3] {
        s3(self)
    }
    fn op(&mut self, code: &str, k: u32) -> bool {
        match code {
            "name" => {
                self.name(format!("fk{}", k));
            }
            "table" => {
                self.table(tbl(k));
            }
            _ => return false,
        }
        true
    }
}

impl Subject for TableForeignKey {
    const NAME: &'static str = "TableForeignKey";
    const HAS_TAKE: bool = true;
    const OPS: &'static [(&'static str, bool, &'static str)] = &[
        ("name", true, "name"),
        ("from_tbl", true, "table"),
        ("to_tbl", true, "ref_table"),
        ("from_col", true, "columns"),
        ("to_col", true, "ref_columns"),
        ("on_delete", true, "on_delete"),
        ("on_update", true, "on_update"),
    ];
    const CLEARS: &'static [(&'static str, &'static str)] = &[];
    fn fresh() -> Self {
        TableForeignKey::new()
    }
    fn render(&self) -> [String; 3] {
        // rendered where the public API accepts it: ALTER TABLE ... ADD FOREIGN KEY, plus the getters
        let mut al = Table::alter();
        al.table(a("t")).add_foreign_key(self);
        let g = format!(
            "{:?} {:?} {:?} {:?} {:?} {:?}",
            self,
            self.get_ref_table(),
            self.get_columns(),
            self.get_ref_columns(),
            self.get_on_delete(),
            self.get_on_update()
        );
        let x = s3(&al);
        [format!("{} ## {}", x[0], g), format!("{} ## {}", x[1], g), format!("{} ## {}", x[2], g)]
    }
    fn do_take(&mut self) -> Option<Self> {
        Some(self.take())
    }
    fn op(&mut self, code: &str, k: u32) -> bool {
        let s = self;
        match code {
            "name" => {
                s.name(format!("fk{}", k));
            }
            "from_tbl" => {
                s.from_tbl(tbl(k));
            }
            "to_tbl" => {
                s.to_tbl(tbl(k + 1));
            }
            "from_col" => {
                s.from_col(n(k));
            }
            "to_col" => {
                s.to_col(n(k + 1));
            }
            "on_delete" => {
                s.on_delete(fk_action(k));
            }
            "on_update" => {
                s.on_update(fk_action(k));
            }
            _ => return false,
        }
        true
    }
}

impl Subject for TableIndex {
    const NAME: &'static str = "TableIndex";
    const HAS_TAKE: bool = true;
    const OPS: &'static [(&'static str, bool, &'static str)] = &[
        ("name", true, "name"),
        ("col", true, "columns"),
        ("col_prefix_order", true, "columns"),
    ];
    const CLEARS: &'static [(&'static str, &'static str)] = &[];
    fn fresh() -> Self {
        TableIndex::new()
    }
    fn render(&self) -> [String; 3] {
        // TableIndex has no renderer of its own in the public API: observed through its getters and Debug
        let g = format!("{:?} {:?}", self.get_column_names(), self);
        [g.clone(), g.clone(), g]
    }
    fn do_take(&mut self) -> Option<Self> {
        Some(self.take())
    }
    fn op(&mut self, code: &str, k: u32) -> bool {
        match code {
            "name" => {
                self.name(format!("idx{}", k));
            }
            "col" => {
                self.col(n(k).into_index_column());
            }
            "col_prefix_order" => {
                self.col((n(k), k + 1, IndexOrder::Desc).into_index_column());
            }
            _ => return false,
        }
        true
    }
}

// ------------------------------------------------------------------------------------------------
// the interpreter
// ------------------------------------------------------------------------------------------------

fn parse_op(tok: &str) -> (&str, u32) {
    match tok.rfind('.') {
        Some(i) => match tok[i + 1..].parse::<u32>() {
            Ok(k) => (&tok[..i], k),
            Err(_) => (tok, 0),
        },
        None => (tok, 0),
    }
}

fn bit(b: bool) -> char {
    if b {
        '1'
    } else {
        '0'
    }
}
fn obit(b: Option<bool>) -> char {
    match b {
        Some(true) => '1',
        Some(false) => '0',
        None => '-',
    }
}
fn rbits(x: &[String; 3], y: &[String; 3]) -> String {
    (0..3).map(|i| bit(x[i] == y[i])).collect()
}

/// replay a prefix without observing anything; ops filling `skip_clause` are left out.
/// Returns None when a builder call panics.
fn replay_filtered<T: Subject>(ops: &[&str], skip_clause: &str) -> Option<T> {
    let mut cur = T::fresh();
    for tok in ops {
        let (code, k) = parse_op(tok);
        match code {
            "take" => {
                cur.do_take();
            }
            "clone" => {}
            "cswap" => {
                cur = cur.clone();
            }
            _ => {
                if T::CLEARS.iter().any(|(m, _)| *m == code) {
                    cur.do_clear(code);
                    continue;
                }
                let clause = T::OPS.iter().find(|(c, _, _)| *c == code).map(|x| x.2);
                if clause == Some(skip_clause) {
                    continue;
                }
                let r = catch_unwind(AssertUnwindSafe(|| cur.op(code, k)));
                if r.is_err() {
                    return None;
                }
            }
        }
    }
    Some(cur)
}

struct Aside<T> {
    what: String,
    value: T,
    renders: [String; 3],
    debug: String,
}

pub fn run_subject<T: Subject>(ops: &[&str], verbose: bool) -> String {
    let fresh = T::fresh();
    let fresh_r = fresh.render();
    let fresh_d = format!("{:?}", fresh);
    let fresh_f = debug_fields(&fresh_d);
    let names: Vec<String> = fresh_f.iter().map(|x| x.0.clone()).collect();
    let mut cur = T::fresh();
    let mut asides: Vec<Aside<T>> = vec![];
    let mut events: Vec<String> = vec![];
    let mut log = String::new();
    let fval = |fs: &Vec<(String, String)>, i: usize| fs.get(i).map(|x| x.1.clone()).unwrap_or_default();
    for (i, tok) in ops.iter().enumerate() {
        let (code, k) = parse_op(tok);
        if code == "take" {
            let pre = cur.clone();
            let pre_r = pre.render();
            let pre_d = format!("{:?}", pre);
            let taken = match cur.do_take() {
                Some(t) => t,
                None => {
                    events.push(format!("U@{}", i));
                    break;
                }
            };
            let tr = taken.render();
            let td = format!("{:?}", taken);
            let left_r = cur.render();
            let left_d = format!("{:?}", cur);
            let (pf, tf, lf) = (debug_fields(&pre_d), debug_fields(&td), debug_fields(&left_d));
            let mut codes = String::new();
            for j in 0..names.len() {
                let r = fval(&tf, j) == fval(&pf, j);
                let ln = fval(&lf, j) == fval(&fresh_f, j);
                let lo = fval(&lf, j) == fval(&pf, j);
                codes.push(char::from_digit((r as u32) * 4 + (ln as u32) * 2 + (lo as u32), 8).unwrap());
            }
            events.push(format!(
                "T@{}:e{}d{}r{};le{}ld{}lr{};f{}",
                i,
                obit(taken.same(&pre)),
                bit(td == pre_d),
                rbits(&tr, &pre_r),
                obit(cur.same(&fresh)),
                bit(left_d == fresh_d),
                rbits(&left_r, &fresh_r),
                codes
            ));
            if verbose {
                log.push_str(&format!(
                    "[{}] take\n  before : {}\n  taken  : {}\n  left   : {}\n  fresh  : {}\n  render before: {:?}\n  render taken : {:?}\n  render left  : {:?}\n  render fresh : {:?}\n",
                    i, pre_d, td, left_d, fresh_d, pre_r, tr, left_r, fresh_r
                ));
            }
            asides.push(Aside { what: format!("taken@{}", i), value: taken, renders: pre_r, debug: pre_d });
        } else if code == "clone" || code == "cswap" {
            let c = cur.clone();
            let cr = c.render();
            let cd = format!("{:?}", c);
            let sr = cur.render();
            let sd = format!("{:?}", cur);
            // the other half of Clone: clone_from onto a destination that already carries state (the last
            // value set aside, else a builder every operation was applied to once) must leave the destination
            // equal to the source as well; a disagreement shows in the same bits as one of clone()
            let mut dst: T = match asides.last() {
                Some(a) => a.value.clone(),
                None => {
                    let mut d = T::fresh();
                    for (oc, _, _) in T::OPS.iter() {
                        let _ = catch_unwind(AssertUnwindSafe(|| d.op(oc, 1)));
                    }
                    d
                }
            };
            dst.clone_from(&cur);
            let dr = dst.render();
            let dd = format!("{:?}", dst);
            let both = |x: Option<bool>, y: Option<bool>| match (x, y) {
                (Some(a), Some(b)) => Some(a && b),
                _ => None,
            };
            let worse = if dr != sr { &dr } else { &cr };
            events.push(format!(
                "{}@{}:e{}d{}r{}",
                if code == "clone" { "C" } else { "S" },
                i,
                obit(both(c.same(&cur), dst.same(&cur))),
                bit(cd == sd && dd == sd),
                rbits(worse, &sr)
            ));
            if verbose && (dd != sd || dr != sr) {
                log.push_str(&format!("[{}] clone_from onto a used destination\n  source: {}\n  dest  : {}\n", i, sd, dd));
            }
            if verbose {
                log.push_str(&format!("[{}] {}\n  source: {}\n  clone : {}\n", i, code, sd, cd));
            }
            if code == "clone" {
                asides.push(Aside { what: format!("clone@{}", i), value: c, renders: sr, debug: sd });
            } else {
                let old = std::mem::replace(&mut cur, c);
                asides.push(Aside { what: format!("source@{}", i), value: old, renders: sr, debug: sd });
            }
        } else if let Some((m, clause)) = T::CLEARS.iter().find(|(m, _)| *m == code) {
            let before_d = format!("{:?}", cur);
            cur.do_clear(m);
            let after_d = format!("{:?}", cur);
            let after_r = cur.render();
            let expected: Option<T> = replay_filtered::<T>(&ops[..i], clause);
            let (bf, af) = (debug_fields(&before_d), debug_fields(&after_d));
            let mut codes = String::new();
            for j in 0..names.len() {
                let kept = fval(&af, j) == fval(&bf, j);
                let isnew = fval(&af, j) == fval(&fresh_f, j);
                codes.push(char::from_digit((kept as u32) * 2 + (isnew as u32), 4).unwrap());
            }
            match expected {
                Some(e) => {
                    let er = e.render();
                    let ed = format!("{:?}", e);
                    events.push(format!(
                        "X@{}:{}:e{}d{}r{};f{}",
                        i,
                        m,
                        obit(cur.same(&e)),
                        bit(after_d == ed),
                        rbits(&after_r, &er),
                        codes
                    ));
                    if verbose {
                        log.push_str(&format!(
                            "[{}] {}\n  before  : {}\n  after   : {}\n  expected: {}   (the same history without the calls that fill `{}`)\n  render after   : {:?}\n  render expected: {:?}\n",
                            i, m, before_d, after_d, ed, clause, after_r, er
                        ));
                    }
                }
                None => events.push(format!("X@{}:{}:skipped;f{}", i, m, codes)),
            }
        } else {
            let r = catch_unwind(AssertUnwindSafe(|| cur.op(code, k)));
            match r {
                Ok(true) => {
                    if verbose {
                        log.push_str(&format!("[{}] {}\n", i, tok));
                    }
                }
                Ok(false) => {
                    events.push(format!("U@{}", i));
                    break;
                }
                Err(_) => {
                    // a builder call that panics by contract (e.g. mixing and_where and cond_where)
                    events.push(format!("P@{}", i));
                    if verbose {
                        log.push_str(&format!("[{}] {} PANICKED; history ends here\n", i, tok));
                    }
                    break;
                }
            }
        }
    }
    // end of history: everything kept aside must still look as it did when it was set aside
    let mut end = String::new();
    for x in &asides {
        let r = x.value.render();
        let d = format!("{:?}", x.value);
        end.push(bit(r == x.renders && d == x.debug));
        if verbose {
            log.push_str(&format!(
                "[end] {}\n  recorded: {}\n  now     : {}\n  recorded render: {:?}\n  now render     : {:?}\n",
                x.what, x.debug, d, x.renders, r
            ));
        }
    }
    let fin = cur.render();
    if verbose {
        log.push_str(&format!("[end] current: {:?}\n  render: {:?}\n", cur, fin));
    }
    let mut line = format!(
        "{} F={} | {} | E:{} H={:016x}",
        T::NAME,
        names.join(","),
        if events.is_empty() { "-".to_string() } else { events.join(" ") },
        if end.is_empty() { "-".to_string() } else { end },
        hash_strs(&fin)
    );
    if verbose {
        line.push_str(" ## ");
        line.push_str(&hexs(&log));
    }
    line
}

macro_rules! for_all_subjects {
    ($m:ident, $($arg:tt)*) => {
        $m!(SelectStatement, $($arg)*);
        $m!(InsertStatement, $($arg)*);
        $m!(UpdateStatement, $($arg)*);
        $m!(DeleteStatement, $($arg)*);
        $m!(WindowStatement, $($arg)*);
        $m!(ColumnDef, $($arg)*);
        $m!(TableCreateStatement, $($arg)*);
        $m!(TableAlterStatement, $($arg)*);
        $m!(TableDropStatement, $($arg)*);
        $m!(TableRenameStatement, $($arg)*);
        $m!(TableTruncateStatement, $($arg)*);
        $m!(IndexCreateStatement, $($arg)*);
        $m!(IndexDropStatement, $($arg)*);
        $m!(ForeignKeyCreateStatement, $($arg)*);
        $m!(ForeignKeyDropStatement, $($arg)*);
        $m!(TableForeignKey, $($arg)*);
        $m!(TableIndex, $($arg)*);
    };
}

/// tk <Type> ops...   |   tkv <Type> ops...
pub fn run(t: &[&str]) -> String {
    let verbose = t[0] == "tkv";
    let ty = t[1];
    let ops = &t[2..];
    macro_rules! go {
        ($T:ty, $ty:ident, $ops:ident, $v:ident) => {
            if $ty == <$T as Subject>::NAME {
                return run_subject::<$T>($ops, $v);
            }
        };
    }
    for_all_subjects!(go, ty, ops, verbose);
    format!("UNKNOWN-TYPE {}", ty)
}

/// tktypes: one description per statement type, separated by ` ; `
pub fn types() -> String {
    let mut out: Vec<String> = vec![];
    macro_rules! describe {
        ($T:ty, $out:ident) => {{
            // every op of the table must be understood by `op`
            let mut bad: Vec<&str> = vec![];
            for (code, _, _) in <$T as Subject>::OPS {
                let mut x = <$T as Subject>::fresh();
                let r = catch_unwind(AssertUnwindSafe(|| x.op(code, 1)));
                if let Ok(false) = r {
                    bad.push(code);
                }
            }
            let d = format!("{:?}", <$T as Subject>::fresh());
            $out.push(format!(
                "{} take={} eq={} fields={} ops={} clears={} bad={}",
                <$T as Subject>::NAME,
                <$T as Subject>::HAS_TAKE as u8,
                <$T as Subject>::fresh().same(&<$T as Subject>::fresh()).is_some() as u8,
                debug_fields(&d).iter().map(|x| x.0.clone()).collect::<Vec<_>>().join(","),
                <$T as Subject>::OPS
                    .iter()
                    .map(|(c, p, cl)| format!("{}{}>{}", c, if *p { ".k" } else { "" }, cl))
                    .collect::<Vec<_>>()
                    .join(","),
                if <$T as Subject>::CLEARS.is_empty() {
                    "-".to_string()
                } else {
                    <$T as Subject>::CLEARS
                        .iter()
                        .map(|(m, c)| format!("{}>{}", m, c))
                        .collect::<Vec<_>>()
                        .join(",")
                },
                if bad.is_empty() { "-".to_string() } else { bad.join(",") }
            ));
        }};
    }
    for_all_subjects!(describe, out);
    out.join(" ; ")
}
