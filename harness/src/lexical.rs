//! C16 / C17: tokenizer and escape_string / unescape_string.
use crate::util::*;
use sea_query::{Token, Tokenizer};
use std::io::Write;

pub fn tok_line(s: &str) -> String {
    let toks: Vec<Token> = Tokenizer::new(s).iter().collect();
    let mut o = String::new();
    for t in &toks {
        let (k, txt) = match t {
            Token::Quoted(x) => ('Q', x),
            Token::Unquoted(x) => ('U', x),
            Token::Space(x) => ('S', x),
            Token::Punctuation(x) => ('P', x),
        };
        o.push(k);
        o.push_str(&hexs(txt));
        if let Some(u) = t.unquote() {
            o.push('/');
            o.push_str(&hexs(&u));
        }
        o.push(' ');
    }
    o.push('.');
    o
}

pub fn esc_line(b: B, s: &str) -> String {
    let e = b.esc().escape_string(s);
    let u = b.esc().unescape_string(&e);
    let u0 = b.esc().unescape_string(s);
    format!("{} {} {}", hexs(&e), hexs(&u), hexs(&u0))
}

pub fn run(t: &[&str]) -> String {
    match t[0] {
        "esc" => esc_line(backend(t[1]), &unhexs(t[2])),
        "tok" => tok_line(&unhexs(t[1])),
        _ => unreachable!(),
    }
}

/// In-process exhaustive enumeration with the property's own oracle applied to the
/// implementation: `--enum esc|tok <maxlen> <cp,cp,...>`; prints a summary line
/// `ENUM <n> ok` or `FAIL <op> <hex input>` lines (first 20).
pub fn enum_cmd(args: &[String], out: &mut impl Write) {
    let op = args[0].as_str();
    let maxlen: usize = args[1].parse().unwrap();
    let alpha: Vec<char> = args[2]
        .split(',')
        .map(|x| char::from_u32(u32::from_str_radix(x, 16).unwrap()).unwrap())
        .collect();
    let mut n: u64 = 0;
    let mut fails = 0;
    let mut idx = vec![0usize; 0];
    loop {
        let s: String = idx.iter().map(|&i| alpha[i]).collect();
        n += 1;
        let ok = match op {
            "esc" => BACKENDS.iter().all(|b| {
                std::panic::catch_unwind(|| b.esc().unescape_string(&b.esc().escape_string(&s)) == s)
                    .unwrap_or(false)
            }),
            "tok" => std::panic::catch_unwind(|| {
                let toks: Vec<Token> = Tokenizer::new(&s).iter().collect();
                let cat: String = toks.iter().map(|t| t.as_str()).collect();
                cat == s && toks.iter().all(|t| !t.as_str().is_empty())
            })
            .unwrap_or(false),
            _ => panic!("enum op"),
        };
        if !ok {
            fails += 1;
            if fails <= 20 {
                writeln!(out, "FAIL {} {}", op, hexs(&s)).unwrap();
            }
        }
        // next index vector (shortlex)
        let mut i = idx.len();
        loop {
            if i == 0 {
                idx = vec![0; idx.len() + 1];
                break;
            }
            i -= 1;
            if idx[i] + 1 < alpha.len() {
                idx[i] += 1;
                for j in i + 1..idx.len() {
                    idx[j] = 0;
                }
                break;
            }
        }
        if idx.len() > maxlen {
            break;
        }
    }
    writeln!(out, "ENUM {} fails={}", n, fails).unwrap();
}
