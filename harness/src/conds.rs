//! Condition programs: (cond any|all op...) with ops (add X) (addopt X) (addnone) (not)
use crate::exprs;
use crate::sexp::S;
use sea_query::*;

pub fn cond(s: &S) -> Condition {
    assert!(s.head() == "cond");
    let l = s.args();
    // Cond::any() / Cond::all(), or the any![..] / all![..] macros with the first 0, 1 or 2 added members written
    // inside the macro call (the group must keep its own type and stay open for later additions), for part of the cases
    let mac = exprs::shash(s) % 2 == 1;
    let is_any = match l[0].atom() {
        "any" => true,
        "all" => false,
        _ => panic!("cond type"),
    };
    let leading = l[1..].iter().take_while(|op| op.head() == "add").count();
    let inside = if mac { std::cmp::min(leading, (exprs::shash(s) >> 5) as usize % 3) } else { 0 };
    macro_rules! group {
        ($($m:expr),*) => { if is_any { sea_query::any![$($m),*] } else { sea_query::all![$($m),*] } };
    }
    let arg = |i: usize| &l[1 + i].args()[0];
    let mut c = if !mac {
        if is_any { Condition::any() } else { Condition::all() }
    } else {
        match inside {
            0 => group!(),
            1 => if arg(0).head() == "cond" { group!(cond(arg(0))) } else { group!(exprs::expr(arg(0))) },
            _ => match (arg(0).head() == "cond", arg(1).head() == "cond") {
                (true, true) => group!(cond(arg(0)), cond(arg(1))),
                (true, false) => group!(cond(arg(0)), exprs::expr(arg(1))),
                (false, true) => group!(exprs::expr(arg(0)), cond(arg(1))),
                (false, false) => group!(exprs::expr(arg(0)), exprs::expr(arg(1))),
            },
        }
    };
    for op in &l[1 + inside..] {
        match op.head() {
            "add" => c = add(c, &op.args()[0]),
            "addopt" => {
                let x = &op.args()[0];
                c = if x.head() == "cond" {
                    c.add_option(Some(cond(x)))
                } else {
                    c.add_option(Some(exprs::expr(x)))
                };
            }
            "addnone" => c = c.add_option(None::<SimpleExpr>),
            "not" => c = c.not(),
            _ => panic!("cond op"),
        }
    }
    c
}
fn add(c: Condition, x: &S) -> Condition {
    if x.head() == "cond" {
        c.add(cond(x))
    } else {
        c.add(exprs::expr(x))
    }
}
/// anything accepted by cond_where / case(): a condition program or a plain expression
pub fn cond_or_expr(s: &S) -> Condition {
    if s.head() == "cond" {
        cond(s)
    } else {
        exprs::expr(s).into_condition()
    }
}
