//! Condition programs: (cond any|all op...) with ops (add X) (addopt X) (addnone) (not)
use crate::exprs;
use crate::sexp::S;
use sea_query::*;

pub fn cond(s: &S) -> Condition {
    assert!(s.head() == "cond");
    let l = s.args();
    // Cond::any() / Cond::all() or the any![] / all![] macros with no member, for part of the cases
    let mac = exprs::shash(s) % 2 == 1;
    let mut c = match (l[0].atom(), mac) {
        ("any", false) => Condition::any(),
        ("all", false) => Condition::all(),
        ("any", true) => sea_query::any![],
        ("all", true) => sea_query::all![],
        _ => panic!("cond type"),
    };
    for op in &l[1..] {
        match op.head() {
            "add" => c = add(c, &op.args()[0]),
            "addopt" => {
                let x = &op.args()[0];
                c = if x.head() == "cond" {
                    c.add_option(Some(cond(x)))
                } else {
                    c.add_option(Some(exprs::expr(x)))
                };
            }
            "addnone" => c = c.add_option(None::<SimpleExpr>),
            "not" => c = c.not(),
            _ => panic!("cond op"),
        }
    }
    c
}
fn add(c: Condition, x: &S) -> Condition {
    if x.head() == "cond" {
        c.add(cond(x))
    } else {
        c.add(exprs::expr(x))
    }
}
/// anything accepted by cond_where / case(): a condition program or a plain expression
pub fn cond_or_expr(s: &S) -> Condition {
    if s.head() == "cond" {
        cond(s)
    } else {
        exprs::expr(s).into_condition()
    }
}
