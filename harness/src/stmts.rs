//! Statement builder programs: (select clause...), (insert ...), (update ...), (delete ...),
//! (withq withclause query). Every clause is one public builder call, applied in order.
use crate::conds;
use crate::exprs::{self, a, expr, value};
use crate::sexp::S;
use crate::util::*;
use sea_query::extension::mysql::*;
use sea_query::extension::postgres::*;
use sea_query::*;

thread_local! {
    static PROBE: std::cell::Cell<u8> = std::cell::Cell::new(0);
}
/// Between two builder calls, part of the cases (PROBE set by `run`, choice salted with the case line) render the
/// unfinished statement and throw the result away, or go on with a clone of the builder.  Rendering must not
/// modify a statement and a clone is an independent equal value, so neither may show in the finished statement:
/// the model knows nothing of it (round 9: a memoised condition that later additions did not invalidate).
fn probe<T: QueryStatementWriter + Clone>(q: &mut T, c: &S) {
    let mode = PROBE.with(|p| p.get());
    if mode == 0 {
        return;
    }
    let h = exprs::shash(c) >> 11;
    match h % 5 {
        0 | 1 => {
            let inline = h % 5 == 0;
            let qr: &T = q;
            let _ = std::panic::catch_unwind(std::panic::AssertUnwindSafe(|| match (mode, inline) {
                (1, true) => { qr.to_string(MysqlQueryBuilder); }
                (1, false) => { qr.build(MysqlQueryBuilder); }
                (2, true) => { qr.to_string(PostgresQueryBuilder); }
                (2, false) => { qr.build(PostgresQueryBuilder); }
                (_, true) => { qr.to_string(SqliteQueryBuilder); }
                (_, false) => { qr.build(SqliteQueryBuilder); }
            }));
        }
        2 => {
            let c2 = q.clone();
            *q = c2;
        }
        _ => {}
    }
}

pub fn reset_probe() {
    PROBE.with(|p| p.set(0));
}

fn hx(s: &S) -> String {
    unhexs(s.atom())
}
fn id(s: &S) -> Alias {
    a(&hx(s))
}

/// a row of values as the ValueTuple variant of its arity (One / Two / Three) for part of the cases, Many otherwise
fn value_tuple(r: &S) -> ValueTuple {
    let mut vs: Vec<Value> = r.args().iter().map(value).collect();
    if exprs::shash(r) % 3 == 0 {
        return ValueTuple::Many(vs);
    }
    match vs.len() {
        1 => ValueTuple::One(vs.remove(0)),
        2 => {
            let b = vs.remove(1);
            ValueTuple::Two(vs.remove(0), b)
        }
        3 => {
            let c = vs.remove(2);
            let b = vs.remove(1);
            ValueTuple::Three(vs.remove(0), b, c)
        }
        _ => ValueTuple::Many(vs),
    }
}

pub fn tref(s: &S) -> TableRef {
    let l = s.args();
    match s.head() {
        "t" => match l.len() {
            1 => TableRef::Table(id(&l[0]).into_iden()),
            2 => TableRef::SchemaTable(id(&l[0]).into_iden(), id(&l[1]).into_iden()),
            3 => TableRef::DatabaseSchemaTable(id(&l[0]).into_iden(), id(&l[1]).into_iden(), id(&l[2]).into_iden()),
            _ => panic!("t arity"),
        },
        "ta" => {
            // (ta alias parts...)
            let al = id(&l[0]).into_iden();
            match l.len() {
                2 => TableRef::TableAlias(id(&l[1]).into_iden(), al),
                3 => TableRef::SchemaTableAlias(id(&l[1]).into_iden(), id(&l[2]).into_iden(), al),
                4 => TableRef::DatabaseSchemaTableAlias(
                    id(&l[1]).into_iden(),
                    id(&l[2]).into_iden(),
                    id(&l[3]).into_iden(),
                    al,
                ),
                _ => panic!("ta arity"),
            }
        }
        "tsub" => TableRef::SubQuery(select(&l[0]), id(&l[1]).into_iden()),
        "tvalues" => {
            // (tvalues alias (row v...)...)
            let rows: Vec<ValueTuple> = l[1..]
                .iter()
                .map(value_tuple)
                .collect();
            TableRef::ValuesList(rows, id(&l[0]).into_iden())
        }
        "tfn" => {
            // (tfn <func name> alias args...): a function call as a table
            let name = l[0].atom();
            let args: Vec<SimpleExpr> = l[2..].iter().map(expr).collect();
            TableRef::FunctionCall(exprs::func_call(name, args), id(&l[1]).into_iden())
        }
        _ => panic!("tref {}", s.head()),
    }
}

fn order(s: &S) -> Order {
    match s {
        S::A(x) if x == "asc" => Order::Asc,
        S::A(x) if x == "desc" => Order::Desc,
        _ => {
            assert!(s.head() == "field");
            Order::Field(Values(s.args().iter().map(value).collect()))
        }
    }
}
fn nulls(s: &S) -> NullOrdering {
    match s.atom() {
        "first" => NullOrdering::First,
        "last" => NullOrdering::Last,
        _ => panic!("nulls"),
    }
}

fn frame(s: &S) -> Frame {
    match s {
        S::A(x) => match x.as_str() {
            "up" => Frame::UnboundedPreceding,
            "cur" => Frame::CurrentRow,
            "uf" => Frame::UnboundedFollowing,
            _ => panic!("frame"),
        },
        S::L(_) => match s.head() {
            "pre" => Frame::Preceding(s.args()[0].atom().parse().unwrap()),
            "fol" => Frame::Following(s.args()[0].atom().parse().unwrap()),
            _ => panic!("frame"),
        },
    }
}

pub fn window(s: &S) -> WindowStatement {
    // (window clause...) with (partition e) (orderby e ord [nulls]) (frame rows|range start [end])
    assert!(s.head() == "window");
    let mut w = WindowStatement::new();
    let mut first = true;
    for c in s.args() {
        let l = c.args();
        match c.head() {
            "partition" => {
                // the first PARTITION BY item also through the constructors WindowStatement::partition_by(col) /
                // partition_by_custom(text), when it is a plain column / raw text and comes first
                let e = expr(&l[0]);
                match (&e, first && exprs::shash(c) % 2 == 1) {
                    (SimpleExpr::Custom(t), true) => w = WindowStatement::partition_by_custom(t.clone()),
                    (SimpleExpr::Column(cr), true) => w = WindowStatement::partition_by(cr.clone()),
                    _ => {
                        w.add_partition_by(e);
                    }
                }
            }
            "orderby" => {
                if l.len() > 2 {
                    w.order_by_expr_with_nulls(expr(&l[0]), order(&l[1]), nulls(&l[2]));
                } else {
                    w.order_by_expr(expr(&l[0]), order(&l[1]));
                }
            }
            "frame" => {
                let ft = match l[0].atom() {
                    "rows" => FrameType::Rows,
                    "range" => FrameType::Range,
                    _ => panic!("frametype"),
                };
                // frame_start / frame_between, or the general frame() for part of the cases
                let general = exprs::shash(c) % 4 == 0;
                if l.len() > 2 {
                    if general {
                        w.frame(ft, frame(&l[1]), Some(frame(&l[2])));
                    } else {
                        w.frame_between(ft, frame(&l[1]), frame(&l[2]));
                    }
                } else if general {
                    w.frame(ft, frame(&l[1]), None);
                } else {
                    w.frame_start(ft, frame(&l[1]));
                }
            }
            _ => panic!("window clause"),
        }
        first = false;
    }
    if exprs::shash(s) % 3 == 0 {
        return w.take();
    }
    w
}

fn jointype(s: &S) -> JoinType {
    match s.atom() {
        "join" => JoinType::Join,
        "cross" => JoinType::CrossJoin,
        "inner" => JoinType::InnerJoin,
        "left" => JoinType::LeftJoin,
        "right" => JoinType::RightJoin,
        "full" => JoinType::FullOuterJoin,
        _ => panic!("jointype"),
    }
}

pub fn withclause(s: &S) -> WithClause {
    // (with clause...) : (recursive) (cte name (cols c...) query [mat|notmat]) (search breadth|depth e alias) (cycle e set using)
    assert!(s.head() == "with");
    let mut w = WithClause::new();
    for c in s.args() {
        let l = c.args();
        match c.head() {
            "recursive" => {
                w.recursive(true);
            }
            "cte" => {
                let mut cte = CommonTableExpression::new();
                cte.table_name(id(&l[0]));
                if exprs::shash(c) % 2 == 0 {
                    for col in l[1].args() {
                        cte.column(id(col));
                    }
                } else {
                    cte.columns(l[1].args().iter().map(id).collect::<Vec<_>>());
                }
                match subquery(&l[2]) {
                    SubQueryStatement::SelectStatement(x) => cte.query(x),
                    SubQueryStatement::InsertStatement(x) => cte.query(x),
                    SubQueryStatement::UpdateStatement(x) => cte.query(x),
                    SubQueryStatement::DeleteStatement(x) => cte.query(x),
                    SubQueryStatement::WithStatement(_) => panic!("with query inside cte"),
                };
                if l.len() > 3 {
                    cte.materialized(l[3].atom() == "mat");
                }
                w.cte(cte);
            }
            "ctefs" => {
                let mut cte = CommonTableExpression::from_select(select(&l[0]));
                if l.len() > 1 {
                    cte.materialized(l[1].atom() == "mat");
                }
                w.cte(cte);
            }
            "search" => {
                let ord = if l[0].atom() == "breadth" { SearchOrder::BREADTH } else { SearchOrder::DEPTH };
                let se = SelectExpr { expr: expr(&l[1]), alias: Some(id(&l[2]).into_iden()), window: None };
                if exprs::shash(c) % 2 == 0 {
                    w.search(Search::new_from_order_and_expr(ord, se));
                } else {
                    w.search(Search::new().order(ord).expr(se).to_owned());
                }
            }
            "cycle" => {
                if exprs::shash(c) % 2 == 0 {
                    w.cycle(Cycle::new_from_expr_set_using(expr(&l[0]), id(&l[1]), id(&l[2])));
                } else {
                    w.cycle(Cycle::new().expr(expr(&l[0])).set(id(&l[1])).using(id(&l[2])).to_owned());
                }
            }
            _ => panic!("with clause"),
        }
    }
    w
}

pub fn select(s: &S) -> SelectStatement {
    assert!(s.head() == "select", "expected select, got {}", s.head());
    let mut q = Query::select();
    for c in s.args() {
        let l = c.args();
        match c.head() {
            "distinct" => match l[0].atom() {
                "distinct" => {
                    q.distinct();
                }
                _ => panic!("distinct kind"),
            },
            "distincton" => {
                q.distinct_on(l.iter().map(exprs::colref).collect::<Vec<ColumnRef>>());
            }
            // where a convenience method is documented to do the same as the canonical call, part of the cases go
            // through it (hash of the clause text): the model is indifferent
            "col" => {
                if exprs::shash(c) % 2 == 0 {
                    q.column(exprs::colref(&l[0]));
                } else {
                    q.columns([exprs::colref(&l[0])]);
                }
            }
            "expr" => {
                if exprs::shash(c) % 2 == 0 {
                    q.expr(expr(&l[0]));
                } else {
                    q.exprs([expr(&l[0])]);
                }
            }
            "expras" => {
                q.expr_as(expr(&l[0]), id(&l[1]));
            }
            "exprwin" => {
                q.expr_window(expr(&l[0]), window(&l[1]));
            }
            "exprwinas" => {
                q.expr_window_as(expr(&l[0]), window(&l[1]), id(&l[2]));
            }
            "exprwinname" => {
                q.expr_window_name(expr(&l[0]), id(&l[1]));
            }
            "exprwinnameas" => {
                q.expr_window_name_as(expr(&l[0]), id(&l[1]), id(&l[2]));
            }
            "from" => {
                let t = &l[0];
                let alt = exprs::shash(c) % 2 == 1;
                match t.head() {
                    "tsub" if alt => {
                        q.from_subquery(select(&t.args()[0]), id(&t.args()[1]));
                    }
                    "tvalues" if alt => {
                        let rows: Vec<ValueTuple> = t.args()[1..]
                            .iter()
                            .map(value_tuple)
                            .collect();
                        q.from_values(rows, id(&t.args()[0]));
                    }
                    "tfn" if alt => {
                        let args: Vec<SimpleExpr> = t.args()[2..].iter().map(expr).collect();
                        q.from_function(exprs::func_call(t.args()[0].atom(), args), id(&t.args()[1]));
                    }
                    "ta" if alt => {
                        // from_as(table without alias, alias)
                        let mut parts = vec![S::A("t".to_string())];
                        parts.extend(t.args()[1..].iter().cloned());
                        q.from_as(tref(&S::L(parts)), id(&t.args()[0]));
                    }
                    _ => {
                        q.from(tref(t));
                    }
                }
            }
            "join" => {
                let jt = jointype(&l[0]);
                let t = &l[1];
                let on = conds::cond_or_expr(&l[2]);
                match (exprs::shash(c) % 3, t.head()) {
                    (1, "tsub") => {
                        q.join_subquery(jt, select(&t.args()[0]), id(&t.args()[1]), on);
                    }
                    (1, "ta") => {
                        let mut parts = vec![S::A("t".to_string())];
                        parts.extend(t.args()[1..].iter().cloned());
                        q.join_as(jt, tref(&S::L(parts)), id(&t.args()[0]), on);
                    }
                    (2, _) => {
                        // the shortcut named after the join type
                        match l[0].atom() {
                            "cross" => q.cross_join(tref(t), on),
                            "left" => q.left_join(tref(t), on),
                            "right" => q.right_join(tref(t), on),
                            "inner" => q.inner_join(tref(t), on),
                            "full" => q.full_outer_join(tref(t), on),
                            _ => q.join(jt, tref(t), on),
                        };
                    }
                    _ => {
                        q.join(jt, tref(t), on);
                    }
                }
            }
            "joinlateral" => {
                q.join_lateral(jointype(&l[0]), select(&l[1]), id(&l[2]), conds::cond_or_expr(&l[3]));
            }
            "andwhere" => {
                // also through the closure-taking helpers of SelectStatement: conditions (both branches; the branch
                // not taken must leave no trace), apply_if (Some: applied; None: not), apply
                match exprs::shash(c) % 6 {
                    0 => {
                        q.and_where(expr(&l[0]));
                    }
                    1 => {
                        q.and_where_option(Some(expr(&l[0])));
                    }
                    2 => {
                        let e = expr(&l[0]);
                        q.conditions(true, |x| { x.and_where(e); }, |x| { x.and_where(Expr::val(0).into()); });
                    }
                    3 => {
                        let e = expr(&l[0]);
                        q.conditions(false, |x| { x.and_where(Expr::val(0).into()); x.limit(0); }, |x| { x.and_where(e); });
                    }
                    4 => {
                        q.apply_if(Some(expr(&l[0])), |x, e| { x.and_where(e); });
                        q.apply_if(None::<SimpleExpr>, |x, e| { x.and_where(e); x.limit(0); });
                    }
                    _ => {
                        let e = expr(&l[0]);
                        q.apply(|x| { x.and_where(e); });
                    }
                }
            }
            "condwhere" => {
                q.cond_where(conds::cond(&l[0]));
            }
            "andorwhere" => {
                // the doc-hidden and_or_where(LogicalChainOper)
                let e = expr(&l[1]);
                q.and_or_where(if l[0].atom() == "or" { LogicalChainOper::Or(e) } else { LogicalChainOper::And(e) });
            }
            "groupby" => {
                let is_col = matches!(l[0].head(), "col" | "star" | "tstar");
                match (exprs::shash(c) % 3, is_col) {
                    (1, true) => {
                        q.group_by_col(exprs::colref(&l[0]));
                    }
                    (2, true) => {
                        q.group_by_columns([exprs::colref(&l[0])]);
                    }
                    _ => {
                        q.add_group_by([expr(&l[0])]);
                    }
                }
            }
            "andhaving" => {
                q.and_having(expr(&l[0]));
            }
            "condhaving" => {
                q.cond_having(conds::cond(&l[0]));
            }
            "union" => {
                let ut = match l[0].atom() {
                    "intersect" => UnionType::Intersect,
                    "distinct" => UnionType::Distinct,
                    "except" => UnionType::Except,
                    "all" => UnionType::All,
                    _ => panic!("union type"),
                };
                if exprs::shash(c) % 2 == 0 {
                    q.union(ut, select(&l[1]));
                } else {
                    q.unions([(ut, select(&l[1]))]);
                }
            }
            "orderby" => {
                let is_col = matches!(l[0].head(), "col" | "star" | "tstar");
                let alt = exprs::shash(c) % 2 == 1 && is_col;
                if l.len() > 2 {
                    if alt {
                        q.order_by_with_nulls(exprs::colref(&l[0]), order(&l[1]), nulls(&l[2]));
                    } else {
                        q.order_by_expr_with_nulls(expr(&l[0]), order(&l[1]), nulls(&l[2]));
                    }
                } else if alt {
                    q.order_by(exprs::colref(&l[0]), order(&l[1]));
                } else {
                    q.order_by_expr(expr(&l[0]), order(&l[1]));
                }
            }
            "limit" => {
                q.limit(l[0].atom().parse().unwrap());
            }
            "offset" => {
                q.offset(l[0].atom().parse().unwrap());
            }
            "lock" => {
                // (lock type (tables tref...) [nowait|skip])
                let lt = match l[0].atom() {
                    "update" => LockType::Update,
                    "nokeyupdate" => LockType::NoKeyUpdate,
                    "share" => LockType::Share,
                    "keyshare" => LockType::KeyShare,
                    _ => panic!("locktype"),
                };
                let tables: Vec<TableRef> = l[1].args().iter().map(tref).collect();
                let beh = if l.len() > 2 {
                    Some(match l[2].atom() {
                        "nowait" => LockBehavior::Nowait,
                        "skip" => LockBehavior::SkipLocked,
                        _ => panic!("lock behavior"),
                    })
                } else {
                    None
                };
                match (tables.is_empty(), beh) {
                    (true, None) if exprs::shash(c) % 2 == 1 && l[0].atom() == "update" => q.lock_exclusive(),
                    (true, None) if exprs::shash(c) % 2 == 1 && l[0].atom() == "share" => q.lock_shared(),
                    (true, None) => q.lock(lt),
                    (false, None) => q.lock_with_tables(lt, tables),
                    (true, Some(b)) => q.lock_with_behavior(lt, b),
                    (false, Some(b)) => q.lock_with_tables_behavior(lt, tables, b),
                };
            }
            "window" => {
                q.window(id(&l[0]), window(&l[1]));
            }
            "with" => {
                // attach a WITH clause to the select itself (SelectStatement::with_cte)
                q.with_cte(withclause(c));
            }
            "sample" => {
                let m = if l[0].atom() == "bernoulli" { SampleMethod::BERNOULLI } else { SampleMethod::SYSTEM };
                let pct = f64::from_bits(u64::from_str_radix(l[1].atom(), 16).unwrap());
                let rep = if l.len() > 2 {
                    Some(f64::from_bits(u64::from_str_radix(l[2].atom(), 16).unwrap()))
                } else {
                    None
                };
                q.table_sample(m, pct, rep);
            }
            "hint" => {
                let scope = match l[1].atom() {
                    "join" => IndexHintScope::Join,
                    "orderby" => IndexHintScope::OrderBy,
                    "groupby" => IndexHintScope::GroupBy,
                    "all" => IndexHintScope::All,
                    _ => panic!("scope"),
                };
                match l[0].atom() {
                    "use" => q.use_index(id(&l[2]), scope),
                    "ignore" => q.ignore_index(id(&l[2]), scope),
                    "force" => q.force_index(id(&l[2]), scope),
                    _ => panic!("hint"),
                };
            }
            other => panic!("select clause {}", other),
        }
        probe(&mut q, c);
    }
    // the builder is handed over by take() for part of the cases (what callers do at the end of a chain)
    if exprs::shash(s) % 3 == 0 {
        return q.take();
    }
    q
}

fn returning(s: &S) -> ReturningClause {
    // (returning all) | (returning cols colref...) | (returning exprs e...)
    let l = s.args();
    match l[0].atom() {
        "all" => Query::returning().all(),
        // one column / one expression: through the singular constructor for part of the cases
        "cols" if l.len() == 2 && exprs::shash(s) % 2 == 1 => Query::returning().column(exprs::colref(&l[1])),
        "exprs" if l.len() == 2 && exprs::shash(s) % 2 == 1 => Query::returning().expr(expr(&l[1])),
        "cols" => Query::returning().columns(l[1..].iter().map(exprs::colref).collect::<Vec<_>>()),
        "exprs" => Query::returning().exprs(l[1..].iter().map(expr).collect::<Vec<_>>()),
        _ => panic!("returning"),
    }
}

fn onconflict(s: &S) -> OnConflict {
    // (onconflict clause...) : (col c) (texpr e) (twhere e) (nothing) (nothingon c...) (updcol c) (updexpr c e) (awhere e)
    let mut oc = OnConflict::new();
    for c in s.args() {
        let l = c.args();
        match c.head() {
            "col" => {
                oc = OnConflict::column(id(&l[0]));
            }
            "cols" => {
                oc = OnConflict::columns(l.iter().map(id).collect::<Vec<_>>());
            }
            "texpr" => {
                if exprs::shash(c) % 2 == 0 {
                    oc.expr(expr(&l[0]));
                } else {
                    oc.exprs([expr(&l[0])]);
                }
            }
            "twhere" => {
                match exprs::shash(c) % 3 {
                    0 => oc.target_and_where(expr(&l[0])),
                    1 => oc.target_and_where_option(Some(expr(&l[0]))),
                    _ => oc.target_cond_where(expr(&l[0])),
                };
            }
            "nothing" => {
                oc.do_nothing();
            }
            "nothingon" => {
                oc.do_nothing_on(l.iter().map(id).collect::<Vec<_>>());
            }
            "updcol" => {
                if exprs::shash(c) % 2 == 0 {
                    oc.update_column(id(&l[0]));
                } else {
                    oc.update_columns([id(&l[0])]);
                }
            }
            "updexpr" => {
                if exprs::shash(c) % 2 == 0 {
                    oc.value(id(&l[0]), expr(&l[1]));
                } else {
                    oc.values([(id(&l[0]), expr(&l[1]))]);
                }
            }
            "awhere" => {
                match exprs::shash(c) % 3 {
                    0 => oc.action_and_where(expr(&l[0])),
                    1 => oc.action_and_where_option(Some(expr(&l[0]))),
                    _ => oc.action_cond_where(expr(&l[0])),
                };
            }
            _ => panic!("onconflict clause"),
        }
    }
    oc
}

/// the observations of fallible calls are appended to `log`
pub fn insert(s: &S, log: &mut Vec<String>) -> InsertStatement {
    assert!(s.head() == "insert");
    let mut q = Query::insert();
    for c in s.args() {
        let l = c.args();
        match c.head() {
            "replace" => {
                q.replace();
            }
            "into" => {
                q.into_table(tref(&l[0]));
            }
            "columns" => {
                q.columns(l.iter().map(id).collect::<Vec<_>>());
            }
            "values" => {
                let before = q.clone();
                match q.values(l.iter().map(expr).collect::<Vec<_>>()) {
                    Ok(_) => log.push("ok".into()),
                    Err(sea_query::error::Error::ColValNumMismatch { col_len, val_len }) => {
                        log.push(format!("err({},{}){}", col_len, val_len, if q == before { "" } else { "!changed" }))
                    }
                    #[allow(unreachable_patterns)]
                    Err(_) => log.push("err(?)".into()),
                }
            }
            "valuespanic" => {
                q.values_panic(l.iter().map(expr).collect::<Vec<_>>());
            }
            // the same calls fed by lazy iterators whose size_hint is inexact (the row is only known
            // once it has been consumed)
            "valuesit" => {
                let before = q.clone();
                match q.values(l.iter().map(expr).filter(|_| true)) {
                    Ok(_) => log.push("ok".into()),
                    Err(sea_query::error::Error::ColValNumMismatch { col_len, val_len }) => {
                        log.push(format!("err({},{}){}", col_len, val_len, if q == before { "" } else { "!changed" }))
                    }
                    #[allow(unreachable_patterns)]
                    Err(_) => log.push("err(?)".into()),
                }
            }
            "valuespanicit" => {
                q.values_panic(l.iter().map(expr).skip_while(|_| false));
            }
            "valuesfrompanic" => {
                q.values_from_panic(l.iter().map(|r| r.args().iter().map(expr).collect::<Vec<_>>()));
            }
            "selectfrom" => {
                let before = q.clone();
                match q.select_from(select(&l[0])) {
                    Ok(_) => log.push("ok".into()),
                    Err(sea_query::error::Error::ColValNumMismatch { col_len, val_len }) => {
                        log.push(format!("err({},{}){}", col_len, val_len, if q == before { "" } else { "!changed" }))
                    }
                    #[allow(unreachable_patterns)]
                    Err(_) => log.push("err(?)".into()),
                }
            }
            "ordefault" => {
                q.or_default_values();
            }
            "ordefaultmany" => {
                q.or_default_values_many(l[0].atom().parse().unwrap());
            }
            "onconflict" => {
                q.on_conflict(onconflict(c));
            }
            "returning" => {
                q.returning(returning(c));
            }
            "with" => {
                q.with_cte(withclause(c));
            }
            other => panic!("insert clause {}", other),
        }
        probe(&mut q, c);
    }
    q
}

pub fn update(s: &S) -> UpdateStatement {
    assert!(s.head() == "update");
    let mut q = Query::update();
    for c in s.args() {
        let l = c.args();
        match c.head() {
            "table" => {
                q.table(tref(&l[0]));
            }
            "from" => {
                q.from(tref(&l[0]));
            }
            "value" => {
                if exprs::shash(c) % 2 == 0 {
                    q.value(id(&l[0]), expr(&l[1]));
                } else {
                    q.values([(id(&l[0]), expr(&l[1]))]);
                }
            }
            "andwhere" => {
                if exprs::shash(c) % 2 == 0 {
                    q.and_where(expr(&l[0]));
                } else {
                    q.and_where_option(Some(expr(&l[0])));
                }
            }
            "condwhere" => {
                q.cond_where(conds::cond(&l[0]));
            }
            "andorwhere" => {
                // the doc-hidden and_or_where(LogicalChainOper)
                let e = expr(&l[1]);
                q.and_or_where(if l[0].atom() == "or" { LogicalChainOper::Or(e) } else { LogicalChainOper::And(e) });
            }
            "orderby" => {
                let is_col = matches!(l[0].head(), "col" | "star" | "tstar");
                let alt = exprs::shash(c) % 2 == 1 && is_col;
                if l.len() > 2 {
                    if alt {
                        q.order_by_with_nulls(exprs::colref(&l[0]), order(&l[1]), nulls(&l[2]));
                    } else {
                        q.order_by_expr_with_nulls(expr(&l[0]), order(&l[1]), nulls(&l[2]));
                    }
                } else if alt {
                    q.order_by(exprs::colref(&l[0]), order(&l[1]));
                } else {
                    q.order_by_expr(expr(&l[0]), order(&l[1]));
                }
            }
            "limit" => {
                q.limit(l[0].atom().parse().unwrap());
            }
            "returning" => {
                q.returning(returning(c));
            }
            "with" => {
                q.with_cte(withclause(c));
            }
            other => panic!("update clause {}", other),
        }
        probe(&mut q, c);
    }
    q
}

pub fn delete(s: &S) -> DeleteStatement {
    assert!(s.head() == "delete");
    let mut q = Query::delete();
    for c in s.args() {
        let l = c.args();
        match c.head() {
            "from" => {
                q.from_table(tref(&l[0]));
            }
            "andwhere" => {
                if exprs::shash(c) % 2 == 0 {
                    q.and_where(expr(&l[0]));
                } else {
                    q.and_where_option(Some(expr(&l[0])));
                }
            }
            "condwhere" => {
                q.cond_where(conds::cond(&l[0]));
            }
            "andorwhere" => {
                // the doc-hidden and_or_where(LogicalChainOper)
                let e = expr(&l[1]);
                q.and_or_where(if l[0].atom() == "or" { LogicalChainOper::Or(e) } else { LogicalChainOper::And(e) });
            }
            "orderby" => {
                let is_col = matches!(l[0].head(), "col" | "star" | "tstar");
                let alt = exprs::shash(c) % 2 == 1 && is_col;
                if l.len() > 2 {
                    if alt {
                        q.order_by_with_nulls(exprs::colref(&l[0]), order(&l[1]), nulls(&l[2]));
                    } else {
                        q.order_by_expr_with_nulls(expr(&l[0]), order(&l[1]), nulls(&l[2]));
                    }
                } else if alt {
                    q.order_by(exprs::colref(&l[0]), order(&l[1]));
                } else {
                    q.order_by_expr(expr(&l[0]), order(&l[1]));
                }
            }
            "limit" => {
                q.limit(l[0].atom().parse().unwrap());
            }
            "returning" => {
                q.returning(returning(c));
            }
            "with" => {
                q.with_cte(withclause(c));
            }
            other => panic!("delete clause {}", other),
        }
        probe(&mut q, c);
    }
    q
}

pub fn subquery(s: &S) -> SubQueryStatement {
    let mut log = vec![];
    match s.head() {
        "select" => SubQueryStatement::SelectStatement(select(s)),
        "insert" => SubQueryStatement::InsertStatement(insert(s, &mut log)),
        "update" => SubQueryStatement::UpdateStatement(update(s)),
        "delete" => SubQueryStatement::DeleteStatement(delete(s)),
        "withq" => SubQueryStatement::WithStatement(withquery(s)),
        other => panic!("subquery {}", other),
    }
}

pub fn withquery(s: &S) -> WithQuery {
    // (withq (with ...) query): WithClause::query(q), or the statement's own with(clause)
    let l = s.args();
    let w = withclause(&l[0]);
    let alt = exprs::shash(s) % 2 == 1;
    match subquery(&l[1]) {
        SubQueryStatement::SelectStatement(q) => if alt { q.with(w) } else { w.query(q) },
        SubQueryStatement::InsertStatement(q) => if alt { q.with(w) } else { w.query(q) },
        SubQueryStatement::UpdateStatement(q) => if alt { q.with(w) } else { w.query(q) },
        SubQueryStatement::DeleteStatement(q) => if alt { q.with(w) } else { w.query(q) },
        SubQueryStatement::WithStatement(_) => panic!("nested with query"),
    }
}

pub fn show(b: B, inline: String, sql: String, vals: Values) -> String {
    format!(
        "{} {} {} {}",
        hexs(&inline),
        hexs(&sql),
        if vals.0.is_empty() { "-".to_string() } else { vals.0.iter().map(exprs::show_value).collect::<Vec<_>>().join(",") },
        if vals.0.is_empty() { "-".to_string() } else { vals.0.iter().map(|v| hexs(&b.qb().value_to_string(v))).collect::<Vec<_>>().join(",") }
    )
}

macro_rules! render {
    ($b:expr, $q:expr) => {{
        let q = $q;
        match $b {
            B::My => {
                let (s, v) = q.build(MysqlQueryBuilder);
                show(B::My, q.to_string(MysqlQueryBuilder), s, v)
            }
            B::Pg => {
                let (s, v) = q.build(PostgresQueryBuilder);
                show(B::Pg, q.to_string(PostgresQueryBuilder), s, v)
            }
            B::Sl => {
                let (s, v) = q.build(SqliteQueryBuilder);
                show(B::Sl, q.to_string(SqliteQueryBuilder), s, v)
            }
        }
    }};
}

/// stmt <backend> <sexp>: `<inline-hex> <params-hex> <values> [| log]`
pub fn run(b: B, s: &S) -> String {
    let mut log = vec![];
    // one case in three renders / clones the unfinished builders on the way (see `probe`)
    PROBE.with(|p| p.set(if exprs::shash(s) % 3 == 1 { match b { B::My => 1, B::Pg => 2, B::Sl => 3 } } else { 0 }));
    let out = match s.head() {
        "select" => render!(b, &select(s)),
        "insert" => {
            let q = insert(s, &mut log);
            render!(b, &q)
        }
        "update" => render!(b, &update(s)),
        "delete" => render!(b, &delete(s)),
        "withq" => render!(b, &withquery(s)),
        other => panic!("stmt {}", other),
    };
    if log.is_empty() {
        out
    } else {
        format!("{} | {}", out, log.join(","))
    }
}

/// entry <backend> <sexp>: all public rendering entry points agree, rendering twice agrees,
/// rendering does not modify the statement
macro_rules! entry_points {
    ($qb:expr, $q:expr) => {{
        let q = $q;
        let before = q.clone();
        let mut problems: Vec<String> = vec![];
        let s1 = q.to_string($qb);
        let (p1, v1) = q.build($qb);
        let (p2, v2) = q.build_any(&$qb);
        if p1 != p2 || v1 != v2 {
            problems.push("build_any differs from build".into());
        }
        let (ph, numbered) = $qb.placeholder();
        let mut w = SqlWriterValues::new(ph, numbered);
        let p3 = q.build_collect($qb, &mut w);
        let (p3b, v3) = w.into_parts();
        if p3 != p1 || p3b != p1 || v3 != v1 {
            problems.push("build_collect differs from build".into());
        }
        let (ph, numbered) = $qb.placeholder();
        let mut w = SqlWriterValues::new(ph, numbered);
        let p4 = q.build_collect_any(&$qb, &mut w);
        let (_, v4) = w.into_parts();
        if p4 != p1 || v4 != v1 {
            problems.push("build_collect_any differs from build".into());
        }
        let mut sw = String::new();
        q.build_collect_into($qb, &mut sw);
        if sw != s1 {
            problems.push("build_collect_into(String) differs from to_string".into());
        }
        let mut sw = String::new();
        q.build_collect_any_into(&$qb, &mut sw);
        if sw != s1 {
            problems.push("build_collect_any_into(String) differs from to_string".into());
        }
        if q.to_string($qb) != s1 || q.build($qb) != (p1.clone(), v1.clone()) {
            problems.push("second rendering differs".into());
        }
        if *q != before {
            problems.push("rendering modified the statement".into());
        }
        if problems.is_empty() { "OK".to_string() } else { problems.join("; ") }
    }};
}
macro_rules! entry_b {
    ($b:expr, $q:expr) => {
        match $b {
            B::My => entry_points!(MysqlQueryBuilder, $q),
            B::Pg => entry_points!(PostgresQueryBuilder, $q),
            B::Sl => entry_points!(SqliteQueryBuilder, $q),
        }
    };
}
pub fn run_entry(b: B, s: &S) -> String {
    let mut log = vec![];
    match s.head() {
        "select" => entry_b!(b, &select(s)),
        "insert" => entry_b!(b, &insert(s, &mut log)),
        "update" => entry_b!(b, &update(s)),
        "delete" => entry_b!(b, &delete(s)),
        "withq" => entry_b!(b, &withquery(s)),
        other => panic!("stmt {}", other),
    }
}

/// inject <backend> <sexp>: `<inject_parameters(build())-hex> <to_string-hex>`
macro_rules! inject_b {
    ($qb:expr, $q:expr) => {{
        let q = $q;
        let (sql, vals) = q.build($qb);
        format!("{} {}", hexs(&inject_parameters(&sql, vals.0, &$qb)), hexs(&q.to_string($qb)))
    }};
}
macro_rules! inject_any {
    ($b:expr, $q:expr) => {
        match $b {
            B::My => inject_b!(MysqlQueryBuilder, $q),
            B::Pg => inject_b!(PostgresQueryBuilder, $q),
            B::Sl => inject_b!(SqliteQueryBuilder, $q),
        }
    };
}
pub fn run_inject(b: B, s: &S) -> String {
    let mut log = vec![];
    match s.head() {
        "select" => inject_any!(b, &select(s)),
        "insert" => inject_any!(b, &insert(s, &mut log)),
        "update" => inject_any!(b, &update(s)),
        "delete" => inject_any!(b, &delete(s)),
        "withq" => inject_any!(b, &withquery(s)),
        _ => {
            let mut q = Query::select();
            q.expr(expr(s));
            inject_any!(b, &q)
        }
    }
}
