//! C12: runs the real conversions between Rust types and sea_query::Value (feature set fa).
//!   from <type> <tok>            Value::from(x)                          -> value term
//!   null <type>                  <T as Nullable>::null()                 -> value term
//!   try  <type> <value term>     <T as ValueType>::try_from(v)           -> OK <tok> | ERR
//!   rt   <type> <tok>            T::try_from(Value::from(x))             -> OK <tok> | ERR
//!   rtx  <src> <dst> <tok>       Dst::try_from(Value::from(x: Src))  for types sharing a variant
//!   asnull <value term>, dummy <value term>, deq <value term> <value term>
//!   tupinto <pat> <n> <tok>*n    (x0,..).into_value_tuple()              -> tuple term | its into_iter()
//!   tupfrom <pat> <n> <tuple term>   <(T0,..)>::from_value_tuple(t)      -> OK <tok>*n
//!   tup <pat> <n_into> <n_from> <tok>*n_into   from_value_tuple(into_value_tuple(..))
//! <type> is a row name of Generated/ValueTypes.v, optionally wrapped: Option<T>, Vec<T>, Option<Vec<T>>.
//! A panic inside the called code prints PANIC (caught in main).
use crate::valueterm::*;
use sea_query::{FromValueTuple, IntoValueTuple, Nullable, Value, ValueTuple, ValueType};
use std::borrow::Cow;

type Json = serde_json::Value;
type DtUtc = chrono::DateTime<chrono::Utc>;
type DtLocal = chrono::DateTime<chrono::Local>;
type DtFixed = chrono::DateTime<chrono::FixedOffset>;

fn res<T: Pay>(r: Result<T, sea_query::ValueTypeErr>) -> String {
    match r {
        Ok(y) => format!("OK {}", y.show()),
        Err(_) => "ERR".to_string(),
    }
}

fn op_from<T: Pay + Into<Value>>(tok: &str) -> String {
    show_value(&T::parse(tok).into())
}
fn op_null<T: Nullable>() -> String {
    show_value(&T::null())
}
fn op_try<T: Pay + ValueType>(term: &str) -> String {
    res(<T as ValueType>::try_from(parse_value(term)))
}
fn op_rt<T: Pay + Into<Value> + ValueType>(tok: &str) -> String {
    let v: Value = T::parse(tok).into();
    res(<T as ValueType>::try_from(v))
}
fn op_rtx<S: Pay + Into<Value>, D: Pay + ValueType>(tok: &str) -> String {
    let v: Value = S::parse(tok).into();
    res(<D as ValueType>::try_from(v))
}

/// rows with From + Nullable + ValueType + NotU8: every wrapper is available
macro_rules! full_rows {
    ($m:ident, $name:expr, $($a:expr),*) => {
        match $name {
            "bool" => $m!(bool, $($a),*),
            "i8" => $m!(i8, $($a),*),
            "i16" => $m!(i16, $($a),*),
            "i32" => $m!(i32, $($a),*),
            "i64" => $m!(i64, $($a),*),
            "u16" => $m!(u16, $($a),*),
            "u32" => $m!(u32, $($a),*),
            "u64" => $m!(u64, $($a),*),
            "f32" => $m!(f32, $($a),*),
            "f64" => $m!(f64, $($a),*),
            "char" => $m!(char, $($a),*),
            "Vec<u8>" => $m!(Vec<u8>, $($a),*),
            "String" => $m!(String, $($a),*),
            "Json" => $m!(Json, $($a),*),
            "NaiveDate" => $m!(chrono::NaiveDate, $($a),*),
            "NaiveTime" => $m!(chrono::NaiveTime, $($a),*),
            "NaiveDateTime" => $m!(chrono::NaiveDateTime, $($a),*),
            "DateTime<Utc>" => $m!(DtUtc, $($a),*),
            "DateTime<Local>" => $m!(DtLocal, $($a),*),
            "DateTime<FixedOffset>" => $m!(DtFixed, $($a),*),
            "time::Date" => $m!(time::Date, $($a),*),
            "time::Time" => $m!(time::Time, $($a),*),
            "PrimitiveDateTime" => $m!(time::PrimitiveDateTime, $($a),*),
            "OffsetDateTime" => $m!(time::OffsetDateTime, $($a),*),
            "Decimal" => $m!(rust_decimal::Decimal, $($a),*),
            "BigDecimal" => $m!(bigdecimal::BigDecimal, $($a),*),
            "Uuid" => $m!(uuid::Uuid, $($a),*),
            "uuid::fmt::Braced" => $m!(uuid::fmt::Braced, $($a),*),
            "uuid::fmt::Hyphenated" => $m!(uuid::fmt::Hyphenated, $($a),*),
            "uuid::fmt::Simple" => $m!(uuid::fmt::Simple, $($a),*),
            "uuid::fmt::Urn" => $m!(uuid::fmt::Urn, $($a),*),
            "IpNetwork" => $m!(ipnetwork::IpNetwork, $($a),*),
            "MacAddress" => $m!(mac_address::MacAddress, $($a),*),
            _ => "NOIMPL".to_string(),
        }
    };
}

macro_rules! m_wrapped {
    ($t:ty, $op:expr, $wrap:expr, $arg:expr) => {
        match ($op, $wrap) {
            ("from", 0) => op_from::<$t>($arg),
            ("from", 1) => op_from::<Option<$t>>($arg),
            ("from", 2) => op_from::<Vec<$t>>($arg),
            ("from", 3) => op_from::<Option<Vec<$t>>>($arg),
            ("try", 0) => op_try::<$t>($arg),
            ("try", 1) => op_try::<Option<$t>>($arg),
            ("try", 2) => op_try::<Vec<$t>>($arg),
            ("try", 3) => op_try::<Option<Vec<$t>>>($arg),
            ("rt", 0) => op_rt::<$t>($arg),
            ("rt", 1) => op_rt::<Option<$t>>($arg),
            ("rt", 2) => op_rt::<Vec<$t>>($arg),
            ("rt", 3) => op_rt::<Option<Vec<$t>>>($arg),
            ("null", 0) => op_null::<$t>(),
            ("null", 2) => op_null::<Vec<$t>>(),
            _ => "NOIMPL".to_string(),
        }
    };
}
/// u8 and pgvector::Vector: no NotU8, so no Vec<T>
macro_rules! m_scalar {
    ($t:ty, $op:expr, $wrap:expr, $arg:expr) => {
        match ($op, $wrap) {
            ("from", 0) => op_from::<$t>($arg),
            ("from", 1) => op_from::<Option<$t>>($arg),
            ("try", 0) => op_try::<$t>($arg),
            ("try", 1) => op_try::<Option<$t>>($arg),
            ("rt", 0) => op_rt::<$t>($arg),
            ("rt", 1) => op_rt::<Option<$t>>($arg),
            ("null", 0) => op_null::<$t>(),
            _ => "NOIMPL".to_string(),
        }
    };
}

/// (wrapper, base): 0 = T, 1 = Option<T>, 2 = Vec<T>, 3 = Option<Vec<T>>
fn unwrap_type(ty: &str) -> (u8, &str) {
    if ty == "Vec<u8>" {
        return (0, ty);
    }
    if ty == "Option<Vec<u8>>" {
        return (1, "Vec<u8>");
    }
    if let Some(r) = ty.strip_prefix("Option<Vec<") {
        return (3, &r[..r.len() - 2]);
    }
    if let Some(r) = ty.strip_prefix("Option<") {
        return (1, &r[..r.len() - 1]);
    }
    if let Some(r) = ty.strip_prefix("Vec<") {
        return (2, &r[..r.len() - 1]);
    }
    (0, ty)
}

fn conv(op: &str, ty: &str, arg: &str) -> String {
    let (wrap, base) = unwrap_type(ty);
    match base {
        "u8" => m_scalar!(u8, op, wrap, arg),
        "pgvector::Vector" => m_scalar!(pgvector::Vector, op, wrap, arg),
        "Cow<str>" => match (op, wrap) {
            ("from", 0) => op_from::<Cow<'static, str>>(arg),
            ("try", 0) => op_try::<Cow<'static, str>>(arg),
            ("rt", 0) => op_rt::<Cow<'static, str>>(arg),
            _ => "NOIMPL".to_string(),
        },
        "&str" => match (op, wrap) {
            ("from", 0) => show_value(&Value::from(String::parse(arg).as_str())),
            ("from", 1) => {
                let s = <Option<String>>::parse(arg);
                show_value(&Value::from(s.as_deref()))
            }
            ("null", 0) => op_null::<&str>(),
            _ => "NOIMPL".to_string(),
        },
        "&String" => match (op, wrap) {
            ("from", 0) => show_value(&Value::from(&String::parse(arg))),
            _ => "NOIMPL".to_string(),
        },
        "&[u8]" => match (op, wrap) {
            ("from", 0) => show_value(&Value::from(<Vec<u8>>::parse(arg).as_slice())),
            _ => "NOIMPL".to_string(),
        },
        _ => full_rows!(m_wrapped, base, op, wrap, arg),
    }
}

/// conversions between two Rust types that map onto the same variant
fn rtx(src: &str, dst: &str, tok: &str) -> String {
    use uuid::fmt::{Braced, Hyphenated, Simple, Urn};
    use uuid::Uuid;
    let via = |v: Value| -> String {
        match dst {
            "String" => res(<String as ValueType>::try_from(v)),
            "Cow<str>" => res(<Cow<'static, str> as ValueType>::try_from(v)),
            "Vec<u8>" => res(<Vec<u8> as ValueType>::try_from(v)),
            _ => "NOIMPL".to_string(),
        }
    };
    match (src, dst) {
        ("&str", _) => via(Value::from(String::parse(tok).as_str())),
        ("&String", _) => via(Value::from(&String::parse(tok))),
        ("&[u8]", _) => via(Value::from(<Vec<u8>>::parse(tok).as_slice())),
        ("String", _) => via(Value::from(String::parse(tok))),
        ("Cow<str>", _) => via(Value::from(<Cow<'static, str>>::parse(tok))),
        ("Uuid", "uuid::fmt::Braced") => op_rtx::<Uuid, Braced>(tok),
        ("Uuid", "uuid::fmt::Hyphenated") => op_rtx::<Uuid, Hyphenated>(tok),
        ("Uuid", "uuid::fmt::Simple") => op_rtx::<Uuid, Simple>(tok),
        ("Uuid", "uuid::fmt::Urn") => op_rtx::<Uuid, Urn>(tok),
        ("uuid::fmt::Braced", "Uuid") => op_rtx::<Braced, Uuid>(tok),
        ("uuid::fmt::Hyphenated", "Uuid") => op_rtx::<Hyphenated, Uuid>(tok),
        ("uuid::fmt::Simple", "Uuid") => op_rtx::<Simple, Uuid>(tok),
        ("uuid::fmt::Urn", "Uuid") => op_rtx::<Urn, Uuid>(tok),
        ("uuid::fmt::Braced", "uuid::fmt::Urn") => op_rtx::<Braced, Urn>(tok),
        ("uuid::fmt::Simple", "uuid::fmt::Hyphenated") => op_rtx::<Simple, Hyphenated>(tok),
        _ => "NOIMPL".to_string(),
    }
}

// ---- tuples ------------------------------------------------------------------------------------------

trait TupPay: Sized {
    fn parse_all(toks: &[&str]) -> Self;
    fn show_all(&self) -> String;
}
macro_rules! tup_pay {
    ($($idx:tt : $T:ident),+) => {
        impl<$($T: Pay),+> TupPay for ($($T,)+) {
            fn parse_all(toks: &[&str]) -> Self { ($($T::parse(toks[$idx]),)+) }
            fn show_all(&self) -> String { vec![$(self.$idx.show()),+].join(" ") }
        }
    };
}
tup_pay!(0: A, 1: B);
tup_pay!(0: A, 1: B, 2: C);
tup_pay!(0: A, 1: B, 2: C, 3: D);
tup_pay!(0: A, 1: B, 2: C, 3: D, 4: E);
tup_pay!(0: A, 1: B, 2: C, 3: D, 4: E, 5: F);
tup_pay!(0: A, 1: B, 2: C, 3: D, 4: E, 5: F, 6: G);
tup_pay!(0: A, 1: B, 2: C, 3: D, 4: E, 5: F, 6: G, 7: H);
tup_pay!(0: A, 1: B, 2: C, 3: D, 4: E, 5: F, 6: G, 7: H, 8: I);
tup_pay!(0: A, 1: B, 2: C, 3: D, 4: E, 5: F, 6: G, 7: H, 8: I, 9: J);
tup_pay!(0: A, 1: B, 2: C, 3: D, 4: E, 5: F, 6: G, 7: H, 8: I, 9: J, 10: K);
tup_pay!(0: A, 1: B, 2: C, 3: D, 4: E, 5: F, 6: G, 7: H, 8: I, 9: J, 10: K, 11: L);

/// arity 1 is the bare type (impl<V: Into<Value>> IntoValueTuple for V)
struct Bare<T>(T);
fn into1<T: Pay + Into<Value>>(toks: &[&str]) -> ValueTuple {
    T::parse(toks[0]).into_value_tuple()
}
fn from1<T: Pay + Into<Value> + ValueType>(t: ValueTuple) -> String {
    let y = Bare(<T as FromValueTuple>::from_value_tuple(t));
    y.0.show()
}
fn into_n<T: TupPay + IntoValueTuple>(toks: &[&str]) -> ValueTuple {
    T::parse_all(toks).into_value_tuple()
}
fn from_n<T: TupPay + FromValueTuple>(t: ValueTuple) -> String {
    T::from_value_tuple(t).show_all()
}

macro_rules! pattern {
    ($into:ident, $from:ident; $A:ty, $B:ty, $C:ty, $D:ty, $E:ty, $F:ty, $G:ty, $H:ty, $I:ty, $J:ty, $K:ty, $L:ty) => {
        fn $into(n: usize, toks: &[&str]) -> ValueTuple {
            match n {
                1 => into1::<$A>(toks),
                2 => into_n::<($A, $B)>(toks),
                3 => into_n::<($A, $B, $C)>(toks),
                4 => into_n::<($A, $B, $C, $D)>(toks),
                5 => into_n::<($A, $B, $C, $D, $E)>(toks),
                6 => into_n::<($A, $B, $C, $D, $E, $F)>(toks),
                7 => into_n::<($A, $B, $C, $D, $E, $F, $G)>(toks),
                8 => into_n::<($A, $B, $C, $D, $E, $F, $G, $H)>(toks),
                9 => into_n::<($A, $B, $C, $D, $E, $F, $G, $H, $I)>(toks),
                10 => into_n::<($A, $B, $C, $D, $E, $F, $G, $H, $I, $J)>(toks),
                11 => into_n::<($A, $B, $C, $D, $E, $F, $G, $H, $I, $J, $K)>(toks),
                12 => into_n::<($A, $B, $C, $D, $E, $F, $G, $H, $I, $J, $K, $L)>(toks),
                _ => panic!("arity"),
            }
        }
        fn $from(n: usize, t: ValueTuple) -> String {
            match n {
                1 => from1::<$A>(t),
                2 => from_n::<($A, $B)>(t),
                3 => from_n::<($A, $B, $C)>(t),
                4 => from_n::<($A, $B, $C, $D)>(t),
                5 => from_n::<($A, $B, $C, $D, $E)>(t),
                6 => from_n::<($A, $B, $C, $D, $E, $F)>(t),
                7 => from_n::<($A, $B, $C, $D, $E, $F, $G)>(t),
                8 => from_n::<($A, $B, $C, $D, $E, $F, $G, $H)>(t),
                9 => from_n::<($A, $B, $C, $D, $E, $F, $G, $H, $I)>(t),
                10 => from_n::<($A, $B, $C, $D, $E, $F, $G, $H, $I, $J)>(t),
                11 => from_n::<($A, $B, $C, $D, $E, $F, $G, $H, $I, $J, $K)>(t),
                12 => from_n::<($A, $B, $C, $D, $E, $F, $G, $H, $I, $J, $K, $L)>(t),
                _ => panic!("arity"),
            }
        }
    };
}
// the component types of each pattern are listed in checks/c12.py (PATTERNS) in the same order
pattern!(into_a, from_a; i32, String, f64, bool, u8, i64, char, Vec<u8>, u16, f32, i8, u64);
pattern!(into_b, from_b; i64, i64, i64, i64, i64, i64, i64, i64, i64, i64, i64, i64);
pattern!(into_c, from_c; Option<i32>, Option<String>, Option<f64>, Option<bool>, Option<u8>, Option<i64>, Option<char>,
         Option<Vec<u8>>, Option<u16>, Option<f32>, Option<i8>, Option<u64>);
pattern!(into_d, from_d; uuid::Uuid, chrono::NaiveDate, rust_decimal::Decimal, Json, Vec<i32>, Option<Vec<String>>, DtUtc,
         bigdecimal::BigDecimal, time::Date, ipnetwork::IpNetwork, mac_address::MacAddress, u32);

fn tup_into(pat: &str, n: usize, toks: &[&str]) -> ValueTuple {
    assert!(toks.len() == n, "token count");
    match pat {
        "A" => into_a(n, toks),
        "B" => into_b(n, toks),
        "C" => into_c(n, toks),
        "D" => into_d(n, toks),
        _ => panic!("pattern"),
    }
}
fn tup_from(pat: &str, n: usize, t: ValueTuple) -> String {
    let s = match pat {
        "A" => from_a(n, t),
        "B" => from_b(n, t),
        "C" => from_c(n, t),
        "D" => from_d(n, t),
        _ => panic!("pattern"),
    };
    format!("OK {}", s)
}

pub fn run(t: &[&str]) -> String {
    match t[0] {
        "from" | "try" | "rt" => conv(t[0], t[1], t[2]),
        "null" => conv("null", t[1], ""),
        "rtx" => rtx(t[1], t[2], t[3]),
        "asnull" => show_value(&parse_value(t[1]).as_null()),
        "dummy" => show_value_shape(&parse_value(t[1]).dummy_value()),
        "deq" => (if parse_value(t[1]) == parse_value(t[2]) { "T" } else { "F" }).to_string(),
        "tupinto" => {
            let n: usize = t[2].parse().unwrap();
            let vt = tup_into(t[1], n, &t[3..]);
            let shown = show_tuple(&vt);
            let it: Vec<String> = vt.into_iter().map(|v| show_value(&v)).collect();
            format!("{} | {}", shown, it.join(" "))
        }
        "tupfrom" => {
            let n: usize = t[2].parse().unwrap();
            tup_from(t[1], n, parse_tuple(t[3]))
        }
        "tup" => {
            let n_into: usize = t[2].parse().unwrap();
            let n_from: usize = t[3].parse().unwrap();
            let vt = tup_into(t[1], n_into, &t[4..]);
            tup_from(t[1], n_from, vt)
        }
        other => format!("UNKNOWN-OP {}", other),
    }
}
