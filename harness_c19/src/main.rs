#![allow(dead_code, non_camel_case_types, non_snake_case)]
use sea_query::{enum_def, Alias, Iden, IdenStatic, Quote};

#[derive(Iden)]
enum A { Table, HTTPServer2Go, _1, r#Type, #[iden = "a\"b`c"] X, #[iden(rename = "{}")] Y, #[method = "m"] Z, #[iden(method = "m")] Z2,
  #[iden(flatten)] F(B), #[iden(flatten)] G{ b: B }, #[iden = "first"] #[method = "m"] Two, T1(u8, u8), T2{a: u8}, #[iden = ""] Empty }
impl A { fn m(&self) -> &'static str { "meth\"od" } }

#[derive(IdenStatic, Clone, Copy)]
#[iden = "b{{x}}"]
struct B;

#[derive(IdenStatic, Clone, Copy)]
#[iden(rename = "ren")]
enum C { r#Table2,  Table, Abc_Def, ABcDE, #[iden(flatten)] F(B) }

#[derive(Iden)]
struct r#Struct;
#[derive(Iden)]
struct _9;

#[enum_def(prefix = "P", suffix = "S", table_name = "tbl")]
struct FooBar { r#type: u8, a_b: u8, http2Server: u8, _x: u8 }

#[enum_def]
struct HTTPThing { id: u8 }
#[enum_def(prefix = "Q")]
struct OnlyPre { id: u8 }
#[enum_def(suffix = "_")]
struct OnlySuf { id: u8 }

fn row<T: Iden>(tag: &str, v: T) {
    let mut b = String::new(); v.prepare(&mut b, Quote::new(b'`'));
    let mut d = String::new(); v.prepare(&mut d, Quote::new(b'"'));
    let a = Alias::new(v.to_string());
    let mut gb = String::new(); a.prepare(&mut gb, Quote::new(b'`'));
    let mut gd = String::new(); a.prepare(&mut gd, Quote::new(b'"'));
    println!("{tag}: [{}] {b} {d} | {gb} {gd}", v.to_string());
}
fn main() {
    row("A::Table", A::Table); row("HTTPServer2Go", A::HTTPServer2Go); row("_1", A::_1); row("r#Type", A::r#Type); 
    row("X", A::X); row("Y", A::Y); row("Z", A::Z); row("Z2", A::Z2); row("F", A::F(B)); row("G", A::G{b: B}); row("Two", A::Two);
    row("T1", A::T1(0,0)); row("T2", A::T2{a:0}); row("Empty", A::Empty);
    row("B", B); println!("B.as_str {}", B.as_str());
    row("C::Table", C::Table); row("Abc_Def", C::Abc_Def); row("ABcDE", C::ABcDE); row("C::F", C::F(B)); println!("{} {}", C::Abc_Def.as_str(), C::F(B).as_str());
    row("Struct", r#Struct); row("_9", _9);
    row("PFooBarS::Table", PFooBarS::Table); row("Type", PFooBarS::RType); row("AB", PFooBarS::AB); row("h2", PFooBarS::Http2Server); row("_x", PFooBarS::X);
    println!("{:?} {}", PFooBarS::Http2Server, std::any::type_name::<PFooBarS>());
    row("HTTPThingIden", HTTPThingIden::Table); row("Q", QOnlyPreIden::Table); row("suf", OnlySuf_::Id);
}
