"""C02 — inline rendering and parameterised rendering are the same statement."""
import vlib
from vlib import hexs, unhexs
import qcommon
import regen


def gen_cases(ctx):
    n = 2000 if ctx.quick else 120000
    # a quarter of the values come from a pool over every value kind (tools/richvalues.py); the 4th output field
    # (value_to_string of every bound value, from the implementation) gives the oracle their literals
    lines = qcommon.gen_statement_cases(ctx, n, no_marks=True, rich_values=400 if ctx.quick else 3000)
    # every public entry point, on the statement cases
    entries = ["entry " + l[5:] for l in lines if l.startswith("stmt ")]
    return lines + entries[: (600 if ctx.quick else 8000)]


import re
INT_VALUE = re.compile(r"^([iu](?:8|16|32|64)):(-?[0-9]+|N)$")
INTLITS = [0]
STRLITS = [0]


def subst(tokens, lit_tokens):
    """the token stream with every placeholder replaced by the literal it designates: the k-th positional mark (P0)
    designates the k-th value, a numbered mark $n (Pn) the n-th value - whatever its position; None if a mark
    designates no value or some value is designated by no mark"""
    out, k, used = [], 0, set()
    for t in tokens:
        if t.startswith("P"):
            n = int(t[1:])
            idx = k if n == 0 else n - 1
            if idx >= len(lit_tokens):
                return None
            out.extend(lit_tokens[idx])
            used.add(idx)
            k += 1
        else:
            out.append(t)
    return out if used == set(range(len(lit_tokens))) else None


def batch_oracle(ctx, lines, impl):
    verdicts = [None] * len(lines)
    pairs, idx = [], []
    for i, (c, o) in enumerate(zip(lines, impl)):
        if c.startswith("entry "):
            if o not in ("OK", "PANIC"):
                verdicts[i] = "entry points disagree: %s" % o
            continue
        f = qcommon.split_out(o)
        if f is None:
            continue
        b = c.split(" ")[1]
        pairs.append((b, f[0]))
        pairs.append((b, f[1]))
        for l in f[3]:
            pairs.append((b, l))
        idx.append(i)
    toks = qcommon.etok_many(ctx, pairs)
    checked = 0
    for i in idx:
        b = lines[i].split(" ")[1]
        inl, par, vals, lits = qcommon.split_out(impl[i])
        ti, tp = toks[(b, inl)], toks[(b, par)]
        if ti == "LEXFAIL" and tp == "LEXFAIL":
            continue
        if (ti == "LEXFAIL") != (tp == "LEXFAIL"):
            verdicts[i] = "only one of the two forms is lexable by the engine tokenizer"
            continue
        # the literal of a bound integer is its decimal numeral, of a NULL the word NULL - stated here, not taken
        # from the implementation's value_to_string (which writes the inline form too)
        for v, l in zip(vals, lits):
            m_ = INT_VALUE.match(v)
            if m_ and m_.group(2) == "N":
                exp = "NULL"
            elif m_:
                exp = m_.group(2)
            else:
                continue
            INTLITS[0] += 1
            if unhexs(l) != exp and verdicts[i] is None:
                verdicts[i] = "the literal of the bound value %s is written %r" % (v, unhexs(l))
        # the literal of a bound string is ONE string token of the engine's lexer and decodes to the string (read by
        # the extracted engine lexer, not by the implementation's writer); NUL has no representation on Postgres / SQLite
        for v, l in zip(vals, lits):
            if not v.startswith("s:") or v.endswith(":N") or verdicts[i] is not None:
                continue
            h = v[2:]
            if h == "":
                h = "-"        # (the empty string is written - by both encodings)
            if b in ("pg", "sl") and "00" in [h[j:j + 2] for j in range(0, len(h), 2)]:
                continue
            t = toks.get((b, l))
            STRLITS[0] += 1
            if t is None or t == "LEXFAIL" or t.split(" ")[:-1] != ["S" + h]:
                verdicts[i] = "the literal of the bound string %s reads as %s under the %s lexer" % (v, t, b)
        if verdicts[i] is not None:
            continue
        lt = []
        bad = False
        for l in lits:
            t = toks[(b, l)]
            if t == "LEXFAIL":
                bad = True
                break
            lt.append(t.split(" ")[:-1])
        if bad:
            verdicts[i] = "a literal of a bound value is not lexable on its own"
            continue
        want = subst(tp.split(" ")[:-1], lt)
        checked += 1
        if want is None:
            verdicts[i] = "the placeholders do not designate every bound value exactly (count or numbering)"
        elif want != ti.split(" ")[:-1]:
            verdicts[i] = "inline form is not the parameterised form with literals substituted (engine token streams differ)"
    qcommon.text_level_premise(ctx, lines, impl, "I")
    ctx.cov["oracle_statements_compared"] = checked
    ctx.cov["oracle_integer_literals_checked_against_the_numeral"] = INTLITS[0]
    ctx.cov["oracle_string_literals_decoded_by_the_engine_lexer"] = STRLITS[0]
    return verdicts


def run(ctx):
    return vlib.standard_flow(
        ctx, "fa", gen_cases, batch_oracle=batch_oracle, describe=qcommon.describe,
        regen=lambda c: regen.regen_exprtables(c),
        nontrivial=lambda c: "(val " in c,
        rule="random builder programs x values of every kind (all 31 Value variants, finite floats, NULL of every "
             "variant, arrays of every element kind) x 3 backends; observed: to_string, build (sql, values), value_to_string of every "
             "bound value, and (entry cases) build_any / build_collect / build_collect_any / build_collect_into / "
             "build_collect_any_into / second rendering / statement == clone taken before rendering; oracle: engine "
             "tokens of the inline form == engine tokens of the parameterised form with the i-th placeholder replaced "
             "by the tokens of the i-th literal; non-trivial = binds at least one value")


def replay(path):
    import json
    obj = json.load(open(path))
    ctx = vlib.Ctx("C02", "quick")
    ctx.build("fa", model=True)
    case = obj["case"]
    i, m = ctx.run_both([case], "replay")
    print("case:", case)
    print("impl :", qcommon.readable(i[0]))
    print("model:", qcommon.readable(m[0]))
    v = batch_oracle(ctx, [case], i)[0]
    print("oracle:", v or "ok", "| correspondence:", "ok" if i[0] == m[0] else "DIFFERS")
    return 1 if (v or i[0] != m[0]) else 0
