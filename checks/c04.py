"""C04 — identifiers are quoted so that they decode to exactly the supplied name."""
import vlib
from vlib import hexs, unhexs
import gens

ALPHA = ['"', "`", "'", "\\", ".", " ", "a", "é", "[", "]", ";", "-"]
B = ["my", "pg", "sl"]
BASE = "zq"
PG_ONLY = {"typecreatename", "typedropname", "typealtername"}


def positions(ctx):
    return ctx.run_impl(["idenpos"], "pos")[0].split(" ")


def gen_cases(ctx):
    rng = ctx.rng
    pos = positions(ctx)
    ctx.positions = pos
    names = [s for s in gens.shortlex(ALPHA, 2 if ctx.quick else 3) if s]
    names += ['a"; DROP TABLE t; --', "x`y`z", 'He said "hi"', '""', "``", '"', "`"]
    extra = 200 if ctx.quick else 3000
    names += [s for s in (gens.rand_string(rng, 10) for _ in range(extra)) if s and "\0" not in s]
    # long names with a quote character around the engines' name-length limits (63 bytes Postgres, 64 characters
    # MySQL): a name is never cut, least of all between the two halves of a doubled quote
    LONG = ["a" * 62 + '"', "a" * 61 + '"b', "a" * 63 + "`", "é" * 31 + '"' + "x", "a" * 64 + '"`' + "b" * 70,
            '"' * 40, "a" * 130]
    names += LONG
    lines = []
    for n in names:
        # every position for the single-character names and the long ones, a random sample of positions otherwise
        ps = pos if (len(n) == 1 or n in LONG) else rng.sample(pos, 6 if ctx.quick else 10)
        for p in ps:
            for b in (["pg"] if p in PG_ONLY else B):
                lines.append("iden %s %s %s" % (b, p, hexs(n)))
    for b in B:
        for k in range(6):
            lines.append("idenderived %s %d" % (b, k))
    ctx.cov["distribution"] = {"positions": len(pos), "names": len(names), "alphabet": ALPHA, "derived_idens": 6}
    return lines


def subst_tokens(toks, old, new, suffix=()):
    out = []
    for t in toks:
        if t == "I" + old:
            out.append("I" + (new or "-"))
            out.extend(suffix)
        else:
            out.append(t)
    return out


def is_array_type(case):
    f = case.split(" ")
    return len(f) == 4 and f[1] == "pg" and f[2] == "asenum" and unhexs(f[3]).endswith("[]")


def array_base(h):
    return hexs(unhexs(h)[:-2])


def batch_oracle(ctx, lines, impl):
    verdicts = [None] * len(lines)
    derived = [(i, c, o) for i, (c, o) in enumerate(zip(lines, impl)) if c.startswith("idenderived ")]
    for i, c, o in derived:
        f = o.split(" ")
        if len(f) != 2:
            verdicts[i] = "derived identifier did not render: %s" % o[:80]
        elif f[0] != f[1]:
            verdicts[i] = "a derived identifier is quoted as %r but an Alias of the same name as %r" % (unhexs(f[0]), unhexs(f[1]))
    keep = [(c, o) for c, o in zip(lines, impl) if not c.startswith("idenderived ")]
    idx = [i for i, c in enumerate(lines) if not c.startswith("idenderived ")]
    sub = _batch_oracle_positions(ctx, [c for c, _ in keep], [o for _, o in keep])
    for i, v in zip(idx, sub):
        verdicts[i] = v
    return verdicts


def _batch_oracle_positions(ctx, lines, impl):
    verdicts = [None] * len(lines)
    # baselines: the same position with the plain name
    keys = sorted(set((c.split(" ")[1], c.split(" ")[2]) for c in lines))
    base_lines = ["iden %s %s %s" % (b, p, hexs(BASE)) for b, p in keys]
    base_out = dict(zip(keys, ctx.run_impl(base_lines, "base")))
    # model: prepared identifiers; engine tokens of every implementation output
    names = sorted(set((c.split(" ")[1], c.split(" ")[3]) for c in lines) | set((b, hexs(BASE)) for b in B) |
                   set(("pg", array_base(c.split(" ")[3])) for c in lines if is_array_type(c)))
    prep = dict(zip(names, ctx.run_model(["idprep %s %s" % (b, h) for b, h in names], "prep")))
    stmts = sorted(set((c.split(" ")[1], o) for c, o in zip(lines, impl) if o != "PANIC" and " " not in o) |
                   set((k[0], o) for k, o in base_out.items() if o != "PANIC"))
    toks = dict(zip(stmts, ctx.run_model(["etok %s %s" % (b, o) for b, o in stmts], "etok")))
    rendered = 0
    for i, (c, o) in enumerate(zip(lines, impl)):
        _, b, p, h = c.split(" ")
        bo = base_out[(b, p)]
        if bo == "PANIC":
            if o != "PANIC":
                verdicts[i] = "baseline panics but this name renders"
            continue  # unsupported position on this backend
        bt = toks[(b, bo)]
        if bt == "LEXFAIL":
            # the statement is not lexable even with a plain name: not an identifier problem (other properties)
            continue
        btl = bt.split(" ")[:-1]
        if "I" + hexs(BASE) not in btl:
            if "W" + hexs(BASE.upper()) in btl:
                # the name is written, but not as a quoted identifier
                if b != "my" or True:
                    verdicts[i] = "the name is written without identifier quoting at this position"
            continue  # otherwise the backend does not render this position (e.g. MySQL RETURNING)
        rendered += 1
        if o == "PANIC" or " " in o:
            verdicts[i] = "implementation panicked"
            continue
        # correspondence: the code writes exactly the model's prepared identifier at this position
        suffix_toks = []
        if is_array_type(c):
            # Postgres AsEnum: a type name ending in [] denotes the array type of the name before it
            # (documented feature, src/backend/postgres/query.rs): the identifier is the base name and
            # the [] is type syntax written after the closing quote
            h = array_base(h)
            want = unhexs(bo).replace(unhexs(prep[(b, hexs(BASE))]), unhexs(prep[(b, h)]) + "[]")
            suffix_toks = ["C5b", "C5d"]
        else:
            want = unhexs(bo).replace(unhexs(prep[(b, hexs(BASE))]), unhexs(prep[(b, h)]))
        if want != unhexs(o):
            ctx.extra_disagreements.append((c, o, hexs(want)))
        # oracle: the engine's token stream is the baseline's with the name substituted
        t = toks[(b, o)]
        if t == "LEXFAIL":
            verdicts[i] = "the engine lexer rejects the statement"
            continue
        expect = subst_tokens(btl, hexs(BASE), h, suffix_toks)
        if t.split(" ")[:-1] != expect:
            verdicts[i] = "engine token stream differs from the plain-name statement beyond the identifier: %s vs %s" % (
                t, " ".join(expect))
    ctx.cov["positions_rendered_cases"] = rendered
    return verdicts


def describe(case):
    if case.startswith("idenderived "):
        return "derived Iden type #%s on %s" % (case.split(" ")[2], case.split(" ")[1])
    _, b, p, h = case.split(" ")
    return "backend=%s position=%s name=%r" % (b, p, unhexs(h))


def classify(case, out, failure, kfs):
    if case.startswith("idenderived "):
        return None
    _, b, p, h = case.split(" ")
    for k in kfs:
        m = k.get("matcher", {})
        if m.get("backend") == b and m.get("position") == p:
            return k
    return None


def run(ctx):
    return vlib.standard_flow(
        ctx, "base", gen_cases, batch_oracle=batch_oracle, describe=describe, model=False, classify=classify,
        nontrivial=lambda c: c.startswith("idenderived") or any(x in c.split(" ")[3] for x in ("22", "60")),
        rule="names: all strings over a quote-relevant alphabet up to the stated length + injection samples + random "
             "Unicode, at each of the identifier positions of query and schema statements (harness/src/ident.rs), 3 backends; "
             "non-trivial = the name contains a backend quote character")


def replay(path):
    import json
    obj = json.load(open(path))
    ctx = vlib.Ctx("C04", "quick")
    ctx.build("base", model=True)
    case = obj["case"]
    i = ctx.run_impl([case], "replay")
    print("case:", describe(case))
    print("impl :", i[0], repr(unhexs(i[0])) if i[0] != "PANIC" else "")
    v = batch_oracle(ctx, [case], i)[0]
    print("oracle:", v or "ok")
    return 1 if v else 0
