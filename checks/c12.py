"""C12 — Rust values survive the trip through Value unchanged.

Flow (vlib.standard_flow): harness feature set fa (all value types) | regen: tools/valuetypes.py translates
/repo/src/value.rs into coq/Generated/ValueTypes.v | Coq: Properties/C12.v | extracted model extract/c12 |
the same case lines through the real conversions and the model (correspondence) | oracle on the
implementation's own output: the identity (out == in, floats by bit pattern), NULL-of-own-variant for an
absent optional, never absent for a present one, failure (ERR / PANIC, never OK) for a value of another
variant, arity and order for tuples, variant kept by as_null / dummy_value.

The oracle needs "the variant T converts to" for a type T; it takes it from the implementation itself (the
output of `from T <sample>` lines in the same batch), not from the model.

Text syntax of payload tokens and value terms: harness/src/valueterm.rs.
No known finding; observations that are not violations of the property (documented, generated on purpose):
  * Vec<T>::try_from on an array whose element is NULL or of another variant panics (element `unwrap()`),
    it does not return Err — it still "fails instead of returning a wrong value";
  * from_value_tuple panics on arity / constructor mismatch."""
import json
import os

import vlib
from vlib import hexs
import gens

JSON_POOL = 23          # len(JSON_POOL) in harness/src/valueterm.rs

INT_RANGE = {
    "TTinyInt": (-128, 127), "TSmallInt": (-32768, 32767), "TInt": (-2 ** 31, 2 ** 31 - 1), "TBigInt": (-2 ** 63, 2 ** 63 - 1),
    "TTinyUnsigned": (0, 255), "TSmallUnsigned": (0, 65535), "TUnsigned": (0, 2 ** 32 - 1), "TBigUnsigned": (0, 2 ** 64 - 1),
}
# component types of the tuple patterns: same lists as harness/src/valueconv.rs and extract/c12/driver.ml
PATTERNS = {
    "A": ["i32", "String", "f64", "bool", "u8", "i64", "char", "Vec<u8>", "u16", "f32", "i8", "u64"],
    "B": ["i64"] * 12,
    "C": ["Option<i32>", "Option<String>", "Option<f64>", "Option<bool>", "Option<u8>", "Option<i64>", "Option<char>",
          "Option<Vec<u8>>", "Option<u16>", "Option<f32>", "Option<i8>", "Option<u64>"],
    "D": ["Uuid", "NaiveDate", "Decimal", "Json", "Vec<i32>", "Option<Vec<String>>", "DateTime<Utc>", "BigDecimal",
          "time::Date", "IpNetwork", "MacAddress", "u32"],
}
# conversions between two Rust types that map onto the same variant (harness op rtx)
RTX = [("&str", "String"), ("&str", "Cow<str>"), ("&String", "String"), ("&String", "Cow<str>"), ("String", "Cow<str>"),
       ("Cow<str>", "String"), ("Cow<str>", "Cow<str>"), ("&[u8]", "Vec<u8>"),
       ("Uuid", "uuid::fmt::Braced"), ("Uuid", "uuid::fmt::Hyphenated"), ("Uuid", "uuid::fmt::Simple"),
       ("Uuid", "uuid::fmt::Urn"), ("uuid::fmt::Braced", "Uuid"), ("uuid::fmt::Hyphenated", "Uuid"),
       ("uuid::fmt::Simple", "Uuid"), ("uuid::fmt::Urn", "Uuid"), ("uuid::fmt::Braced", "uuid::fmt::Urn"),
       ("uuid::fmt::Simple", "uuid::fmt::Hyphenated")]

STATE = {"rows": None, "translator_error": None}


# ------------------------------------------------------------------------------------------------
# the generated table
# ------------------------------------------------------------------------------------------------

def regen(ctx):
    import regen as R
    ok, err = R.regen_valuetypes()
    STATE["translator_error"] = None if ok else err
    if not ok:
        ctx.log("TRANSLATOR: tools/valuetypes.py cannot translate /repo/src/value.rs: %s" % err)
        ctx.log("TRANSLATOR: keeping the previous Generated/ValueTypes.v for the executable model; the proof "
                "obligation translation_complete is broken")
        ctx.notes.append("translator failed: " + err)


def rows():
    if STATE["rows"] is None:
        import valuetypes
        text = open(os.path.join(vlib.COQ, "Generated", "ValueTypes.v")).read()
        STATE["rows"] = valuetypes.rows_of_generated(text)
    return STATE["rows"]


def row(name):
    for n, r in rows():
        if n == name:
            return r
    raise KeyError(name)


def row_tag(name):
    r = row(name)
    return (r["from"] or r["try"])[0]


def unwrap_type(ty):
    """-> (wrapper, base): 0 = T, 1 = Option<T>, 2 = Vec<T>, 3 = Option<Vec<T>>"""
    if ty == "Vec<u8>":
        return 0, ty
    if ty == "Option<Vec<u8>>":
        return 1, "Vec<u8>"
    if ty.startswith("Option<Vec<"):
        return 3, ty[len("Option<Vec<"):-2]
    if ty.startswith("Option<"):
        return 1, ty[len("Option<"):-1]
    if ty.startswith("Vec<"):
        return 2, ty[len("Vec<"):-1]
    return 0, ty


def type_exprs(name, r):
    """the type expressions over a row that have a ValueType impl"""
    out = []
    if r["try"]:
        out.append(name)
        if r["null"]:
            out.append("Option<%s>" % name)
        if r["from"] and r["arr"] and r["notu8"]:
            out += ["Vec<%s>" % name, "Option<Vec<%s>>" % name]
    return out


# ------------------------------------------------------------------------------------------------
# payload samples
# ------------------------------------------------------------------------------------------------

def f32_samples(rng, n):
    s = [0x00000000, 0x80000000, 0x00000001, 0x807fffff, 0x007fffff, 0x00800000, 0x3f800000, 0xbf800000, 0x7f7fffff,
         0xff7fffff, 0x7f800000, 0xff800000, 0x7fc00000, 0xffc00000, 0x7f800001, 0xff800001, 0x7fffffff, 0xffffffff,
         0x7fc00001, 0x7fa00000, 0x3dcccccd, 0x4b800000]
    for _ in range(n):
        c = rng.randrange(5)
        sign = rng.randrange(2) << 31
        if c == 0:
            s.append(sign | rng.randrange(1, 1 << 23))                    # subnormal
        elif c == 1:
            s.append(sign | (0xff << 23) | rng.randrange(1, 1 << 23))     # NaN payloads
        elif c == 2:
            s.append(sign | (rng.randrange(1, 255) << 23) | rng.randrange(1 << 23))
        else:
            s.append(rng.randrange(1 << 32))
    return ["%08x" % x for x in s]


def f64_samples(rng, n):
    s = [0, 1 << 63, 1, (1 << 63) | ((1 << 52) - 1), (1 << 52) - 1, 1 << 52, 0x3ff0000000000000, 0xbff0000000000000,
         0x7fefffffffffffff, 0xffefffffffffffff, 0x7ff0000000000000, 0xfff0000000000000, 0x7ff8000000000000,
         0xfff8000000000000, 0x7ff0000000000001, 0xfff0000000000001, 0x7fffffffffffffff, 0xffffffffffffffff,
         0x7ff8000000000001, 0x7ff4000000000000, 0x3fb999999999999a, 0x4340000000000000]
    for _ in range(n):
        c = rng.randrange(5)
        sign = rng.randrange(2) << 63
        if c == 0:
            s.append(sign | rng.randrange(1, 1 << 52))
        elif c == 1:
            s.append(sign | (0x7ff << 52) | rng.randrange(1, 1 << 52))
        elif c == 2:
            s.append(sign | (rng.randrange(1, 2047) << 52) | rng.randrange(1 << 52))
        else:
            s.append(rng.randrange(1 << 64))
    return ["%016x" % x for x in s]


def int_samples(tag, rng, ctx, exhaustive16):
    lo, hi = INT_RANGE[tag]
    if hi - lo < 256:
        return [str(x) for x in range(lo, hi + 1)]
    if hi - lo < 65536:
        if exhaustive16:
            return [str(x) for x in range(lo, hi + 1)]
        s = set(range(lo, hi + 1, 97)) | {lo, lo + 1, -1, 0, 1, hi - 1, hi, 255, 256, 127, 128, -128, -129}
        return [str(x) for x in sorted(x for x in s if lo <= x <= hi)]
    s = {lo, lo + 1, -1, 0, 1, hi - 1, hi}
    for k in range(1, 64):
        for d in (-1, 0, 1):
            for sg in (1, -1):
                s.add(sg * (1 << k) + d)
    n = 300 if ctx.quick else 20000
    for _ in range(n):
        s.add(rng.randrange(lo, hi + 1))
        s.add(rng.randrange(-(1 << rng.randrange(1, 64)), 1 << rng.randrange(1, 64)))
    return [str(x) for x in sorted(x for x in s if lo <= x <= hi)]


def opaque_token(tag, rng, small=False):
    def idk(idmax, kmax):
        i = rng.randrange(idmax)
        k = rng.randrange(kmax + 1)
        return "%d" % i if k == 0 else "%d~%d" % (i, k)
    if tag == "TJson":
        return str(rng.randrange(JSON_POOL))
    if tag in ("TChronoDate", "TTimeDate"):
        return str(rng.randrange(60000))
    # time-of-day and date-time ids count nanoseconds (valueterm.rs): sub-second digits of every length
    ns = lambda: rng.choice([0, 0, 1, 999, 1000, 123456789, 123456000, 500000000, 999999999, rng.randrange(10 ** 9)])
    if tag in ("TChronoTime", "TTimeTime"):
        return str(rng.choice([0, 1, 999, 1000, 86399999, rng.randrange(86400)]) * 10 ** 9 % (86400 * 10 ** 9) + ns())
    if tag in ("TChronoDateTime", "TChronoDateTimeUtc", "TChronoDateTimeLocal", "TTimeDateTime"):
        return str(rng.choice([0, 1, 86399, 86400, 2 ** 31 - 1, 2 ** 31, rng.randrange(4 * 10 ** 9)]) * 10 ** 9 + ns())
    if tag in ("TChronoDateTimeWithTimeZone", "TTimeDateTimeWithTimeZone"):
        k = rng.randrange(4)
        i = rng.randrange(4 * 10 ** 9) * 10 ** 9 + ns()
        return "%d" % i if k == 0 else "%d~%d" % (i, k)
    if tag == "TUuid":
        return str(rng.choice([0, 1, 2 ** 128 - 1, 2 ** 64, rng.randrange(2 ** 128)]))
    if tag == "TDecimal":
        return idk(10 ** rng.randrange(1, 13), 6)
    if tag == "TBigDecimal":
        return idk(2 ** rng.randrange(1, 100), 6)
    if tag == "TIpNetwork":
        # id = (2 * address [+ 1 for IPv6]) * 130 + p; p = 0: full-length prefix, else prefix length p - 1 (host bits set)
        a = rng.choice([0, 1, 2 * (2 ** 32 - 1), 2 * rng.randrange(2 ** 32), 2 * rng.randrange(2 ** 118) + 1,      # (the id must fit u128)
                        2 * 0xC0A80105, 2 * 0x0A000001])      # .. 192.168.1.5, 10.0.0.1
        p = rng.choice([0, 0, 25, 9, 17, 1] if a % 2 == 0 else [0, 0, 65, 49, 1])
        return "%d" % (a * 130 + p)
    if tag == "TMacAddress":
        return str(rng.choice([0, 2 ** 48 - 1, rng.randrange(2 ** 48)]))
    raise KeyError(tag)


def char_samples(rng, n):
    s = [0, 0x27, 0x41, 0x7f, 0x80, 0xff, 0x7ff, 0x800, 0xd7ff, 0xe000, 0xfffd, 0xffff, 0x10000, 0x1f600, 0x10ffff]
    s += [ord(gens.rand_unicode_char(rng)) for _ in range(n)]
    return ["%x" % c for c in s]


PARSEABLE_STRINGS = ["936da01f-9abd-4d9d-80c7-02af85c822a8", "936da01f9abd4d9d80c702af85c822a8",
                      "{936da01f-9abd-4d9d-80c7-02af85c822a8}", "urn:uuid:936da01f-9abd-4d9d-80c7-02af85c822a8",
                      "1", "-1", "1.5", "true", "2020-01-01", "12:34:56", "2020-01-01 12:34:56", "2020-01-01T12:34:56Z",
                      "2020-01-01 12:34:56 +00:00", "10.0.0.1/8", "::1/128", "00:11:22:33:44:55", "{}", "[1]", "a",
                      "[1.0,2.0]"]


def string_samples(rng, n):
    s = ["", "a", "null", "NULL", "'", "\0", "é", "\U0001F600", "a\0b", " " * 3, "x" * 300,
         # texts that PARSE as a value of another type: extracting a String as that type must still fail
         "936da01f-9abd-4d9d-80c7-02af85c822a8", "936da01f9abd4d9d80c702af85c822a8",
         "{936da01f-9abd-4d9d-80c7-02af85c822a8}", "urn:uuid:936da01f-9abd-4d9d-80c7-02af85c822a8",
         "1", "-1", "1.5", "true", "2020-01-01", "12:34:56", "2020-01-01 12:34:56", "2020-01-01T12:34:56Z",
         "2020-01-01 12:34:56 +00:00", "10.0.0.1/8", "::1/128", "00:11:22:33:44:55", "{}", "[1]", "\"a\"", "[1.0,2.0]"]
    s += [gens.rand_string(rng, 24) for _ in range(n)]
    return [hexs(x) for x in s]


def bytes_samples(rng, n):
    s = [b""] + [bytes([b]) for b in range(256)] + [b"\x00\xff", bytes(range(256))]
    s += [bytes(rng.randrange(256) for _ in range(rng.randrange(0, 40))) for _ in range(n)]
    return [x.hex() if x else "-" for x in s]


def vector_samples(rng, n):
    s = ["-", "00000000", "80000000", "7fc00000", "3f800000.bf800000", "7fc00001.ffc00000.7f800000.ff800000.00000001"]
    for _ in range(n):
        s.append(".".join(rng.choice(f32_samples(rng, 4)) for _ in range(rng.randrange(1, 6))))
    return s


def samples_for_tag(tag, ctx, rng, exhaustive16=False):
    q = ctx.quick
    if tag == "TBool":
        return ["0", "1"]
    if tag in INT_RANGE:
        return int_samples(tag, rng, ctx, exhaustive16)
    if tag == "TFloat":
        return f32_samples(rng, 400 if q else 20000)
    if tag == "TDouble":
        return f64_samples(rng, 400 if q else 20000)
    if tag == "TString":
        return string_samples(rng, 150 if q else 5000)
    if tag == "TChar":
        return char_samples(rng, 150 if q else 5000)
    if tag == "TBytes":
        return bytes_samples(rng, 100 if q else 3000)
    if tag == "TVector":
        return vector_samples(rng, 40 if q else 1000)
    seen, out = set(), []
    for _ in range(40 if q else 1500):
        t = opaque_token(tag, rng)
        if t not in seen:
            seen.add(t)
            out.append(t)
    return out


def few(tag, ctx, rng, k=2):
    """k small distinct samples of a variant's payload (for matrices, vectors, tuples)"""
    s = samples_for_tag(tag, FEW_CTX, rng)
    if tag in INT_RANGE:
        lo, hi = INT_RANGE[tag]
        s = [str(hi), str(lo), "0", "1", str(rng.randrange(lo, hi + 1))]
    out = []
    for x in s:
        if x not in out:
            out.append(x)
    rng.shuffle(out)
    return out[:k]


class _Few:
    quick = True


FEW_CTX = _Few()


def sample_for_type(ty, rng):
    """one token for a type expression"""
    wrap, base = unwrap_type(ty)
    tag = row_tag(base)
    if wrap == 0:
        return few(tag, None, rng, 1)[0]
    if wrap == 1:
        return "N" if rng.randrange(3) == 0 else few(tag, None, rng, 1)[0]
    lst = "[%s]" % ",".join(few(tag, None, rng, 1)[0] for _ in range(rng.randrange(0, 4)))
    if wrap == 2:
        return lst
    return "N" if rng.randrange(3) == 0 else lst


# ------------------------------------------------------------------------------------------------
# case generation
# ------------------------------------------------------------------------------------------------

def tag_name(tag):
    return tag[1:]


def gen_cases(ctx):
    rng = ctx.rng
    lines = []
    dist = {}

    def add(kind, l):
        lines.append(l)
        dist[kind] = dist.get(kind, 0) + 1

    R = rows()
    exhaustive16 = not ctx.quick
    tag_samples = {}
    for name, r in R:
        tag = (r["from"] or r["try"])[0]
        if tag not in tag_samples:
            tag_samples[tag] = samples_for_tag(tag, ctx, rng, exhaustive16)
    # 1. anchor lines: what variant does the implementation convert each type to (used by the oracle)
    for name, r in R:
        if r["from"]:
            add("from", "from %s %s" % (name, tag_samples[r["from"][0]][0]))
    # 2. round trips T, Option<T>; From alone; null
    for name, r in R:
        tag = (r["from"] or r["try"])[0]
        S = tag_samples[tag]
        if r["from"] and r["try"]:
            for tok in S:
                add("rt", "rt %s %s" % (name, tok))
            if r["null"]:
                add("rt-option", "rt Option<%s> N" % name)
                sub = S if (tag in INT_RANGE and len(S) <= 65536 and (not ctx.quick or len(S) <= 256)) else S[:200 if ctx.quick else 5000]
                for tok in sub:
                    add("rt-option", "rt Option<%s> %s" % (name, tok))
        if r["from"]:
            for tok in S[:30]:
                add("from", "from %s %s" % (name, tok))
            if r["null"]:
                add("from", "from Option<%s> N" % name)
                add("from", "from Option<%s> %s" % (name, S[0]))
        if r["null"]:
            add("null", "null %s" % name)
        if r["from"] and r["try"] and r["arr"] and r["notu8"]:
            add("null", "null Vec<%s>" % name)
            add("rt-vec", "rt Vec<%s> []" % name)
            add("rt-vec", "rt Option<Vec<%s>> N" % name)
            add("rt-vec", "rt Option<Vec<%s>> []" % name)
            for _ in range(12 if ctx.quick else 300):
                lst = "[%s]" % ",".join(rng.choice(S) for _ in range(rng.randrange(1, 6)))
                add("rt-vec", "rt Vec<%s> %s" % (name, lst))
                add("rt-vec", "rt Option<Vec<%s>> %s" % (name, lst))
                add("from", "from Vec<%s> %s" % (name, lst))
    # 3. types sharing a variant
    names = [n for n, _ in R]
    for src, dst in RTX:
        if src in names and dst in names:
            for tok in tag_samples[row_tag(src)][:60 if ctx.quick else 2000]:
                add("rtx", "rtx %s %s %s" % (src, dst, tok))
    # 4. the complete (source value) x (target type expression) matrix
    sources = []
    tags = []
    for name, r in R:
        tag = (r["from"] or r["try"])[0]
        if tag not in tags:
            tags.append(tag)
    for tag in tags:
        sources.append("%s:N" % tag_name(tag))
        for tok in few(tag, ctx, rng, 2):
            sources.append("%s:%s" % (tag_name(tag), tok))
    # strings whose text parses as a value of another type: still a String, extraction as anything else must fail
    for txt in PARSEABLE_STRINGS:
        sources.append("String:%s" % hexs(txt))
    arr_tags = [t for t in tags if t != "TVector"]
    for tag in arr_tags:
        e = tag_name(tag)
        toks = few(tag, ctx, rng, 2)
        sources.append("Array:%s:N" % e)
        sources.append("Array:%s:[]" % e)
        sources.append("Array:%s:[%s]" % (e, ",".join("%s:%s" % (e, t) for t in toks)))
    # arrays whose declared element type and elements disagree, NULL elements, nested arrays
    sources += ["Array:Int:[Int:1,Int:N]", "Array:Int:[Int:N]", "Array:Int:[BigInt:1]", "Array:BigInt:[Int:1]",
                "Array:String:[String:61,Int:1]", "Array:Int:[Array:Int:[Int:1]]", "Array:Float:[Float:7fc00000,Float:N]",
                "Array:Uuid:[Uuid:5,Uuid:N]", "Array:Bool:[Int:1]"]
    targets = []
    for name, r in R:
        targets += type_exprs(name, r)
    for s in sources:
        for ty in targets:
            add("matrix", "try %s %s" % (ty, s))
        add("as_null", "asnull %s" % s)
        add("dummy", "dummy %s" % s)
    dist["matrix_sources"] = len(sources)
    dist["matrix_targets"] = len(targets)
    # 5. the derived `==` (ties veq_derived, used by Option<T>::try_from)
    pool = ["Float:N", "Float:7fc00000", "Float:7fc00001", "Float:00000000", "Float:80000000", "Float:3f800000",
            "Double:N", "Double:7ff8000000000000", "Double:0000000000000000", "Double:8000000000000000", "Int:N", "Int:0",
            "BigInt:N", "BigInt:0", "String:N", "String:-", "String:61", "Bytes:-", "Bytes:61", "Char:61", "Bool:0", "Bool:1",
            "Uuid:N", "Uuid:5", "Uuid:6", "Decimal:5", "Decimal:5~2", "Vector:N", "Vector:-", "Vector:7fc00000",
            "Vector:00000000", "Vector:80000000", "Array:Int:N", "Array:Int:[]", "Array:Int:[Int:1]", "Array:Int:[Int:N]",
            "Array:BigInt:N", "Array:Float:[Float:7fc00000]", "Array:Float:[Float:00000000]", "Array:Float:[Float:80000000]",
            "Json:0", "Json:3", "Json:4", "Json:5", "ChronoDateTimeWithTimeZone:100", "ChronoDateTimeWithTimeZone:100~1"]
    for a in pool:
        for b in pool:
            add("deq", "deq %s %s" % (a, b))
    # 6. tuples
    for pat, tys in PATTERNS.items():
        for n in range(1, 13):
            for _ in range(6 if ctx.quick else 150):
                toks = [sample_for_type(t, rng) for t in tys[:n]]
                add("tuple-roundtrip", "tup %s %d %d %s" % (pat, n, n, " ".join(toks)))
                add("tuple-into", "tupinto %s %d %s" % (pat, n, " ".join(toks)))
            for m in range(1, 13):
                if m != n:
                    toks = [sample_for_type(t, rng) for t in tys[:n]]
                    add("tuple-arity-mismatch", "tup %s %d %d %s" % (pat, n, m, " ".join(toks)))
    # order: all components of the same type with distinct values
    for n in range(1, 13):
        vals = list(range(100, 100 + n))
        for _ in range(4 if ctx.quick else 50):
            rng.shuffle(vals)
            add("tuple-order", "tup B %d %d %s" % (n, n, " ".join(str(v) for v in vals)))
            add("tuple-order", "tupinto B %d %s" % (n, " ".join(str(v) for v in vals)))
    # hand-built ValueTuples of the wrong constructor / length / element variant
    for n in range(1, 13):
        elems = ["BigInt:%d" % (i + 1) for i in range(n)]
        shapes = ["Many[%s]" % ",".join(elems)]
        if n == 1:
            shapes.append("One(%s)" % elems[0])
        if n == 2:
            shapes.append("Two(%s)" % ",".join(elems))
        if n == 3:
            shapes.append("Three(%s)" % ",".join(elems))
        for sh in shapes:
            for m in range(1, 13):
                add("tuple-from", "tupfrom B %d %s" % (m, sh))
        bad = list(elems)
        bad[rng.randrange(n)] = "Int:7"
        add("tuple-from", "tupfrom B %d %s" % (n, "Many[%s]" % ",".join(bad) if n > 3 else
                                               ["One(%s)", "Two(%s)", "Three(%s)"][n - 1] % ",".join(bad)))
        nul = list(elems)
        nul[rng.randrange(n)] = "BigInt:N"
        add("tuple-from", "tupfrom B %d %s" % (n, "Many[%s]" % ",".join(nul) if n > 3 else
                                               ["One(%s)", "Two(%s)", "Three(%s)"][n - 1] % ",".join(nul)))
    ctx.cov["distribution"] = dist
    ctx.cov["exhaustive_8bit"] = True
    ctx.cov["exhaustive_16bit"] = exhaustive16
    shared = [(a, b) for a, ra in R for b, rb in R if a != b and ra["from"] and rb["try"] and ra["from"][0] == rb["try"][0]]
    ctx.cov["rows"] = len(R)
    ctx.cov["rows_sharing_a_variant"] = ["%s -> %s" % p for p in shared]
    return lines


# ------------------------------------------------------------------------------------------------
# oracle on the implementation's own output
# ------------------------------------------------------------------------------------------------

def split_list(s, op="[", cl="]"):
    assert s[0] == op and s[-1] == cl, s
    inner = s[1:-1]
    if not inner:
        return []
    out, depth, start = [], 0, 0
    for i, c in enumerate(inner):
        if c in "[(":
            depth += 1
        elif c in ")]":
            depth -= 1
        elif c == "," and depth == 0:
            out.append(inner[start:i])
            start = i + 1
    out.append(inner[start:])
    return out


def parse_term(term):
    """-> ('v', Tag, tok|None) or ('a', Elem, [terms]|None)"""
    tag, rest = term.split(":", 1)
    if tag == "Array":
        e, rest = rest.split(":", 1)
        return ("a", e, None if rest == "N" else split_list(rest))
    return ("v", tag, None if rest == "N" else rest)


def own_variants(lines, impl):
    """{type: variant the implementation builds for Value::from(x: type)}, {type: array element variant}"""
    own, own_arr = {}, {}
    for c, o in zip(lines, impl):
        f = c.split(" ")
        if f[0] != "from" or ":" not in o:
            continue
        wrap, base = unwrap_type(f[1])
        t = parse_term(o)
        if wrap == 0 and t[0] == "v":
            own.setdefault(base, set()).add(t[1])
        if wrap == 2 and t[0] == "a":
            own_arr.setdefault(base, set()).add(t[1])
    return own, own_arr


def expected_try(ty, term, own, own_arr):
    """what a faithful extraction must answer: 'OK tok', or None = must fail (ERR or PANIC, never OK)"""
    wrap, base = unwrap_type(ty)
    t = parse_term(term)
    o = own.get(base)
    if not o or len(o) != 1:
        return "?"
    o = next(iter(o))
    if wrap in (0, 1):
        if t[0] != "v" or t[1] != o:
            return None
        if t[2] is None:
            return "OK N" if wrap == 1 else None
        return "OK " + t[2]
    oa = own_arr.get(base)
    if not oa or len(oa) != 1:
        return "?"
    oa = next(iter(oa))
    if t[0] != "a" or t[1] != oa:
        return None
    if t[2] is None:
        return "OK N" if wrap == 3 else None
    toks = []
    for e in t[2]:
        pe = parse_term(e)
        if pe[0] != "v" or pe[1] != o or pe[2] is None:
            return None
        toks.append(pe[2])
    return "OK [%s]" % ",".join(toks)


def payload_of_value_term(ty, term):
    """the token a value term carries, in the syntax of the type expression ty"""
    wrap, base = unwrap_type(ty)
    t = parse_term(term)
    if t[0] == "v":
        return "N" if t[2] is None else t[2]
    if t[2] is None:
        return "N"
    return "[%s]" % ",".join(payload_of_value_term(base, e) for e in t[2])


def same_variant(a, b):
    ta, tb = parse_term(a), parse_term(b)
    return ta[0] == tb[0] and ta[1] == tb[1]


def is_null_term(a):
    return parse_term(a)[2] is None


def tuple_shape(n):
    return "One" if n == 1 else "Two" if n == 2 else "Three" if n == 3 else "Many"


def oracle_one(case, out, own, own_arr):
    f = case.split(" ")
    op = f[0]
    if out.startswith("CRASH") or out.startswith("UNKNOWN-OP") or out == "NOIMPL":
        return "harness did not run the case: %s" % out
    if op == "rt":
        if out != "OK " + f[2]:
            return "%s::try_from(Value::from(x)) = %s, expected OK %s (x itself)" % (f[1], out, f[2])
    elif op == "rtx":
        if out != "OK " + f[3]:
            return "%s::try_from(Value::from(x: %s)) = %s, expected OK %s" % (f[2], f[1], out, f[3])
    elif op == "from":
        if ":" not in out:
            return "Value::from did not produce a value: %s" % out
        wrap, base = unwrap_type(f[1])
        if payload_of_value_term(f[1], out) != f[2]:
            return "Value::from(%s) carries payload %s" % (f[2], payload_of_value_term(f[1], out))
        o = own.get(base) if wrap in (0, 1) else own_arr.get(base)
        if o and len(o) != 1:
            return "Value::from::<%s> builds different variants: %s" % (f[1], sorted(o))
        if o and parse_term(out)[1] not in o:
            return "Value::from(%s: %s) = %s is not of the variant Value::from::<%s> builds (%s)" % (
                f[2], f[1], out, base, sorted(o))
    elif op == "null":
        wrap, base = unwrap_type(f[1])
        o = own.get(base) if wrap == 0 else own_arr.get(base)
        if ":" not in out or not is_null_term(out):
            return "null() is not a NULL: %s" % out
        if o and parse_term(out)[1] not in o:
            return "%s::null() = %s is not the NULL of the variant Value::from builds (%s)" % (f[1], out, sorted(o))
    elif op == "try":
        e = expected_try(f[1], f[2], own, own_arr)
        if e == "?":
            return None
        if e is None:
            if out.startswith("OK"):
                return "%s::try_from(%s) = %s: a value of another variant / a NULL was extracted" % (f[1], f[2], out)
        elif out != e:
            return "%s::try_from(%s) = %s, expected %s" % (f[1], f[2], out, e)
    elif op == "asnull":
        if ":" not in out or not same_variant(f[1], out) or not is_null_term(out):
            return "as_null(%s) = %s: not the NULL of the same variant" % (f[1], out)
    elif op == "dummy":
        if ":" not in out or not same_variant(f[1], out) or is_null_term(out):
            return "dummy_value(%s) = %s: not a non-NULL value of the same variant" % (f[1], out)
    elif op == "tup":
        n, m = int(f[2]), int(f[3])
        if n == m:
            if out != "OK " + " ".join(f[4:]):
                return "tuple of arity %d came back as %s" % (n, out)
        elif out.startswith("OK"):
            return "a tuple of arity %d was extracted as a tuple of arity %d: %s" % (n, m, out)
    elif op == "tupinto":
        n = int(f[2])
        if " | " not in out:
            return "into_value_tuple did not produce a tuple: %s" % out
        shown, it = out.split(" | ")
        items = it.split(" ") if it else []
        if not shown.startswith(tuple_shape(n)):
            return "arity %d built %s" % (n, shown)
        tys = PATTERNS[f[1]][:n]
        got = [payload_of_value_term(ty, t) for ty, t in zip(tys, items)]
        if len(items) != n or got != f[3:]:
            return "into_value_tuple(..).into_iter() yields %s, components were %s" % (items, f[3:])
    elif op == "tupfrom":
        m = int(f[2])
        term = f[3]
        shape = term[:term.index("(")] if "(" in term and not term.startswith("Many") else "Many"
        elems = split_list(term[len(shape):], "(" if shape != "Many" else "[", ")" if shape != "Many" else "]")
        ok = shape == tuple_shape(m) and len(elems) == m
        exp = []
        if ok:
            for ty, e in zip(PATTERNS[f[1]][:m], elems):
                x = expected_try(ty, e, own, own_arr)
                if x == "?":
                    return None
                if x is None:
                    ok = False
                    break
                exp.append(x[3:])
        if ok:
            if out != "OK " + " ".join(exp):
                return "from_value_tuple(%s) = %s, expected OK %s" % (term, out, " ".join(exp))
        elif out.startswith("OK"):
            return "from_value_tuple(%s) as arity %d returned %s instead of failing" % (term, m, out)
    return None


def batch_oracle(ctx, lines, impl):
    own, own_arr = own_variants(lines, impl)
    ctx.cov["variant_built_by_From"] = {k: sorted(v) for k, v in sorted(own.items())}
    return [oracle_one(c, o, own, own_arr) for c, o in zip(lines, impl)]


def describe(case):
    f = case.split(" ")
    op = f[0]
    if op == "rt":
        return "<%s as ValueType>::try_from(Value::from(x)) with x = %s" % (f[1], f[2])
    if op == "rtx":
        return "<%s as ValueType>::try_from(Value::from(x: %s)) with x = %s" % (f[2], f[1], f[3])
    if op == "from":
        return "Value::from(x: %s) with x = %s" % (f[1], f[2])
    if op == "null":
        return "<%s as Nullable>::null()" % f[1]
    if op == "try":
        return "<%s as ValueType>::try_from(%s)" % (f[1], f[2])
    if op == "asnull":
        return "Value::as_null(%s)" % f[1]
    if op == "dummy":
        return "Value::dummy_value(%s)" % f[1]
    if op == "deq":
        return "%s == %s (PartialEq for Value without hashable-value)" % (f[1], f[2])
    if op == "tup":
        return "<(%s)>::from_value_tuple((%s): (%s))" % (", ".join(PATTERNS[f[1]][:int(f[3])]), ", ".join(f[4:]),
                                                         ", ".join(PATTERNS[f[1]][:int(f[2])]))
    if op == "tupinto":
        return "(%s).into_value_tuple() with components %s" % (", ".join(PATTERNS[f[1]][:int(f[2])]), " ".join(f[3:]))
    if op == "tupfrom":
        return "<(%s)>::from_value_tuple(ValueTuple::%s)" % (", ".join(PATTERNS[f[1]][:int(f[2])]), f[3])
    return case


def nontrivial(case):
    return case.split(" ")[0] not in ("null", "asnull", "dummy", "deq")


def second_configuration(ctx, failures):
    """the property quantifies over configurations: with hashable-value the `v == T::null()` of Option<T>::try_from goes
    through the hand-written PartialEq of mod hashable_value instead of the derived one.  The same stream (all but the
    `==` lines, whose answer legitimately depends on that feature for NaN) runs on that build; the model is the same."""
    try:
        exe = vlib.harness_build("fb")
    except vlib.BuildError as e:
        ctx.violation({"kind": "build-failure", "detail": str(e)[-3000:],
                       "theorem_or_correspondence": "harness build (hashable-value) against /repo"}, no_input=True)
        return
    lines = [l for l in ctx.last_lines if l.split(" ")[0] != "deq"]
    fa = dict(zip(ctx.last_lines, ctx.last_impl))
    out = vlib.run_exe(exe, lines, ctx.work, "cases.fb.impl")
    verdicts = batch_oracle(ctx, lines, out)
    differ = 0
    first = None
    for c, o, v in zip(lines, out, verdicts):
        if v:
            failures.append((c, o, "with feature hashable-value: " + v))
        elif o != fa[c]:
            differ += 1
            first = first or (c, o, fa[c])
    ctx.cov["second_configuration"] = {"features": "all-types + hashable-value + thread-safe", "cases": len(lines),
                                       "outputs_differing_from_first_configuration": differ}
    ctx.cov["evaluations"] += len(lines)
    ctx.cov["traces_validated_against_impl"] += len(lines)
    if differ and not failures:
        c, o, a = first
        ctx.violation({"kind": "correspondence-broken", "theorem_or_correspondence":
                       "model/implementation correspondence for C12 (hashable-value build)", "case": c,
                       "case_readable": describe(c), "impl_output": o, "model_output": a, "n_disagreements": differ},
                      no_input=True)


def run(ctx):
    ctx.assumptions += [
        "values of the payload crates (serde_json, chrono, time, rust_decimal, bigdecimal, uuid, ipnetwork, mac_address) are "
        "opaque identities in the model (equal ids = equal Rust values); the harness builds them from integer ids and "
        "recomputes the id from the extracted value",
        "Box::new / *x and the representation changes (&str/&String/Cow<str> <-> String, &[u8] <-> Vec<u8>, uuid::fmt "
        "wrappers <-> Uuid, DateTime<FixedOffset> rebuilt from naive_utc + offset.fix()) are modelled as identity on the "
        "content; tied by the correspondence, not proved about the crates",
        "tools/valuetypes.py (translator over the source text of src/value.rs; accepts only the item shapes it knows)",
    ]
    return vlib.standard_flow(
        ctx, "fa", gen_cases, batch_oracle=batch_oracle, describe=describe, nontrivial=nontrivial, regen=regen,
        model_name="c12", extra=second_configuration,
        rule="every row of the table generated from src/value.rs: i8/u8 exhaustively, i16/u16 exhaustively (thorough) or "
             "strided (quick), boundary and random 32/64-bit integers, f32/f64 bit patterns of every class (zeros, "
             "subnormals, normals, infinities, quiet/signalling NaNs with payloads), chars incl. non-BMP, strings, bytes, "
             "payload-crate values built from ids; Option<T>, Vec<T>, Option<Vec<T>> of each; the complete (source value "
             "x target type expression) matrix incl. NULLs and arrays; tuples of arity 1..12 in four type patterns and "
             "every arity pair; non-trivial = everything except null/as_null/dummy/== lines")


def support_lines(case):
    """anchor lines the oracle needs for a single case (what variant the types involved convert to)"""
    f = case.split(" ")
    tys = []
    if f[0] in ("rt", "from", "try", "null"):
        tys = [f[1]]
    elif f[0] == "rtx":
        tys = [f[1], f[2]]
    elif f[0] in ("tup", "tupinto", "tupfrom"):
        tys = PATTERNS[f[1]]
    import random
    rng = random.Random(1)
    out = []
    for ty in tys:
        wrap, base = unwrap_type(ty)
        try:
            r = row(base)
        except KeyError:
            continue
        if r["from"]:
            out.append("from %s %s" % (base, sample_for_type(base, rng)))
            if r["arr"] and r["notu8"] and r["try"]:
                out.append("from Vec<%s> [%s]" % (base, sample_for_type(base, rng)))
    return out


def replay(path):
    obj = json.load(open(path))
    ctx = vlib.Ctx("C12", "quick")
    try:
        ctx.build("fa", model=True, model_name="c12")
    except vlib.BuildError as e:
        print(e)
        return 1
    if "case" not in obj:
        print(json.dumps(obj, indent=1)[:3000])
        print("no failing input recorded (proof or correspondence broken); re-run ./check C12 quick")
        return 1
    case = obj["case"]
    lines = support_lines(case) + [case]
    i, m = ctx.run_both(lines, "replay")
    print("case:", describe(case))
    print("impl :", i[-1])
    print("model:", m[-1])
    v = batch_oracle(ctx, lines, i)[-1]
    print("oracle:", v or "ok")
    if not v and case.split(" ")[0] != "deq":
        i2 = vlib.run_exe(vlib.harness_build("fb"), lines, ctx.work, "replay.fb.impl")
        print("impl (hashable-value build):", i2[-1])
        v = batch_oracle(ctx, lines, i2)[-1]
        print("oracle (hashable-value build):", v or "ok")
    return 1 if v else 0
