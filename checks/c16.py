"""C16 — the SQL tokenizer is lossless and always terminates."""
import vlib
from vlib import hexs, unhexs
import gens
import regen

ALPHA = [" ", "\t", "a", "1", "_", "$", "?", "'", '"', "`", "[", "]", "\\", "(", "é", "　"]


def gen_cases(ctx):
    lines = []
    maxlen = 3 if ctx.quick else 4
    for s in gens.shortlex(ALPHA, maxlen):
        lines.append("tok %s" % hexs(s))
    n = 4000 if ctx.quick else 100000
    for _ in range(n):
        r = ctx.rng.random()
        if r < 0.5:
            s = "".join(ctx.rng.choice(ALPHA + ["''", '""', "``", "\\'", "x", "\n", "\r"]) for _ in range(ctx.rng.randrange(4, 14)))
        else:
            s = gens.rand_string(ctx.rng, 16)
        lines.append("tok %s" % hexs(s))
    # quote-focused exhaustive stream: runs of backslashes before delimiters, doubled delimiters, marks inside quotes
    qalpha = ["'", '"', "\\", "?", "a", " "]
    qmax = 6 if ctx.quick else 8
    nq = 0
    for s in gens.shortlex(qalpha, qmax):
        if len(s) > maxlen:
            lines.append("tok %s" % hexs(s))
            nq += 1
    # piecewise templates (the language of the Coq theorem C11_tokenize_pieces): the expected token list is known
    # by construction - one token per piece
    npieces = 3000 if ctx.quick else 60000
    for _ in range(npieces):
        text, want = piecewise(ctx.rng)
        line = "tok %s" % hexs(text)
        PIECES[line] = want
        lines.append(line)
    ctx.cov["distribution"] = {"exhaustive_alphabet": [hex(ord(c)) for c in ALPHA], "exhaustive_maxlen": maxlen,
                               "quote_alphabet": qalpha, "quote_exhaustive_maxlen": qmax, "quote_strings": nq,
                               "piecewise_templates": npieces, "random": n}
    return lines


PIECES = {}
CLOSER = {"'": "'", '"': '"', "`": "`", "[": "]"}


def piecewise(rng):
    """a text assembled from non-fusing pieces and its expected tokens [(kind, text)]:
    Q = well-formed quoted text (plain chars, doubled delimiters, backslash + any char: runs of backslashes of any
    length before a delimiter included), U = word, S = blank run, P = one punctuation character"""
    out = []
    prev = None
    for _ in range(rng.randrange(1, 7)):
        kinds = ["Q", "U", "S", "P"]
        if prev in ("U", "S"):
            kinds.remove(prev)          # two words / two blank runs in a row would fuse
        k = rng.choice(kinds)
        if k == "Q":
            st = rng.choice(list(CLOSER))
            body = ""
            for _ in range(rng.randrange(0, 5)):
                c = rng.random()
                if c < 0.35:
                    # (inside [..] a further [ is a plain character: only ] closes the token)
                    body += rng.choice(["a", "?", "$", " ", "1", "é"] + [d for d in "'\"`[" if CLOSER.get(d, d) != CLOSER[st]]
                                       + (["[", "[?"] if st == "[" else []))
                elif c < 0.55 and st != "[":
                    body += CLOSER[st] * 2                      # doubled delimiter
                else:
                    # a run of backslash-escaped characters: \\ .. \' etc. (each backslash escapes the next char)
                    for _ in range(rng.randrange(1, 4)):
                        body += "\\" + rng.choice(["\\", CLOSER[st], "a", "?", st])
            text = st + body + CLOSER[st]
            # the closing delimiter must not be followed by the same delimiter (it would read as a doubled one)
            if out and out[-1][0] == "Q" and st != "[" and out[-1][1][-1] == st:
                out.append(("S", " "))
            out.append(("Q", text))
        elif k == "U":
            out.append(("U", rng.choice(["a", "ab1", "x_y", "a$1", "SELECT", "é9"])))
        elif k == "S":
            out.append(("S", rng.choice([" ", "  ", " \t", "\n "])))
        else:
            out.append(("P", rng.choice(["?", "$", "=", "(", ")", ",", ";", "-", "\\", "]", ".", "*"])))
        prev = out[-1][0]
    # repair fusions introduced by the punctuation / quote choices
    fixed = []
    for kind, text in out:
        if fixed:
            pk, pt = fixed[-1]
            if pk == "Q" and kind == "Q" and pt[-1] == text[0] and pt[0] != "[":
                fixed.append(("S", " "))
            elif pk == "U" and kind == "P" and text in ("$",):
                fixed.append(("S", " "))       # `$` continues a word
            elif pk == "U" and kind == "U":
                fixed.append(("S", " "))
            elif pk == "S" and kind == "S":
                continue
        fixed.append((kind, text))
    return "".join(t for _, t in fixed), fixed


def oracle(case, out):
    h = case.split(" ")[1]
    if not out.endswith("."):
        return "implementation did not produce tokens: %s" % out
    toks = out.split(" ")[:-1]
    cat = b""
    for t in toks:
        body = t[1:].split("/")[0]
        b = vlib.unhex(body)
        if not b:
            return "empty token in %s" % out
        cat += b
    if cat != vlib.unhex(h):
        return "concatenated tokens %s differ from the input %s" % (cat.hex(), h)
    # piecewise templates: one token per piece, of the piece's kind (quoted text is ONE token whatever it contains)
    want = PIECES.get(case)
    if want is not None:
        got = [(t[0], vlib.unhex(t[1:].split("/")[0]).decode("utf-8", "replace")) for t in toks]
        if got != want:
            return "tokens %r, the pieces are %r" % (got, want)
    return None


def describe(case):
    return "Tokenizer::new(%r)" % unhexs(case.split(" ")[1])


def extra(ctx, failures):
    maxlen = 5 if ctx.quick else 6
    alpha = ",".join("%x" % ord(c) for c in ALPHA)
    rc, out = vlib.sh([ctx.harness, "--enum", "tok", str(maxlen), alpha], timeout=3000)
    last = out.strip().splitlines()[-1] if out.strip() else ""
    ctx.log("in-process enumeration:", last)
    ctx.cov["exhaustive"] = True
    ctx.cov["impl_exhaustive_enumeration"] = {"alphabet": alpha, "maxlen": maxlen, "result": last}
    if not last.startswith("ENUM") or not last.endswith("fails=0"):
        for l in out.splitlines():
            if l.startswith("FAIL"):
                case = "tok %s" % l.split(" ")[2]
                o = ctx.run_impl([case], "replay")[0]
                f = oracle(case, o) or "in-process oracle failed (panic or non-termination guard)"
                failures.append((case, o, f))
        if not failures:
            failures.append(("enum", out[-500:], "in-process enumeration did not complete"))


def run(ctx):
    return vlib.standard_flow(
        ctx, "base", gen_cases, oracle=oracle, describe=describe, extra=extra,
        regen=lambda c: regen.regen_alpha(c.harness),
        nontrivial=lambda c: any(x in c for x in ("27", "22", "60", "5b", "5c")),
        rule="all strings over the token-relevant alphabet up to the stated length, plus random strings "
             "(half over the alphabet with doubled/escaped delimiters, half random Unicode); "
             "non-trivial = contains a quote delimiter or a backslash")


def replay(path):
    import json
    obj = json.load(open(path))
    ctx = vlib.Ctx("C16", "quick")
    ctx.build("base", model=True)
    case = obj["case"]
    i, m = ctx.run_both([case], "replay")
    print("case:", describe(case))
    print("impl :", i[0])
    print("model:", m[0])
    f = oracle(case, i[0])
    print("oracle:", f or "ok")
    return 1 if f else 0
