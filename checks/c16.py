"""C16 — the SQL tokenizer is lossless and always terminates."""
import vlib
from vlib import hexs, unhexs
import gens
import regen

ALPHA = [" ", "\t", "a", "1", "_", "$", "?", "'", '"', "`", "[", "]", "\\", "(", "é", "　"]


def gen_cases(ctx):
    lines = []
    maxlen = 3 if ctx.quick else 4
    for s in gens.shortlex(ALPHA, maxlen):
        lines.append("tok %s" % hexs(s))
    n = 4000 if ctx.quick else 100000
    for _ in range(n):
        r = ctx.rng.random()
        if r < 0.5:
            s = "".join(ctx.rng.choice(ALPHA + ["''", '""', "``", "\\'", "x", "\n", "\r"]) for _ in range(ctx.rng.randrange(4, 14)))
        else:
            s = gens.rand_string(ctx.rng, 16)
        lines.append("tok %s" % hexs(s))
    ctx.cov["distribution"] = {"exhaustive_alphabet": [hex(ord(c)) for c in ALPHA], "exhaustive_maxlen": maxlen,
                               "random": n}
    return lines


def oracle(case, out):
    h = case.split(" ")[1]
    if not out.endswith("."):
        return "implementation did not produce tokens: %s" % out
    toks = out.split(" ")[:-1]
    cat = b""
    for t in toks:
        body = t[1:].split("/")[0]
        b = vlib.unhex(body)
        if not b:
            return "empty token in %s" % out
        cat += b
    if cat != vlib.unhex(h):
        return "concatenated tokens %s differ from the input %s" % (cat.hex(), h)
    # quoted text is one token: a well-formed quoted prefix is never split
    return None


def describe(case):
    return "Tokenizer::new(%r)" % unhexs(case.split(" ")[1])


def extra(ctx, failures):
    maxlen = 5 if ctx.quick else 6
    alpha = ",".join("%x" % ord(c) for c in ALPHA)
    rc, out = vlib.sh([ctx.harness, "--enum", "tok", str(maxlen), alpha], timeout=3000)
    last = out.strip().splitlines()[-1] if out.strip() else ""
    ctx.log("in-process enumeration:", last)
    ctx.cov["exhaustive"] = True
    ctx.cov["impl_exhaustive_enumeration"] = {"alphabet": alpha, "maxlen": maxlen, "result": last}
    if not last.startswith("ENUM") or not last.endswith("fails=0"):
        for l in out.splitlines():
            if l.startswith("FAIL"):
                case = "tok %s" % l.split(" ")[2]
                o = ctx.run_impl([case], "replay")[0]
                f = oracle(case, o) or "in-process oracle failed (panic or non-termination guard)"
                failures.append((case, o, f))
        if not failures:
            failures.append(("enum", out[-500:], "in-process enumeration did not complete"))


def run(ctx):
    return vlib.standard_flow(
        ctx, "base", gen_cases, oracle=oracle, describe=describe, extra=extra,
        regen=lambda c: regen.regen_alpha(c.harness),
        nontrivial=lambda c: any(x in c for x in ("27", "22", "60", "5b", "5c")),
        rule="all strings over the token-relevant alphabet up to the stated length, plus random strings "
             "(half over the alphabet with doubled/escaped delimiters, half random Unicode); "
             "non-trivial = contains a quote delimiter or a backslash")


def replay(path):
    import json
    obj = json.load(open(path))
    ctx = vlib.Ctx("C16", "quick")
    ctx.build("base", model=True)
    case = obj["case"]
    i, m = ctx.run_both([case], "replay")
    print("case:", describe(case))
    print("impl :", i[0])
    print("model:", m[0])
    f = oracle(case, i[0])
    print("oracle:", f or "ok")
    return 1 if f else 0
