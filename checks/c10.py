"""C10 — INSERT rows always match the column list; mismatches are reported."""
import itertools
import json
import vlib
from vlib import hexs, unhexs
import qcommon
import regen
import sqlparse

B = ["my", "pg", "sl"]
COLS = ["a", "b", "c", "d"]


STYLE = [0]


def cell(k):
    """the k-th cell of a row: a plain value, or (style 1 / 2) an expression that itself contains commas - a tuple /
    row-value or a function call - which is still ONE cell"""
    st = STYLE[0]
    if st == 1 and k % 2 == 0:
        return " (tuple (val i:i32:%d) (val i:i32:%d))" % (k + 1, k + 11)
    if st == 2 and k % 2 == 0:
        return " (fn coalesce (val i:i32:%d) (val i:i32:%d))" % (k + 1, k + 11)
    return " (val i:i32:%d)" % (k + 1)


def cells(n):
    return "".join(cell(k) for k in range(n))


def call(kind, n):
    if kind == "columns":
        return "(columns%s)" % "".join(" " + hexs(c) for c in COLS[:n])
    if kind in ("values", "valuespanic", "valuesit", "valuespanicit"):
        return "(%s%s)" % (kind, cells(n))
    if kind == "valuesfrompanic":
        # two rows of the given length
        row = "(row%s)" % cells(n)
        return "(valuesfrompanic %s %s)" % (row, row)
    if kind == "vfpr":
        # a batch of two rows of DIFFERENT lengths (n = (first, second)): every row is checked, not only the first
        rows = ["(row%s)" % cells(m) for m in n]
        return "(valuesfrompanic %s)" % " ".join(rows)
    if kind == "selectfrom":
        return "(selectfrom (select%s (from (t 75))))" % "".join(" (col (col %s))" % hexs(c) for c in COLS[:n])
    if kind == "selectfromstar":
        # a select list of n items one of which is a wildcard (`*` or `t.*`): still n items for the count check
        items = [" (col (col %s))" % hexs(c) for c in COLS[:n]]
        items[STYLE[0] % n] = " (col (star))" if STYLE[0] % 2 == 0 else " (col (tstar 75))"
        return "(selectfrom (select%s (from (t 75))))" % "".join(items)
    if kind == "ordefault":
        return "(ordefault)"
    if kind == "ordefaultmany":
        return "(ordefaultmany %d)" % n
    raise ValueError(kind)


ALPHABET = ([("columns", n) for n in range(0, 4)] + [("values", n) for n in range(0, 4)] +
            [("valuesit", n) for n in range(0, 4)] + [("valuespanicit", n) for n in range(1, 3)] +
            [("valuespanic", n) for n in range(0, 3)] + [("selectfrom", n) for n in range(1, 4)] +
            [("selectfromstar", n) for n in range(1, 3)] +
            [("valuesfrompanic", 2), ("ordefault", 0), ("ordefaultmany", 2), ("ordefaultmany", 0),
             ("ordefaultmany", 1), ("ordefaultmany", 3)] +
            [("vfpr", (2, 1)), ("vfpr", (2, 3)), ("vfpr", (1, 2)), ("vfpr", (2, 0)), ("vfpr", (1, 1))])
HIST = {}
SRC = [None]
DEFROWS = [None]
DEFSTAT = [0]


def gen_cases(ctx):
    rng = ctx.rng
    lines = []

    def add(h):
        b = rng.choice(B)
        # one history in three writes part of its cells as tuples / function calls (one cell each, commas inside)
        STYLE[0] = rng.choice([0, 0, 0, 0, 1, 2])
        line = "stmt %s (insert (into (t 74)) %s)" % (b, " ".join(call(k, n) for k, n in h))
        HIST[line] = h
        lines.append(line)
    maxlen = 3 if ctx.quick else 4
    for L in range(0, maxlen + 1):
        for h in itertools.product(ALPHABET, repeat=L):
            if ctx.quick and L == 3 and rng.random() < 0.5:
                continue
            add(list(h))
    for _ in range(1500 if ctx.quick else 120000):
        add([rng.choice(ALPHABET) for _ in range(rng.randrange(4, 9))])
    ctx.cov["distribution"] = {"alphabet": len(ALPHABET), "exhaustive_maxlen": maxlen}
    return lines


def simulate(h):
    """spec-level reading of a history: expected log of the fallible calls, whether it panics,
    whether it re-declares the column list after a source was accepted (known class)"""
    ncols, has_source, log, recolumn = 0, False, [], False
    DEFROWS[0] = None      # rows of defaults asked for by the last or_default_values*() call
    SRC[0] = None          # the source the statement must end with: None | ("values", number of rows) | ("select",)

    def accept_row(n):
        # an accepted non-empty row is appended to the VALUES source; it replaces a SELECT source
        if n > 0:
            SRC[0] = ("values", (SRC[0][1] if SRC[0] and SRC[0][0] == "values" else 0) + 1)
    for k, n in h:
        if k == "columns":
            if has_source and n != ncols:
                recolumn = True
            ncols = n
        elif k in ("values", "valuesit"):
            if n == ncols:
                log.append("ok")
                has_source = has_source or n > 0
                accept_row(n)
            else:
                log.append("err(%d,%d)" % (ncols, n))
        elif k in ("valuespanic", "valuespanicit"):
            if n != ncols:
                return log, True, recolumn
            has_source = has_source or n > 0
            accept_row(n)
        elif k == "valuesfrompanic":
            if n != ncols:
                return log, True, recolumn
            has_source = True
            accept_row(n)
            accept_row(n)
        elif k == "vfpr":
            for m in n:
                if m != ncols:
                    return log, True, recolumn
                has_source = has_source or m > 0
                accept_row(m)
        elif k in ("selectfrom", "selectfromstar"):
            if n == ncols:
                log.append("ok")
                has_source = True
                SRC[0] = ("select",)
            else:
                log.append("err(%d,%d)" % (ncols, n))
        elif k == "ordefault":
            DEFROWS[0] = 1
        elif k == "ordefaultmany":
            DEFROWS[0] = n
    if has_source or ncols != 0:
        DEFROWS[0] = None      # the defaults stand in only for a statement without columns and without a source
    return log, False, recolumn


def count_items(p):
    """cursor at '(' : number of comma separated items up to the matching ')'"""
    p.expect_c("(")
    if p.is_c(")"):
        p.i += 1
        return 0
    n = 1
    depth = 0
    while True:
        t = p.peek()
        if t is None:
            raise sqlparse.ParseError("unbalanced")
        if t == ("C", "("):
            depth += 1
        elif t == ("C", ")"):
            if depth == 0:
                p.i += 1
                return n
            depth -= 1
        elif t == ("C", ",") and depth == 0:
            n += 1
        p.i += 1


def shape_of_insert(b, tokline):
    """(number of columns, [cells per VALUES row] or None)"""
    toks = sqlparse.toks_of(tokline)
    p = sqlparse.Parser(b, toks)
    # INSERT INTO <id> ( cols ) VALUES (..), (..)
    while p.peek() is not None and not p.is_c("("):
        if p.is_w("DEFAULT") or p.is_w("VALUES"):
            return None, None
        p.i += 1
    if p.peek() is None:
        return None, None
    ncols = count_items(p)
    if not p.is_w("VALUES"):
        return ncols, None
    p.i += 1
    rows = []
    while True:
        if p.is_w("ROW"):
            p.i += 1
        rows.append(count_items(p))
        if p.is_c(","):
            p.i += 1
            continue
        break
    return ncols, rows


def batch_oracle(ctx, lines, impl):
    verdicts = [None] * len(lines)
    pairs = []
    for c, o in zip(lines, impl):
        f = qcommon.split_out(o)
        if f is not None:
            pairs.append((c.split(" ")[1], f[0]))
    toks = qcommon.etok_many(ctx, pairs)
    rect_checked = 0
    for i, (c, o) in enumerate(zip(lines, impl)):
        h = HIST.get(c)
        if h is None:
            continue
        want_log, want_panic, recolumn = simulate(h)
        if o.startswith("PANIC"):
            if not want_panic:
                verdicts[i] = "unexpected panic"
            continue
        if want_panic:
            verdicts[i] = "a *_panic call with a mismatching row did not panic"
            continue
        f = qcommon.split_out(o)
        if f is None:
            verdicts[i] = "no rendering: %s" % o[:80]
            continue
        log = o.split(" | ")[1].split(",") if " | " in o else []
        # mismatches are reported with both counts and leave the statement unchanged
        if "!changed" in o:
            verdicts[i] = "a failed values()/select_from() call changed the statement"
            continue
        import re
        got = re.findall(r"ok|err\(\d+,\d+\)", o.split(" | ")[1]) if " | " in o else []
        if got != want_log:
            verdicts[i] = "results of the fallible calls are %s, expected %s" % (got, want_log)
            continue
        b = c.split(" ")[1]
        try:
            ncols, rows = shape_of_insert(b, toks[(b, f[0])])
        except sqlparse.ParseError as e:
            verdicts[i] = "cannot read the INSERT shape: %s" % e
            continue
        # a statement without columns and source carries as many rows of defaults as the last or_default_values*()
        # call asked for (MySQL `()`, Postgres `(DEFAULT)`; SQLite has the one-row form DEFAULT VALUES only)
        if DEFROWS[0] is not None and b in ("my", "pg"):
            tl = sqlparse.toks_of(toks[(b, f[0])])
            got_rows, j = None, 0
            for j, t in enumerate(tl):
                if t == ("W", "VALUES"):
                    rest = tl[j + 1:]
                    unit = [("C", "("), ("C", ")")] if b == "my" else [("C", "("), ("W", "DEFAULT"), ("C", ")")]
                    got_rows, k = 0, 0
                    while rest[k:k + len(unit)] == unit:
                        got_rows += 1
                        k += len(unit)
                        if rest[k:k + 1] == [("C", ",")]:
                            k += 1
                    if k != len(rest):
                        got_rows = "unreadable"
                    break
            DEFSTAT[0] += 1
            if got_rows != DEFROWS[0]:
                verdicts[i] = "or_default_values asked for %d row(s) of defaults, the statement carries %s" % (DEFROWS[0], got_rows)
                continue
        if rows is not None:
            rect_checked += 1
            if any(r != ncols for r in rows):
                verdicts[i] = ("RECOLUMN " if recolumn else "") + "VALUES rows have %s cells for %d columns" % (rows, ncols)
        # every accepted row is in the statement, and the source is the kind accepted last
        want_src = SRC[0]
        if verdicts[i] is None and want_src is not None and not recolumn:
            got_src = ("values", len(rows)) if rows is not None else (
                ("select",) if any(t == ("W", "SELECT") for t in sqlparse.toks_of(toks[(b, f[0])])) else None)
            if got_src != want_src:
                verdicts[i] = "the calls accepted %s as the source, the statement carries %s" % (
                    "a SELECT" if want_src[0] == "select" else "%d row(s)" % want_src[1],
                    "a SELECT" if got_src and got_src[0] == "select" else
                    ("%d row(s)" % got_src[1] if got_src else "no source"))
    ctx.cov["oracle_rectangles_checked"] = rect_checked
    ctx.cov["oracle_default_row_statements_checked"] = DEFSTAT[0]
    return verdicts


def classify(case, out, failure, kfs):
    if failure.startswith("RECOLUMN "):
        for k in kfs:
            if k.get("matcher", {}).get("class") == "recolumn":
                return k
    return None


def run(ctx):
    return vlib.standard_flow(
        ctx, "fa", gen_cases, batch_oracle=batch_oracle, classify=classify, describe=qcommon.describe,
        regen=lambda c: regen.regen_exprtables(c),
        nontrivial=lambda c: "(values" in c and "(columns" in c,
        rule="every history up to the stated length over the call alphabet {columns(0..3), values(0..3), "
             "values_panic(0..2), select_from(1..3 selects), values_from_panic(2 rows), or_default_values, "
             "or_default_values_many} + random histories of 4..8 calls, random backend; observed: Result of every "
             "fallible call (both counts), stmt == clone taken before a failed call, panics, rendered SQL; oracle: "
             "reported counts equal the declared ones, cells per VALUES row == number of columns; non-trivial = "
             "declares columns and adds values")


def replay(path):
    obj = json.load(open(path))
    ctx = vlib.Ctx("C10", "quick")
    ctx.build("fa", model=True)
    case = obj["case"]
    i, m = ctx.run_both([case], "replay")
    print("case:", case)
    print("impl :", qcommon.readable(i[0]), i[0].split(" | ")[1] if " | " in i[0] else "")
    print("model:", qcommon.readable(m[0]))
    print("correspondence:", "ok" if i[0] == m[0] else "DIFFERS", "| recorded verdict:", obj.get("verdict"))
    return 1 if i[0] != m[0] or obj.get("verdict") else 0
