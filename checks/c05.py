"""C05 — rendered expressions re-parse to the expression tree that was built."""
import json
import vlib
from vlib import hexs, unhexs
import qcommon
import gen_sql
import regen
import sqlparse

B = ["my", "pg", "sl"]


def depth2_cases(b):
    ops = list(gen_sql.COMMON_BINOPS) + ["cust:%s" % hexs("~~")]
    if b == "pg":
        ops += gen_sql.PG_BINOPS
    if b == "sl":
        ops += gen_sql.SL_BINOPS
    a, c, d = "(col 61)", "(col 62)", "(val i:i32:1)"
    out = []
    for o in ops:
        for i in ops:
            out.append("expr %s (bin %s (bin %s %s %s) %s)" % (b, o, i, a, c, d))
            out.append("expr %s (bin %s %s (bin %s %s %s))" % (b, o, a, i, c, d))
        out.append("expr %s (not (bin %s %s %s))" % (b, o, a, c))
        out.append("expr %s (bin %s (not %s) %s)" % (b, o, a, c))
        out.append("expr %s (bin %s %s (not %s))" % (b, o, a, c))
        for f in ("between", "notbetween"):
            out.append("expr %s (%s (bin %s %s %s) %s %s)" % (b, f, o, a, c, d, d))
            out.append("expr %s (%s %s (bin %s %s %s) %s)" % (b, f, a, o, c, d, d))
            out.append("expr %s (%s %s %s (bin %s %s %s))" % (b, f, a, d, o, c, d))
            out.append("expr %s (bin %s (%s %s %s %s) %s)" % (b, o, f, a, d, d, c))
            out.append("expr %s (bin %s %s (%s %s %s %s))" % (b, o, c, f, a, d, d))
        out.append("expr %s (likeapi (bin %s %s %s) %s %s)" % (b, o, a, c, hexs("A%"), hexs("|")))
        out.append("expr %s (bin %s (likeapi %s %s %s) %s)" % (b, o, a, hexs("A%"), hexs("|"), c))
    return out


def gen_cases(ctx):
    rng = ctx.rng
    lines = []
    for b in B:
        d2 = depth2_cases(b)
        if ctx.quick:
            d2 = rng.sample(d2, 1500)
        lines += d2
    n = 2500 if ctx.quick else 160000
    for _ in range(n):
        b = rng.choice(B)
        g = gen_sql.Gen(rng, b, max_depth=rng.choice([2, 3, 4, 5]), parseable=True, no_marks=True,
                        allow_panic=False)
        lines.append("expr %s %s" % (b, g.expr()))
    ctx.cov["distribution"] = {"depth2_exhaustive": not ctx.quick, "random_trees": n}
    return lines


def strip_subs(t):
    """sub-query bodies are opaque here (their own expressions are exercised at top level)"""
    if isinstance(t, tuple):
        if t and t[0] == "sub":
            return ("sub",)
        return tuple(strip_subs(x) for x in t)
    return t


def tree_verdicts(ctx, lines, impl, tag=""):
    """parse(impl rendering) must equal parse(fully parenthesised rendering of the same tree)"""
    verdicts = [None] * len(lines)
    full = ctx.run_model(["exprfull " + l[5:] for l in lines], "full" + tag)
    pairs = []
    for c, o, f in zip(lines, impl, full):
        fo = qcommon.split_out(o)
        if fo is None or f == "PANIC" or " " in f:
            continue
        b = c.split(" ")[1]
        pairs += [(b, fo[0]), (b, f)]
    toks = qcommon.etok_many(ctx, pairs, "etok" + tag)
    parsed = skipped = 0
    for i, (c, o, f) in enumerate(zip(lines, impl, full)):
        fo = qcommon.split_out(o)
        if fo is None or f == "PANIC" or " " in f:
            continue
        b = c.split(" ")[1]
        try:
            want = strip_subs(sqlparse.parse_select_expr(b, toks[(b, f)]))
        except (sqlparse.ParseError, RecursionError):
            skipped += 1
            continue   # outside what the oracle parser understands (raw SQL, word operators)
        try:
            got = strip_subs(sqlparse.parse_select_expr(b, toks[(b, fo[0])]))
        except (sqlparse.ParseError, RecursionError) as e:
            verdicts[i] = "the rendering does not parse under the %s grammar (%s) although the fully parenthesised form does" % (b, e)
            continue
        parsed += 1
        if got != want:
            verdicts[i] = "parses to a different tree than the one built: %r vs %r" % (got, want)
    ctx.cov["oracle_parsed" + tag] = ctx.cov.get("oracle_parsed" + tag, 0) + parsed
    ctx.cov["oracle_skipped_unparseable" + tag] = ctx.cov.get("oracle_skipped_unparseable" + tag, 0) + skipped
    return verdicts


def batch_oracle(ctx, lines, impl):
    return tree_verdicts(ctx, lines, impl)


def extra(ctx, failures):
    """the same with feature option-more-parentheses (harness fc, model --more-parens)"""
    exe = vlib.harness_build("fc")
    lines = [l for l in gen_cases(ctx)][: (1500 if ctx.quick else 60000)]
    impl = vlib.run_exe(exe, lines, ctx.work, "fc.impl")
    mod = vlib.run_exe(ctx.model, lines, ctx.work, "fc.model", extra_args=["--more-parens"])
    dis = [(c, i, m) for c, i, m in zip(lines, impl, mod) if i != m]
    ctx.extra_disagreements.extend(dis)
    ctx.cov["more_parentheses_cases"] = len(lines)
    ctx.cov["evaluations"] += len(lines)
    ctx.cov["traces_validated_against_impl"] += len(lines)
    old = ctx.harness
    v = tree_verdicts(ctx, lines, impl, "_more")
    for c, i, f in zip(lines, impl, v):
        if f:
            failures.append((c + " [option-more-parentheses]", i, f))
    if dis:
        ctx.cov["disagreements"] += len(dis)
        if not failures:
            c, i, m = dis[0]
            ctx.violation({"kind": "correspondence-broken", "theorem_or_correspondence":
                           "model/implementation correspondence for C05 under option-more-parentheses",
                           "case": c, "impl_output": i, "model_output": m}, no_input=True)


def run(ctx):
    return vlib.standard_flow(
        ctx, "fa", gen_cases, batch_oracle=batch_oracle, describe=qcommon.describe, extra=extra,
        regen=lambda c: regen.regen_exprtables(c),
        nontrivial=lambda c: c.count("(bin ") + c.count("between") >= 2,
        rule="expression trees: every (outer operator, inner operator, side) pair at depth 2 incl. NOT, BETWEEN bounds and "
             "LIKE..ESCAPE (exhaustive in thorough, sampled in quick) + random trees to depth 5 over all operators, "
             "functions, CASE, tuples, sub-queries, casts, x 3 backends x option-more-parentheses on/off; "
             "correspondence byte-exact; oracle: parse(rendering) == parse(fully parenthesised rendering) with the "
             "dialect's precedence table; non-trivial = at least two nested operators")


def replay(path):
    obj = json.load(open(path))
    ctx = vlib.Ctx("C05", "quick")
    ctx.build("fa", model=True)
    case = obj["case"].replace(" [option-more-parentheses]", "")
    i, m = ctx.run_both([case], "replay")
    print("case:", case)
    print("impl :", qcommon.readable(i[0]))
    print("model:", qcommon.readable(m[0]))
    v = batch_oracle(ctx, [case], i)[0]
    print("oracle:", v or "ok", "| correspondence:", "ok" if i[0] == m[0] else "DIFFERS")
    return 1 if (v or i[0] != m[0]) else 0
