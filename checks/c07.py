"""C07 — on SQLite, a built statement does what the builder calls say."""
import json
import vlib
from vlib import hexs, unhexs
import qcommon
import regen
import gen_sqlite
import sqlite_run

ORDERED = {}


def gen_cases(ctx):
    rng = ctx.rng
    g = gen_sqlite.SG(rng)
    n = 2500 if ctx.quick else 120000
    lines = []
    kinds = {}
    for _ in range(n):
        q, ordered = g.statement()
        line = "stmt sl %s" % q
        ORDERED[line] = ordered
        kinds[q[1:7]] = kinds.get(q[1:7], 0) + 1
        lines.append(line)
    ctx.cov["distribution"] = {"kinds": kinds}
    return lines


def batch_oracle(ctx, lines, impl):
    verdicts = [None] * len(lines)
    full = ctx.run_model(["stmtfull " + l[5:] for l in lines], "full")
    executed = rejected_semantic = 0
    for i, (c, o, f) in enumerate(zip(lines, impl, full)):
        fo = qcommon.split_out(o)
        if fo is None:
            verdicts[i] = "the implementation did not render a statement built from SQLite-supported features: %s" % o[:100]
            continue
        inline, params_sql = unhexs(fo[0]), unhexs(fo[1])
        ordered = ORDERED.get(c, False)
        r_inl = sqlite_run.run(inline, ordered=ordered)
        r_par = sqlite_run.run(params_sql, [sqlite_run.to_py(v) for v in fo[2]], ordered=ordered)
        if r_inl[0] == "syntax" or r_par[0] == "syntax":
            msg = r_inl[1] if r_inl[0] == "syntax" else r_par[1]
            tag = "WINDOW " if (" WINDOW " in inline and 'near "WINDOW"' in msg) else ""
            is_insert = inline.startswith(("INSERT", "REPLACE")) or (inline.startswith("WITH ") and (") INSERT INTO " in inline or ") REPLACE INTO " in inline))
            if is_insert and " SELECT " in inline and " ON CONFLICT " in inline and 'near "DO"' in msg:
                tag = "UPSERTSELECT "
            verdicts[i] = tag + "sqlite3 rejects the rendering: %s" % (r_inl[1] if r_inl[0] == "syntax" else r_par[1])
            continue
        if r_inl[0] == "error" or r_par[0] == "error":
            if r_inl[0] != r_par[0]:
                verdicts[i] = "only one of inline / parameterised form is accepted: %r vs %r" % (r_inl[:2], r_par[:2])
            else:
                rejected_semantic += 1   # e.g. constraint failure, aggregate misuse: same for both forms
                # ... unless the fully explicit rendering of the same builder calls IS accepted: then the
                # implementation's text does not say what the calls said (e.g. a conflict target lost its WHERE)
                if f != "PANIC" and " " not in f:
                    r_full = sqlite_run.run(unhexs(f), ordered=ordered)
                    if r_full[0] == "ok":
                        verdicts[i] = ("sqlite3 refuses the rendering (%s) but executes the fully explicit rendering of the "
                                       "same builder calls" % r_inl[1])
            continue
        executed += 1
        if r_inl != r_par:
            verdicts[i] = "inline and parameterised forms behave differently on sqlite3: %r vs %r" % (r_inl[1:], r_par[1:])
            continue
        if f == "PANIC" or " " in f:
            continue
        r_full = sqlite_run.run(unhexs(f), ordered=ordered)
        if r_full[0] != "ok":
            continue
        if r_full != r_inl:
            verdicts[i] = "result differs from the fully explicit rendering of the same builder calls: %r vs %r" % (r_inl[1:], r_full[1:])
    ctx.cov["oracle_executed_on_sqlite3"] = executed
    ctx.cov["oracle_rejected_for_semantic_reasons_both_forms"] = rejected_semantic
    return verdicts


def classify(case, out, failure, kfs):
    for prefix, cls in (("WINDOW ", "named-window-clause"), ("UPSERTSELECT ", "insert-select-upsert")):
        if failure.startswith(prefix):
            for k in kfs:
                if k.get("matcher", {}).get("class") == cls:
                    return k
    return None


def run(ctx):
    return vlib.standard_flow(
        ctx, "fa", gen_cases, batch_oracle=batch_oracle, classify=classify, describe=qcommon.describe,
        regen=lambda c: regen.regen_exprtables(c),
        nontrivial=lambda c: c.count("(") > 12,
        rule="schema-aware builder programs over t(id,a,b,c), u(id,a,d): SELECT (DISTINCT, expressions, aliases, joins incl. "
             "RIGHT/FULL, WHERE/HAVING condition programs, GROUP BY, UNION/INTERSECT/EXCEPT chains, ORDER BY with NULLS "
             "FIRST/LAST and FIELD, LIMIT/OFFSET, window functions, FROM subquery/VALUES, CTEs with MATERIALIZED), INSERT "
             "(VALUES/SELECT/DEFAULT VALUES, OR REPLACE, ON CONFLICT, RETURNING), UPDATE (FROM, ORDER BY/LIMIT, RETURNING), "
             "DELETE; each rendering is executed on sqlite3 %s in inline form, in parameterised form with bound values, and "
             "compared (rows + table contents) with the execution of the model's fully parenthesised rendering"
             % __import__("sqlite3").sqlite_version)


def replay(path):
    obj = json.load(open(path))
    ctx = vlib.Ctx("C07", "quick")
    ctx.build("fa", model=True)
    case = obj["case"]
    i, m = ctx.run_both([case], "replay")
    print("case:", case)
    print("impl :", qcommon.readable(i[0]))
    print("model:", qcommon.readable(m[0]))
    v = batch_oracle(ctx, [case], i)[0]
    print("oracle:", v or "ok", "| correspondence:", "ok" if i[0] == m[0] else "DIFFERS")
    return 1 if (v or i[0] != m[0]) else 0
