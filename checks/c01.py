"""C01 — placeholders and bound values correspond one-to-one, in order."""
import vlib
from vlib import hexs, unhexs
import qcommon
import regen


def gen_cases(ctx):
    n = 2500 if ctx.quick else 160000
    # a quarter of the values are drawn from a pool over EVERY value kind (payload-crate values, vectors, floats,
    # arrays, NULL of every variant; tools/richvalues.py): the renderer correspondence compares value_to_string
    # and the bound values for them too
    return qcommon.gen_statement_cases(ctx, n, no_marks=True, rich_values=400 if ctx.quick else 3000)


def batch_oracle(ctx, lines, impl):
    verdicts = [None] * len(lines)
    pairs, idx = [], []
    for i, (c, o) in enumerate(zip(lines, impl)):
        f = qcommon.split_out(o)
        if f is None:
            continue  # panics (unsupported constructs) are compared with the model only
        pairs.append((c.split(" ")[1], f[1]))
        idx.append(i)
    toks = qcommon.etok_many(ctx, pairs)
    checked = 0
    for i in idx:
        b = lines[i].split(" ")[1]
        inl, par, vals, lits = qcommon.split_out(impl[i])
        t = toks[(b, par)]
        if t == "LEXFAIL":
            # custom SQL text may be unlexable for reasons unrelated to placeholders (other properties); a statement
            # built without any raw text must lex: every character of it was written by the renderer
            if "cust" not in lines[i]:
                verdicts[i] = "the parameterised SQL is not lexable by the engine although no raw SQL text was given"
            continue
        ps = [int(x[1:]) for x in t.split(" ")[:-1] if x.startswith("P")]
        checked += 1
        if len(ps) != len(vals):
            verdicts[i] = "%d placeholders outside quoted text but %d values returned" % (len(ps), len(vals))
        elif b == "pg" and ps != list(range(1, len(vals) + 1)):
            verdicts[i] = "Postgres placeholders are numbered %s, expected 1..%d ascending" % (ps, len(vals))
        elif b != "pg" and any(p != 0 for p in ps):
            verdicts[i] = "non-positional placeholder on %s" % b
        if verdicts[i] is None and vals:
            # values given together are bound together, in the order given
            import sexp
            try:
                prog = sexp.parse(lines[i].split(" ", 2)[2])
            except Exception:
                prog = None
            runs = []
            value_runs(prog, runs)
            for run in runs:
                # only runs whose values identify themselves: at least three values, each bound exactly once in the
                # whole statement (a clause that a dialect does not render binds none of them and is skipped)
                if len(run) < 3 or len(set(run)) != len(run) or any(vals.count(x) != 1 for x in run):
                    continue
                pos = [vals.index(x) for x in run]
                if max(pos) - min(pos) + 1 != len(run):
                    continue    # scattered: these are other occurrences of the same values, not this run
                RUNS[0] += 1
                if pos != list(range(pos[0], pos[0] + len(run))):
                    verdicts[i] = "the values %s were given in this order but are bound in another order: %s" % (
                        run, vals[min(pos):max(pos) + 1])
                    break
    # Same SQL, other values.  By C01_statement_values_are_the_given_ones the model's values ARE the statement's
    # values in the dialect's reading order (Spec/StmtValues.v, proved for every statement).  When the implementation
    # returns exactly the model's parameterised SQL (same text, same placeholders at the same places) but another value
    # list, a value is bound at a position it was not given for (or lost / duplicated): a failure with this input.
    model = getattr(ctx, "last_model", None) if lines is getattr(ctx, "last_lines", None) else None
    if model is None:
        model = ctx.run_model(lines, "oracle")
    same_sql = 0
    for i in idx:
        if verdicts[i] is not None:
            continue
        fm = qcommon.split_out(model[i])
        if fm is None:
            continue
        fi = qcommon.split_out(impl[i])
        if fi[1] != fm[1] and fi[2] != fm[2]:
            # another SQL text AND another value list: whatever happened to the text, the returned collection is not
            # the statement's values in reading order (Spec/StmtValues.v, which the model's list is proved to be)
            k = next((j for j, (a, c) in enumerate(zip(fi[2], fm[2])) if a != c), min(len(fi[2]), len(fm[2])))
            verdicts[i] = ("the bound values are not the statement's values in reading order: position %d holds %s, the "
                           "statement gives %s there (bound %d values, statement gives %d)" % (
                               k + 1, fi[2][k] if k < len(fi[2]) else "nothing",
                               fm[2][k] if k < len(fm[2]) else "nothing", len(fi[2]), len(fm[2])))
            continue
        if fi[1] == fm[1]:
            same_sql += 1
            if fi[2] != fm[2]:
                k = next((j for j, (a, c) in enumerate(zip(fi[2], fm[2])) if a != c), min(len(fi[2]), len(fm[2])))
                verdicts[i] = ("the parameterised SQL is exactly the expected text, but placeholder %d is bound to %s where "
                               "the statement's value in reading order is %s (bound %d values, statement gives %d)" % (
                                   k + 1, fi[2][k] if k < len(fi[2]) else "nothing",
                                   fm[2][k] if k < len(fm[2]) else "nothing", len(fi[2]), len(fm[2])))
    qcommon.text_level_premise(ctx, lines, impl, "P")
    ctx.cov["oracle_same_sql_value_lists_compared"] = same_sql
    ctx.cov["oracle_statements_scanned"] = checked
    ctx.cov["oracle_value_runs_checked"] = RUNS[0]
    return verdicts


RUNS = [0]


def bound_form(atom):
    """the printed form of a bound value for a basic value atom of the case language; None for the other kinds"""
    t = atom.split(":")
    if t[0] == "i" and len(t) == 3:
        return "%s:%s" % (t[1], t[2])
    if t[0] in ("s", "c", "y", "b") and len(t) == 2:
        return "%s:%s" % (t[0], t[1])
    if t[0] == "n" and len(t) == 2:
        return "%s:N" % t[1]
    return None


def value_runs(node, out):
    """lists of values the program gives in one go (a VALUES-table row, an IN list, a value tuple): each must be
    bound in exactly that order, as one contiguous run"""
    if not isinstance(node, list) or not node:
        return
    h = node[0]
    run = None
    if h == "tvalues":
        for r in node[2:]:
            if isinstance(r, list) and r and r[0] == "row":
                value_runs_add(r[1:], out)
    elif h in ("vals",):
        run = node[1:]
    elif h in ("isin", "isnotin"):
        run = node[2:]
    elif h == "intuples":
        for t in node[2:]:
            if isinstance(t, list):
                value_runs_add(t, out)
    if run is not None:
        value_runs_add(run, out)
    for c in node[1:]:
        value_runs(c, out)


def value_runs_add(atoms, out):
    forms = [bound_form(a) if isinstance(a, str) else None for a in atoms]
    if len(forms) >= 2 and all(f is not None for f in forms):
        out.append(forms)


def contains_run(vals, run):
    n = len(run)
    return any(vals[i:i + n] == run for i in range(len(vals) - n + 1))


def regen_tables(ctx):
    regen.regen_exprtables(ctx)


def run(ctx):
    return vlib.standard_flow(
        ctx, "fa", gen_cases, batch_oracle=batch_oracle, describe=qcommon.describe, regen=regen_tables,
        nontrivial=lambda c: "(val " in c,
        rule="random builder programs (SELECT/INSERT/UPDATE/DELETE/WITH, nesting depth up to 3: subqueries, unions, CTEs, "
             "CASE, VALUES lists, upsert, RETURNING, windows, LIMIT/OFFSET, custom templates) x values of every kind (all 31 "
             "Value variants incl. json / chrono / time / uuid / decimal / bigdecimal / vector / ipnetwork / mac address, "
             "finite floats, NULL of every variant, arrays of every element kind incl. empty / NULL / with NULL "
             "elements) x 3 backends; the "
             "implementation's (sql, values) must equal the model's byte for byte, and the extracted engine tokenizer "
             "must find exactly len(values) placeholders outside quoted text, numbered 1..n on Postgres; "
             "non-trivial = the program binds at least one value")


def replay(path):
    import json
    obj = json.load(open(path))
    ctx = vlib.Ctx("C01", "quick")
    ctx.build("fa", model=True)
    case = obj["case"]
    i, m = ctx.run_both([case], "replay")
    print("case:", case)
    print("impl :", qcommon.readable(i[0]))
    print("model:", qcommon.readable(m[0]))
    v = batch_oracle(ctx, [case], i)[0]
    print("oracle:", v or "ok", "| correspondence:", "ok" if i[0] == m[0] else "DIFFERS")
    return 1 if (v or i[0] != m[0]) else 0
