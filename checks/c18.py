"""C18 — Value equality and hashing are coherent (hashable-value).

Flow (vlib.standard_flow, harness feature set fb = all value types + hashable-value): a pool of Value terms
covering every variant, NULLs, NaNs with different payloads and signs, +0/-0, infinities, subnormals, nested
arrays, JSON objects built with different key insertion orders, vectors, and several representations of
the same decimal / instant; ALL ordered pairs of the pool go through the real `==` and the real `Hash`
(recorded stream of Hasher calls) and through the extracted model (coq/Model/ValueEq.v).

Oracle on the implementation's own verdicts (no model involved): reflexive (two separately built copies),
symmetric, transitive (equivalence classes over the whole pool), values of different variants never
equal, `a == b` implies identical hash streams, HashSet size / membership consistent with `==`; the same
for ValueTuple.

JSON: the text serde_json::to_string produces is obtained from the implementation in a first pass (op
jtext) and handed to the model as the opaque `text` of the payload (the model never computes it).
Hash streams are compared byte-exactly (op hstream) for values without payload-crate payloads; for those
the model only predicts whether two streams are identical (HOpaque oid)."""
import json

import vlib
from vlib import hexs
import gens

JSON_POOL = 23              # ids 0..22 of JSON_POOL in harness/src/valueterm.rs
JSON_EXTRA = [31, 32, 33, 34, 35]   # documents differing only in the sign of a float zero (0.0 / -0.0)
JSON_REORDERED = [15, 16, 17, 18]     # pool entries whose second source text inserts the keys in another order

F32 = ["00000000", "80000000", "3f800000", "bf800000", "00000001", "80000001", "007fffff", "00800000", "7f7fffff",
       "7f800000", "ff800000", "7fc00000", "ffc00000", "7fc00001", "ffc00001", "7f800001", "7fffffff", "ffffffff", "40000000",
       # neighbours (one unit in the last place apart): equality is exact, not approximate
       "3f800001", "3f7fffff", "3e99999a", "3e99999b"]
F64 = ["0000000000000000", "8000000000000000", "3ff0000000000000", "bff0000000000000", "0000000000000001",
       "8000000000000001", "000fffffffffffff", "0008000000000000", "0010000000000000", "7fefffffffffffff",
       "7ff0000000000000", "fff0000000000000", "7ff8000000000000", "fff8000000000000", "7ff8000000000001",
       "7ff0000000000001", "7fffffffffffffff", "ffffffffffffffff", "4000000000000000",
       "3ff0000000000001", "3fefffffffffffff", "3fd3333333333333", "3fd3333333333334"]

OPAQUE = {
    "ChronoDate": ["0", "1", "19000"],
    "ChronoTime": ["0", "1", "86399999"],
    "ChronoDateTime": ["0", "1", "1700000000"],
    "ChronoDateTimeUtc": ["0", "1", "1700000000"],
    "ChronoDateTimeLocal": ["0", "1", "1700000000"],
    "ChronoDateTimeWithTimeZone": ["0", "100", "100~1", "100~2", "100~3", "3700", "3700~1"],
    "TimeDate": ["0", "1", "19000"],
    "TimeTime": ["0", "1", "86399999"],
    "TimeDateTime": ["0", "1", "1700000000"],
    "TimeDateTimeWithTimeZone": ["0", "100", "100~1", "100~2", "100~3", "3700", "3700~1"],
    "Uuid": ["0", "1", "5", "340282366920938463463374607431768211455"],
    "Decimal": ["0", "0~3", "5", "5~1", "5~2", "50", "50~1", "500", "1000000000000", "1000000000000~6"],
    "BigDecimal": ["0", "0~3", "1", "1~1", "10", "10~3", "100", "100~1", "5", "5~1", "5~2", "50", "1267650600228229401496703205376~6"],
    # (id = (2 * address [+ 1]) * 130 + p, p - 1 the prefix length: 10.1.2.3/8 and 10.9.9.9/8 share a network and
    # differ in host bits, 10.0.0.0/8 is that network itself, 10.1.2.3/24 another prefix; the same for an IPv6 pair)
    "IpNetwork": ["0", "260", "130", "390", "1116691496700", "43637934869", "43774717229", "43620761609", "43637934885", "2700323955594169706480247234027848135", "2700323955594169706480247234027849175"],
    "MacAddress": ["0", "1", "281474976710655"],
}
INTS = {
    "TinyInt": ["0", "1", "-1", "-128", "127"], "SmallInt": ["0", "1", "-32768"], "Int": ["0", "1", "-1", "2147483647"],
    "BigInt": ["0", "1", "-9223372036854775808"], "TinyUnsigned": ["0", "1", "255"], "SmallUnsigned": ["0", "1", "65535"],
    "Unsigned": ["0", "1", "4294967295"], "BigUnsigned": ["0", "1", "18446744073709551615"],
}
SCALAR_TAGS = (["Bool"] + list(INTS) + ["Float", "Double", "String", "Char", "Bytes", "Json"] + list(OPAQUE) + ["Vector"])
# streams of these variants are predicted call by call by the model
EXACT_STREAM = set(["Bool", "Float", "Double", "String", "Char", "Bytes", "Json", "Vector"]) | set(INTS)

STATE = {}


def json_tokens(ctx):
    """first pass: serde_json::to_string of every pool entry, from the implementation"""
    toks = []
    for i in list(range(JSON_POOL)) + JSON_EXTRA:
        toks.append("%d" % i)
        if i in JSON_REORDERED:
            toks.append("%d~1" % i)
    outs = vlib.run_exe(ctx.harness, ["jtext %s" % t for t in toks], ctx.work, "jtext")
    res = []
    for t, o in zip(toks, outs):
        if " " in o or o.startswith("PANIC") or o.startswith("CRASH") or o.startswith("UNKNOWN"):
            raise vlib.BuildError("harness op jtext failed on %s: %s" % (t, o))
        res.append("%s/%s" % (t, o))
    return res


def pool(ctx, jt):
    rng = ctx.rng
    P = []
    for tag in SCALAR_TAGS:
        P.append("%s:N" % tag)
    P += ["Bool:0", "Bool:1"]
    for tag, vs in INTS.items():
        P += ["%s:%s" % (tag, v) for v in vs]
    P += ["Float:%s" % b for b in F32]
    P += ["Double:%s" % b for b in F64]
    P += ["String:%s" % hexs(s) for s in ["", "a", "null", "é", "b"]]
    P += ["Char:%s" % c for c in ["0", "61", "e9", "1f600"]]
    P += ["Bytes:%s" % b for b in ["-", "00", "61", "6e756c6c", "0001ff"]]
    P += ["Json:%s" % t for t in jt]
    for tag, vs in OPAQUE.items():
        P += ["%s:%s" % (tag, v) for v in vs]
    P += ["Vector:%s" % v for v in ["-", "00000000", "80000000", "7fc00000", "ffc00001", "3f800000", "3f800000.40000000",
                                    "40000000.3f800000", "00000000.00000000", "00000000.80000000", "7fc00000.7fc00001",
                                    "3f800000.7fc00000", "3f800000.3f800000"]]
    j15 = [t for t in jt if t.startswith("15/") or t.startswith("15~1/")]
    arrays = [
        "Array:Int:N", "Array:BigInt:N", "Array:Float:N", "Array:Int:[]", "Array:BigInt:[]", "Array:Float:[]",
        "Array:Int:[Int:1]", "Array:Int:[Int:1,Int:2]", "Array:Int:[Int:2,Int:1]", "Array:Int:[Int:N]", "Array:Int:[Int:1,Int:N]",
        "Array:BigInt:[BigInt:1]", "Array:Int:[BigInt:1]", "Array:BigInt:[Int:1]",
        "Array:Float:[Float:7fc00000]", "Array:Float:[Float:ffc00001]", "Array:Float:[Float:00000000]",
        "Array:Float:[Float:80000000]", "Array:Float:[Float:3f800000]", "Array:Float:[Float:N]",
        "Array:Double:[Double:7ff8000000000000,Double:0000000000000000]",
        "Array:Double:[Double:fff8000000000001,Double:8000000000000000]",
        "Array:Int:[Array:Int:[Int:1]]", "Array:Int:[Array:Int:[Int:1],Int:N]", "Array:Int:[Array:Int:[]]",
        "Array:Int:[Array:Int:N]", "Array:Int:[Array:BigInt:[Int:1]]",
        "Array:Float:[Array:Float:[Float:00000000]]", "Array:Float:[Array:Float:[Float:80000000]]",
        "Array:Float:[Array:Float:[Float:7fc00000],Float:ffc00000]", "Array:Float:[Array:Float:[Float:7fffffff],Float:7fc00001]",
        "Array:Float:[Array:Float:[Array:Float:[Float:00000000]]]", "Array:Float:[Array:Float:[Array:Float:[Float:80000000]]]",
        "Array:String:[String:61,String:-]", "Array:String:[String:-,String:61]", "Array:Bytes:[Bytes:61]",
        "Array:Decimal:[Decimal:5]", "Array:Decimal:[Decimal:5~2]", "Array:Uuid:[Uuid:5,Uuid:N]", "Array:MacAddress:[]",
    ]
    arrays += ["Array:Json:[Json:%s]" % t for t in j15]
    P += arrays
    if not ctx.quick:
        for _ in range(120):
            P.append("Float:%08x" % rng.randrange(1 << 32))
            P.append("Double:%016x" % rng.randrange(1 << 64))
        for _ in range(60):
            P.append("Float:%08x" % ((rng.randrange(2) << 31) | (0xff << 23) | rng.randrange(1, 1 << 23)))
            P.append("Double:%016x" % ((rng.randrange(2) << 63) | (0x7ff << 52) | rng.randrange(1, 1 << 52)))
            P.append("String:%s" % hexs(gens.rand_string(rng, 6)))
            P.append("BigInt:%d" % rng.randrange(-2 ** 63, 2 ** 63))
            P.append("Vector:%s" % ".".join(rng.choice(F32) for _ in range(rng.randrange(1, 4))))
            P.append("Array:Float:[%s]" % ",".join("Float:%s" % rng.choice(F32) for _ in range(rng.randrange(1, 4))))
    seen, out = set(), []
    for p in P:
        if p not in seen:
            seen.add(p)
            out.append(p)
    return out


def tuple_pool(ctx, P):
    rng = ctx.rng
    base = ["Int:1", "Int:2", "Int:N", "BigInt:1", "Float:7fc00000", "Float:ffc00001", "Float:00000000", "Float:80000000",
            "Decimal:5", "Decimal:5~2", "String:61", "Array:Float:[Float:7fc00000]", "Array:Float:[Float:ffc00000]"]
    T = []
    for a in base:
        T.append("One(%s)" % a)
        T.append("Many[%s]" % a)
    T.append("Many[]")
    pairs = [("Int:1", "Int:2"), ("Int:2", "Int:1"), ("Float:7fc00000", "Float:00000000"), ("Float:ffc00001", "Float:80000000"),
             ("Int:1", "BigInt:1"), ("Decimal:5", "Decimal:5~2"), ("Decimal:5~2", "Decimal:5~1")]
    for a, b in pairs:
        T.append("Two(%s,%s)" % (a, b))
        T.append("Many[%s,%s]" % (a, b))
        T.append("Three(%s,%s,%s)" % (a, b, a))
        T.append("Three(%s,%s,%s)" % (a, b, b))
        T.append("Many[%s,%s,%s]" % (a, b, a))
        T.append("Many[%s,%s,%s,%s]" % (a, b, a, b))
    for _ in range(10 if ctx.quick else 200):
        n = rng.randrange(1, 7)
        elems = [rng.choice(P) for _ in range(n)]
        T.append("Many[%s]" % ",".join(elems))
        if n == 1:
            T.append("One(%s)" % elems[0])
        if n == 2:
            T.append("Two(%s)" % ",".join(elems))
        if n == 3:
            T.append("Three(%s)" % ",".join(elems))
    seen, out = set(), []
    for t in T:
        if t not in seen:
            seen.add(t)
            out.append(t)
    return out


def gen_cases(ctx):
    rng = ctx.rng
    jt = json_tokens(ctx)
    P = pool(ctx, jt)
    T = tuple_pool(ctx, P)
    STATE["pool"], STATE["tuples"] = P, T
    lines = []
    for a in P:
        for b in P:
            lines.append("cmp %s %s" % (a, b))
    for a in P:
        if a.split(":")[0] in EXACT_STREAM or (a.startswith("Array:") and all(
                x.split(":")[0] in EXACT_STREAM | {"Array"} for x in a.replace("[", ",").replace("]", "").split(",") if x)
                and a.split(":")[1] in EXACT_STREAM):
            lines.append("hstream %s" % a)
    for a in T:
        for b in T:
            lines.append("tcmp %s %s" % (a, b))
    exact_elems = [p for p in P if p.split(":")[0] in EXACT_STREAM]
    for a in T:
        if all(x.split(":")[0] in EXACT_STREAM | {"Array"} for x in a.replace("[", ",").replace("]", "").replace("(", ",")
               .replace(")", "").split(",")[1:] if x) and "Decimal" not in a and "Uuid" not in a and "MacAddress" not in a:
            lines.append("tstream %s" % a)
    n_sets = 150 if ctx.quick else 3000
    for _ in range(n_sets):
        k = rng.randrange(0, 9)
        # draw from a few related groups so that duplicates (equal but differently built values) are frequent
        grp = rng.choice(["Float:", "Double:", "Decimal:", "BigDecimal:", "Json:", "Array:Float:", "Vector:",
                          "ChronoDateTimeWithTimeZone:", "Int:", ""])
        cand = [p for p in P if p.startswith(grp)]
        elems = [rng.choice(cand) for _ in range(k)]
        probe = rng.choice(cand)
        lines.append("hset [%s] %s" % (",".join(elems), probe))
    ctx.cov["distribution"] = {"pool": len(P), "pairs": len(P) ** 2, "tuple_pool": len(T), "tuple_pairs": len(T) ** 2,
                               "hashsets": n_sets, "variants_in_pool": len(set(term_variant(p) for p in P)),
                               "json_texts_from_impl": len(jt)}
    ctx.cov["exhaustive"] = True
    ctx.cov["exhaustive_over"] = "all ordered pairs (and hence all triples) of the pool"
    return lines


# ------------------------------------------------------------------------------------------------
# oracle: the laws, on the implementation's own verdicts
# ------------------------------------------------------------------------------------------------

def term_variant(t):
    return t.split(":")[0]


def tuple_ctor(t):
    return t[:t.index("(")] if not t.startswith("Many") else "Many"


def laws(pairs, idx_of, variant, name):
    """pairs: {(a,b): (eq, same, line index)}; returns {line index: verdict}"""
    bad = {}
    items = sorted({a for a, _ in pairs})
    for (a, b), (eq, same, i) in pairs.items():
        if eq and not same:
            bad[i] = "%s: a == b but the hash streams differ (a=%s b=%s)" % (name, a, b)
        if a == b and not eq:
            bad[i] = "%s: a == a is false for two separately built copies of a=%s (not reflexive)" % (name, a)
        if (b, a) in pairs and pairs[(b, a)][0] != eq:
            bad.setdefault(i, "%s: a == b is %s but b == a is %s (a=%s b=%s)" % (name, eq, pairs[(b, a)][0], a, b))
        if variant and eq and variant(a) != variant(b):
            bad[i] = "%s: values of different variants compare equal (a=%s b=%s)" % (name, a, b)
    # transitivity: classes of the symmetric-transitive closure; every pair inside a class must be equal
    parent = {x: x for x in items}

    def find(x):
        while parent[x] != x:
            parent[x] = parent[parent[x]]
            x = parent[x]
        return x
    adj = {x: [] for x in items}
    for (a, b), (eq, same, i) in pairs.items():
        if eq and a != b:
            adj[a].append(b)
            adj[b].append(a)
            ra, rb = find(a), find(b)
            if ra != rb:
                parent[ra] = rb
    for (a, c), (eq, same, i) in pairs.items():
        if not eq and a != c and find(a) == find(c) and i not in bad:
            # a witness b with a == b and b == c (or a longer chain: report its first step)
            via = next((b for b in adj[a] if b in adj[c] or c in adj[b]), adj[a][0] if adj[a] else "?")
            bad[i] = "%s: not transitive: a == b and b == c (possibly through a chain) but a != c; a=%s c=%s via=%s" % (
                name, a, c, via)
    return bad


def batch_oracle(ctx, lines, impl):
    verdicts = [None] * len(lines)
    vp, tp = {}, {}
    for i, (c, o) in enumerate(zip(lines, impl)):
        f = c.split(" ")
        if f[0] in ("cmp", "tcmp"):
            g = o.split(" ")
            if len(g) != 2 or g[0] not in "TF" or g[1] not in "TF":
                verdicts[i] = "implementation did not answer (%s)" % o
                continue
            (vp if f[0] == "cmp" else tp)[(f[1], f[2])] = (g[0] == "T", g[1] == "T", i)
        elif o.startswith("PANIC") or o.startswith("CRASH") or o.startswith("UNKNOWN"):
            verdicts[i] = "implementation did not answer (%s)" % o
    for i, v in laws(vp, None, term_variant, "Value").items():
        verdicts[i] = v
    for i, v in laws(tp, None, tuple_ctor, "ValueTuple").items():
        verdicts[i] = v
    # HashSet: size = number of classes among the elements, membership = some element equal to the probe
    for i, (c, o) in enumerate(zip(lines, impl)):
        f = c.split(" ")
        if f[0] != "hset" or verdicts[i]:
            continue
        elems = split_list(f[1])
        reps = []
        for e in elems:
            if not any(vp.get((e, r), (False,))[0] for r in reps):
                reps.append(e)
        want = "%d %s" % (len(reps), "T" if any(vp.get((e, f[2]), (False,))[0] for e in elems) else "F")
        if o != want:
            verdicts[i] = "HashSet built from %s: len/contains = %s, but by == it must be %s" % (f[1], o, want)
    ctx.cov["equal_pairs_seen"] = sum(1 for (a, b), v in vp.items() if v[0] and a != b)
    ctx.cov["stream_collisions_of_unequal_values"] = sum(1 for v in vp.values() if v[1] and not v[0])
    return verdicts


def split_list(s):
    inner = s[1:-1]
    if not inner:
        return []
    out, depth, start = [], 0, 0
    for i, c in enumerate(inner):
        if c in "[(":
            depth += 1
        elif c in ")]":
            depth -= 1
        elif c == "," and depth == 0:
            out.append(inner[start:i])
            start = i + 1
    out.append(inner[start:])
    return out


def describe(case):
    f = case.split(" ")
    if f[0] in ("cmp", "tcmp"):
        return "a == b and Hash of a, b with a = %s, b = %s" % (f[1], f[2])
    if f[0] in ("hstream", "tstream"):
        return "stream of Hasher calls of %s" % f[1]
    if f[0] == "hset":
        return "HashSet<Value> from %s, contains(%s)" % (f[1], f[2])
    return case


def nontrivial(case):
    f = case.split(" ")
    return f[0] != "cmp" or f[1].split(":")[0] == f[2].split(":")[0]


def run(ctx):
    ctx.assumptions += [
        "IEEE-754 `==` and NaN classification on bit patterns (coq/Model/FloatBits.v) are proved equal to Flocq 4.1's "
        "Bcompare .. = Some Eq / is_nan on b32_of_bits / b64_of_bits for every bit pattern in range "
        "(coq/Proofs/FloatBitsFlocq.v); only these four bridge theorems depend on the axioms Flocq imports "
        "(ClassicalDedekindReals.sig_not_dec, ClassicalDedekindReals.sig_forall_dec, "
        "FunctionalExtensionality.functional_extensionality_dep, Classical_Prop.classic; coq/assumptions.allow); that "
        "Rust's f32/f64 `==` is IEEE compareQuietEqual is tied by running the real comparisons on all pairs of bit "
        "patterns of every class",
        "ordered-float 4.6.0 (OrderedFloat::eq / ::hash, raw_double_bits) and num-traits integer_decode are transcribed into "
        "FloatBits.v; the hashed u64 is compared call by call with the recorded Hasher stream",
        "Eq / Hash of the payload crates (chrono, time, rust_decimal, bigdecimal, uuid, ipnetwork, mac_address) are abstract "
        "in the model (equal ids = equal values, HOpaque id) and assumed coherent; the law oracle samples them on the "
        "implementation, including different representations of equal decimals and instants",
        "serde_json::to_string is not modelled: its output is taken from the implementation and given to the model as text",
        "std: derived Hash of Option / Vec / fieldless enums, Hash of integers, str, [u8], mem::Discriminant (transcribed as "
        "typed Hasher calls; compared with the recorded stream)",
        "tools/valuetypes.py (translator over the source text of src/value.rs; accepts only the item shapes it knows)",
    ]
    return vlib.standard_flow(
        ctx, "fb", gen_cases, batch_oracle=batch_oracle, describe=describe, nontrivial=nontrivial, model_name="c12",
        regen=regen,
        rule="all ordered pairs of a pool of Values covering every variant with NULL and several payloads, 19 f32 and 19 "
             "f64 bit patterns of every class (both zeros, subnormals, infinities, quiet/signalling NaNs of both signs), "
             "vectors, nested arrays, JSON built with different key orders, several representations of equal decimals "
             "and instants (thorough: plus random floats/NaNs/strings); all ordered pairs of a pool of ValueTuples; "
             "HashSets; non-trivial = pairs of the same variant and everything that is not a pair")


def regen(ctx):
    import regen as R
    ok, err = R.regen_valuetypes()
    if not ok:
        ctx.log("TRANSLATOR: tools/valuetypes.py cannot translate /repo/src/value.rs: %s" % err)
        ctx.log("TRANSLATOR: keeping the previous Generated/ValueTypes.v for the executable model; the proof "
                "obligation translation_complete is broken")
        ctx.notes.append("translator failed: " + err)


def replay(path):
    obj = json.load(open(path))
    ctx = vlib.Ctx("C18", "quick")
    try:
        ctx.build("fb", model=True, model_name="c12")
    except vlib.BuildError as e:
        print(e)
        return 1
    if "case" not in obj:
        print(json.dumps(obj, indent=1)[:3000])
        print("no failing input recorded (proof or correspondence broken); re-run ./check C18 quick")
        return 1
    case = obj["case"]
    f = case.split(" ")
    lines = [case]
    if f[0] in ("cmp", "tcmp"):
        a, b = f[1], f[2]
        terms = [a, b]
        v = obj.get("verdict", "")
        if " via=" in v:
            terms.append(v.split(" via=")[1])
        lines = ["%s %s %s" % (f[0], x, y) for x in terms for y in terms]
    elif f[0] == "hset":
        elems = split_list(f[1]) + [f[2]]
        lines = [case] + ["cmp %s %s" % (x, y) for x in elems for y in elems]
    i, m = ctx.run_both(lines, "replay")
    for c, x, y in zip(lines, i, m):
        print("%-8s impl: %-6s model: %-6s  %s" % (c.split(" ")[0], x[:80], y[:80], " ".join(c.split(" ")[1:])[:200]))
    vs = [v for v in batch_oracle(ctx, lines, i) if v]
    for v in vs[:5]:
        print("oracle:", v)
    if not vs:
        print("oracle: ok")
    return 1 if vs else 0
