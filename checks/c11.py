"""C11 — custom SQL templates and inject_parameters replace exactly the placeholders."""
import itertools
import json
import re
import vlib
from vlib import hexs, unhexs
import qcommon
import gen_sql
import regen

B = ["my", "pg", "sl"]
VALUES = ["i:i32:7", "s:%s" % hexs("x'y"), "b:1", "n:i32", "s:%s" % hexs("?$1")]


def pieces(b):
    mark = "$" if b == "pg" else "?"
    ph = ["$1", "$2", "$3"] if b == "pg" else ["?"]
    return (["a", " ", "=", "(", "1", "'q%sq'" % mark, '"i%s1"' % mark, "`%s`" % mark, "[%s]" % mark, "'it''s%s'" % mark,
             "'a\\'%s'" % mark, mark + mark, "]"] + ph)


def extra_templates(b):
    """nested subscripts and stray closing brackets: `[..]` is quoted text for the crate's tokenizer, closed by the
    FIRST `]` (no doubling), so what follows `]]` is outside quoted text again (round 9)"""
    ph = "$1" if b == "pg" else "?"
    return ["arr[idx[1]] = %s" % ph, "a[b[c]]] %s" % ph, "[x]]%s" % ph, "m[1][2] = %s AND n[k[%s]] = 1" % (ph, ph),
            "[]] %s []" % ph, "']]' = %s" % ph, "a]] %s" % ph, "[%s]]%s" % (ph, ph),
            # line ends and other blanks are characters of the fragment like any other (inside and outside quotes)
            # numeric characters that are neither alphabetic nor ASCII digits are punctuation for the crate tokenizer
            "m\u00b2 * %s + %s" % (ph, ph.replace("1", "2")), "\u00bd%s" % ph, "x\uff11 = %s" % ph, "\u0663 %s \u2460" % ph,
            # white space that is not one of the tokenizer's four blanks (form feed, vertical tab, no-break space,
            # ideographic space, line separator) is punctuation: one token each, copied
            "%s\x0c+ %s" % (ph, ph.replace("1", "2")), "a\x0b= %s" % ph, "%s\u00a0|| 'x'" % ph, "\u3000%s\u2028" % ph,
            "a\r\nb = %s" % ph, "'x\r\ny' = %s\r\n" % ph, "a\tb\n= %s" % ph, "\r%s\r" % ph, "'\n' || %s || '\r'" % ph]


def spec_render(b, tmpl, lits, params_mode):
    """independent character-level reading of the template language (the property's own words):
    a mark outside quoted text is a placeholder (positional ? / numbered $n), a doubled mark is a
    literal mark, everything else is copied.  Returns None if a designated value does not exist."""
    mark = "$" if b == "pg" else "?"
    out, i, pos, n = [], 0, 0, len(tmpl)
    used = []
    while i < n:
        c = tmpl[i]
        if c in "'\"`[":
            # quoted text as the crate's tokenizer defines it: up to the matching delimiter, a doubled
            # delimiter or a backslash-escaped char does not end it; [..] has no doubling
            close = "]" if c == "[" else c
            j = i + 1
            while j < n:
                if tmpl[j] == "\\" and j + 1 < n:
                    j += 2
                    continue
                if tmpl[j] == close:
                    if close != "]" and j + 1 < n and tmpl[j + 1] == close:
                        j += 2
                        continue
                    break
                j += 1
            out.append(tmpl[i:j + 1])
            i = j + 1
            continue
        # a word starts with a letter or digit and may continue with letters, digits, `_` and `$`:
        # a `$` inside a word is part of the word (a$1 is one identifier), never a mark
        if c.isalpha() or c in "0123456789":
            j = i + 1
            while j < n and (tmpl[j].isalpha() or tmpl[j] in "0123456789_$"):
                j += 1
            out.append(tmpl[i:j])
            i = j
            continue
        if c == mark:
            if i + 1 < n and tmpl[i + 1] == mark:
                out.append(mark)
                i += 2
                continue
            if b == "pg":
                m = re.match(r"[0-9]+", tmpl[i + 1:])
                if not m:
                    return None   # outside the template language (bare $)
                k = int(m.group(0))
                nxt = tmpl[i + 1 + len(m.group(0)):][:1]
                if nxt and (nxt.isalpha() or nxt in "0123456789_$"):
                    return None   # $1a / $1$2: not a well-formed numbered placeholder
                if k < 1 or k > len(lits):
                    return None
                used.append(k - 1)
                i += 1 + len(m.group(0))
            else:
                if pos >= len(lits):
                    return None
                used.append(pos)
                pos += 1
                i += 1
            out.append(None)
            continue
        out.append(c)
        i += 1
    text, vals = "", []
    for o in out:
        if o is None:
            k = used[len(vals)]
            vals.append(k)
            text += ("$%d" % len(vals) if b == "pg" else "?") if params_mode else lits[k]
        else:
            text += o
    return text, vals


TEMPLATE = {}
BRACKET_CASES = set()


def is_bracket_case(case):
    """an array value with `]` in an element, written as a constant (class F28)"""
    import richvalues
    try:
        q = case.split(" ", 2)[2]
        return case in BRACKET_CASES or any(richvalues.array_with_bracket(a) for a in richvalues.constant_atoms(q))
    except Exception:
        return False
TVALUES = list(VALUES)      # + values of the other kinds (set by gen_cases; literal texts come from the implementation)
RICH_TEMPLATE_TERMS = ["Json:27", "Json:24", "Json:N", "ChronoDate:19000", "TimeDateTimeWithTimeZone:100~2", "Uuid:1",
                       "Decimal:15~1", "Vector:3f800000.bf800000", "Double:3fb999999999999a",
                       "Array:String:[String:%s,String:N]" % hexs("?$1'"), "Array:Int:[]"]


def gen_cases(ctx):
    import richvalues
    rng = ctx.rng
    lines = []
    forms = {}
    maxlen = 3 if ctx.quick else 4
    TVALUES[:] = list(VALUES) + richvalues.encode_terms(ctx, RICH_TEMPLATE_TERMS)
    for b in B:
        ps = pieces(b)
        for L in range(0, maxlen + 1):
            combos = list(itertools.product(ps, repeat=L))
            if ctx.quick and L == 3:
                combos = rng.sample(combos, 1200)
            if not ctx.quick and L == 4:
                combos = rng.sample(combos, 20000)
            if L == 1:
                combos = combos + [(t,) for t in extra_templates(b)]
            for combo in combos:
                tmpl = "".join(combo)
                k = rng.randrange(0, 4)
                vals = [rng.choice(TVALUES) for _ in range(k)]
                # the same template node through every way of building it: the enum constructor (custw) and the
                # public constructors Expr::cust_with_values (custv), cust_with_exprs (custe), cust_with_expr
                # (custe1, exactly one argument); k = 0 arguments included for custw / custv / custe
                form = rng.choice(["custw", "custv", "custe"])
                if form == "custe" and k == 1 and rng.random() < 0.5:
                    form = "custe1"
                args = "".join((" %s" % v) if form == "custv" else (" (val %s)" % v) for v in vals)
                line = "expr %s (%s %s%s)" % (b, form, hexs(tmpl), args)
                forms["%s/%d" % (form, k)] = forms.get("%s/%d" % (form, k), 0) + 1
                TEMPLATE[line] = (b, tmpl, vals)
                lines.append(line)
    # inject_parameters over the statement stream
    n = 1500 if ctx.quick else 100000
    # values of every kind (payload-crate values, vectors, floats, arrays, NULLs): inject_parameters writes them
    # with value_to_string, to_string with the inline writer
    pool = richvalues.make_value_pool(ctx, rng, 400 if ctx.quick else 3000)
    inj = []
    excluded = {"array constant with ] in an element": 0}   # counted, not excluded: see F28
    for _ in range(n):
        b = rng.choice(B)
        g = gen_sql.Gen(rng, b, max_depth=rng.choice([1, 2, 3]), no_marks=True, value_pool=pool)
        q = g.query(rng.choice([1, 2])) if rng.random() < 0.7 else g.expr()
        if b == "pg" and rng.random() < 0.15:
            # raw text with a `$` that is NOT a numbered placeholder (dollar-quoted text, `$` before a word that is
            # not a number, `$` before a blank): inject_parameters must copy it, word included
            raw = rng.choice(["$tag$hello$tag$", "$x", "a $b c", "$1x", "x$y", "$ 1", "$$", "$_1", "f($abc, 2)"])
            q = "(select (expr (cust %s)) (expr %s) (from (t 74)) (andwhere (bin eq (col 61) (val i:i32:7))))" % (
                hexs(raw), q if not q.startswith("(select") and not q.startswith("(insert") and not q.startswith("(update")
                and not q.startswith("(delete") and not q.startswith("(withq") else "(val s:%s)" % hexs("v"))
        # KNOWN CLASS F28 (genuine defect of inject_parameters, listed in known_findings.json): an array value written
        # as a constant (SimpleExpr::Constant / ORDER BY FIELD: inlined in the parameterised SQL too) one of whose
        # elements contains `]`, e.g. build() = "SELECT ARRAY [']'] WHERE $1".  The crate tokenizer reads `[...]` as
        # a quoted identifier ending at the FIRST `]`, i.e. inside the element literal; the rest of the literal then
        # opens a quoted string that swallows the following text, and later placeholders stay unreplaced.
        if any(richvalues.array_with_bracket(a) for a in richvalues.constant_atoms(q)):
            excluded["array constant with ] in an element"] += 1
            BRACKET_CASES.add("inject %s %s" % (b, q))
        inj.append("inject %s %s" % (b, q))
    lines += inj
    ctx.cov["distribution"] = {"template_alphabet": {b: pieces(b) for b in B}, "exhaustive_maxlen": maxlen,
                               "template_forms_by_arity": dict(sorted(forms.items())),
                               "inject_statements": len(inj), "inject_array_constant_with_bracket": excluded, "value_pool_size": len(pool),
                               "inject_values": richvalues.distribution(inj)}
    return lines


def batch_oracle(ctx, lines, impl):
    verdicts = [None] * len(lines)
    # literal text of every pool value per backend, from the implementation itself
    lit_lines = ["expr %s (val %s)" % (b, v) for b in B for v in TVALUES]
    lit_out = ctx.run_impl(lit_lines, "lits")
    LIT = {}
    for l, o in zip(lit_lines, lit_out):
        _, b, rest = l.split(" ", 2)
        LIT[(b, rest[5:-1])] = unhexs(qcommon.split_out(o)[0])[len("SELECT "):]
    tchecked = ichecked = 0
    for i, (c, o) in enumerate(zip(lines, impl)):
        if c in TEMPLATE:
            b, tmpl, vals = TEMPLATE[c]
            lits = [LIT[(b, v)] for v in vals]
            want_inl = spec_render(b, tmpl, lits, False)
            want_par = spec_render(b, tmpl, lits, True)
            if want_inl is None:
                continue   # a designated value does not exist / bare $: outside the property's quantifier
            f = qcommon.split_out(o)
            tchecked += 1
            if f is None:
                verdicts[i] = "implementation did not render a well-formed template: %s" % o[:80]
                continue
            inl, par = unhexs(f[0]), unhexs(f[1])
            if inl != "SELECT " + want_inl[0]:
                verdicts[i] = "inline output %r, the template language says %r" % (inl, "SELECT " + want_inl[0])
            elif par != "SELECT " + want_par[0]:
                verdicts[i] = "parameterised output %r, the template language says %r" % (par, "SELECT " + want_par[0])
            elif len(f[2]) != len(want_par[1]):
                verdicts[i] = "bound %d values, the template designates %d" % (len(f[2]), len(want_par[1]))
        elif c.startswith("inject "):
            f = o.split(" ")
            if len(f) != 2:
                continue
            ichecked += 1
            if f[0] != f[1]:
                b = c.split(" ")[1]
                tag = "F16 " if (b in ("sl", "pg") and re.search(r"\\[\"']", unhexs(f[1]))) else ""
                if not tag and is_bracket_case(c):
                    tag = "F28 "
                verdicts[i] = tag + "inject_parameters(build()) = %r differs from to_string() = %r" % (unhexs(f[0])[:300], unhexs(f[1])[:300])
    # the decidable premise of C11_inject_is_inline_when_separable (Spec/CrateSeam.v crate_sep), evaluated by the
    # extracted model on the script of every inject case: where it is met, inject_parameters(build(s)) = to_string(s)
    # is a theorem about this very statement; it is not met exactly where the crate tokenizer mis-reads a literal
    # (F16 / F28) or raw text fuses with its neighbours
    sel = [i for i, (c, o) in enumerate(zip(lines, impl)) if c.startswith("inject ") and len(o.split(" ")) == 2]
    if sel:
        outs = ctx.run_model(["sep " + lines[i].split(" ", 1)[1] for i in sel], "sep")
        met = sum(1 for o in outs if "C1" in o.split(" "))
        met_and_failed = [lines[i] for i, o in zip(sel, outs) if "C1" in o.split(" ") and verdicts[i] is not None]
        notmet = [(i, o) for i, o in zip(sel, outs) if "C1" not in o.split(" ") and not o.startswith("PANIC")]
        ctx.cov["inject_theorem_premise"] = {
            "statements_evaluated": len(sel), "premise_met": met,
            "premise_not_met": len(notmet),
            "premise_not_met_and_identity_fails (known classes)": sum(1 for i, _ in notmet if verdicts[i] is not None),
            "premise_met_but_identity_fails_on_the_implementation": len(met_and_failed)}
    ctx.cov["oracle_templates_checked"] = tchecked
    ctx.cov["oracle_inject_checked"] = ichecked
    return verdicts


def classify(case, out, failure, kfs):
    for prefix, cls in (("F16 ", "inject-backslash-quote"), ("F28 ", "inject-array-constant-bracket")):
        if failure.startswith(prefix):
            for k in kfs:
                if k.get("matcher", {}).get("class") == cls:
                    return k
    return None


def run(ctx):
    return vlib.standard_flow(
        ctx, "fa", gen_cases, batch_oracle=batch_oracle, classify=classify, describe=qcommon.describe,
        regen=lambda c: regen.regen_exprtables(c),
        nontrivial=lambda c: ("3f" in c or "24" in c) if c.startswith("expr") else "(val " in c,
        rule="templates: every concatenation of up to 3 (quick: length 3 sampled) / 4 (sampled) pieces from a 13-15 symbol "
             "alphabet (words, operators, whitespace, quoted literals / identifiers with embedded marks, doubled quotes, "
             "backslash-escaped quotes, [..], placeholders, doubled marks) x 0..3 values x 3 backends, compared with an "
             "independent character-level reading of the template language, each template built at random through the enum "
             "constructor or Expr::cust_with_values / cust_with_exprs / cust_with_expr; inject_parameters(build(s)) == to_string(s) "
             "over random statements whose values range over every value kind (all 31 Value variants, finite floats, NULLs, "
             "arrays); non-trivial = contains a mark / binds a value")


def replay(path):
    obj = json.load(open(path))
    ctx = vlib.Ctx("C11", "quick")
    ctx.build("fa", model=True)
    case = obj["case"]
    i, m = ctx.run_both([case], "replay")
    print("case:", case)
    print("impl :", i[0][:300])
    print("model:", m[0][:300])
    print("correspondence:", "ok" if i[0] == m[0] else "DIFFERS", "| recorded verdict:", obj.get("verdict"))
    return 1 if i[0] != m[0] or obj.get("verdict") else 0
