"""C06 — WHERE/HAVING/ON mean the conjunction of the conditions that were added."""
import itertools
import json
import vlib
from vlib import hexs, unhexs
import qcommon
import regen
import sqlparse

B = ["my", "pg", "sl"]
ATOMS = ["a", "b", "c", "d", "e"]
T, F, U = "T", "F", "U"


# ---- the specification side: Kleene logic on condition programs (mirror of coq/Spec/Logic3.v) ----
def not3(a):
    return {T: F, F: T, U: U}[a]


def and3(a, b):
    if a == F or b == F:
        return F
    if a == T and b == T:
        return T
    return U


def or3(a, b):
    if a == T or b == T:
        return T
    if a == F and b == F:
        return F
    return U


class Prog:
    """(any|all, ops) with ops: ('add', Prog|atom) | ('none',) | ('not',)"""

    def __init__(self, is_any, ops):
        self.is_any, self.ops = is_any, ops

    def sexp(self):
        out = []
        for o in self.ops:
            if o[0] == "add":
                x = o[1]
                out.append("(%s %s)" % (o[2], x.sexp() if isinstance(x, Prog) else "(col %s)" % hexs(x)))
            elif o[0] == "none":
                out.append("(addnone)")
            else:
                out.append("(not)")
        return "(cond %s%s)" % ("any" if self.is_any else "all", "".join(" " + x for x in out))

    def sem(self, rho):
        vals, neg = [], False
        for o in self.ops:
            if o[0] == "add":
                x = o[1]
                vals.append(x.sem(rho) if isinstance(x, Prog) else rho[x])
            elif o[0] == "not":
                neg = not neg
        v = F if self.is_any else T
        for x in vals:
            v = or3(v, x) if self.is_any else and3(v, x)
        return not3(v) if neg else v

    def atoms(self):
        s = set()
        for o in self.ops:
            if o[0] == "add":
                s |= o[1].atoms() if isinstance(o[1], Prog) else {o[1]}
        return s


def enum_progs(depth, width):
    """every program with <= width members per group, nesting <= depth, every negate flag"""
    members = list(ATOMS[:2])
    if depth > 0:
        members += list(enum_progs(depth - 1, width))
    for is_any in (True, False):
        for neg in (False, True):
            for n in range(0, width + 1):
                for ms in itertools.product(members, repeat=n):
                    ops = [("add", m, "add") for m in ms]
                    if neg:
                        ops.append(("not",))
                    yield Prog(is_any, ops)


def rand_prog(rng, depth):
    ops = []
    for _ in range(rng.randrange(0, 4)):
        k = rng.random()
        if k < 0.5 or depth == 0:
            ops.append(("add", rng.choice(ATOMS), rng.choice(["add", "addopt"])))
        elif k < 0.8:
            ops.append(("add", rand_prog(rng, depth - 1), rng.choice(["add", "addopt"])))
        elif k < 0.9:
            ops.append(("none",))
        else:
            ops.append(("not",))
    return Prog(rng.random() < 0.5, ops)


# ---- members of a chain built by the doc-hidden and_or_where(LogicalChainOper::And(e)): boolean trees over atoms ----
def rand_tree(rng, depth):
    if depth <= 0 or rng.random() < 0.35:
        return rng.choice(ATOMS)
    k = rng.random()
    if k < 0.2:
        return ("not", rand_tree(rng, depth - 1))
    return (rng.choice(["and", "or"]), rand_tree(rng, depth - 1), rand_tree(rng, depth - 1))


def tree_sexp(t):
    if isinstance(t, str):
        return "(col %s)" % hexs(t)
    if t[0] == "not":
        return "(not %s)" % tree_sexp(t[1])
    return "(bin %s %s %s)" % (t[0], tree_sexp(t[1]), tree_sexp(t[2]))


def tree_sem(t, rho):
    if isinstance(t, str):
        return rho[t]
    if t[0] == "not":
        return not3(tree_sem(t[1], rho))
    a, b = tree_sem(t[1], rho), tree_sem(t[2], rho)
    return and3(a, b) if t[0] == "and" else or3(a, b)


def tree_atoms(t):
    if isinstance(t, str):
        return {t}
    return set().union(*[tree_atoms(x) for x in t[1:]])


# ---- statement contexts: where the predicate is placed ----
CONTEXTS = ["where", "having", "joinon", "update", "delete", "case"]


def wrap_context(ctx_name, items):
    """items: list of ('cond', Prog) | ('and', atom) calls in order"""
    def clause(kw_cond, kw_and):
        out = []
        for k, x in items:
            if k == "cond":
                out.append("(%s %s)" % (kw_cond, x.sexp()))
            elif k == "chain":
                out.append("(andorwhere and %s)" % tree_sexp(x))
            else:
                out.append("(%s (col %s))" % (kw_and, hexs(x)))
        return " ".join(out)
    one = "(expr (val i:i32:1))"
    if ctx_name == "where":
        return "(select %s (from (t 74)) %s)" % (one, clause("condwhere", "andwhere"))
    if ctx_name == "having":
        return "(select %s (from (t 74)) %s)" % (one, clause("condhaving", "andhaving"))
    if ctx_name == "update":
        return "(update (table (t 74)) (value 78 (val i:i32:1)) %s)" % clause("condwhere", "andwhere")
    if ctx_name == "delete":
        return "(delete (from (t 74)) %s)" % clause("condwhere", "andwhere")
    # single-condition contexts
    k, x = items[0]
    c = x.sexp() if k == "cond" else "(col %s)" % hexs(x)
    if ctx_name == "joinon":
        return "(select %s (from (t 74)) (join inner (t 75) %s))" % (one, c)
    return "(select (expr (case (w %s (val i:i32:1)))))" % c


def spec_value(ctx_name, items, rho):
    def one(k, x):
        return x.sem(rho) if k == "cond" else (tree_sem(x, rho) if k == "chain" else rho[x])
    if ctx_name in ("joinon", "case"):
        return one(*items[0])
    v = T
    for k, x in items:
        v = and3(v, one(k, x))
    return v


KEYWORD = {"where": "WHERE", "having": "HAVING", "update": "WHERE", "delete": "WHERE", "joinon": "ON", "case": "WHEN"}
CASES = {}   # case line -> (context, items)


def gen_cases(ctx):
    rng = ctx.rng
    progs = list(enum_progs(1, 2))
    if not ctx.quick:
        progs += list(enum_progs(2, 2))[:60000]
    lines = []

    def add(cx, items):
        b = rng.choice(B)
        line = "stmt %s %s" % (b, wrap_context(cx, items))
        CASES[line] = (cx, items)
        lines.append(line)
    for p in progs:
        add(rng.choice(CONTEXTS), [("cond", p)])
    n = 2500 if ctx.quick else 40000
    for _ in range(n):
        cx = rng.choice(CONTEXTS)
        k = 1 if cx in ("joinon", "case") else rng.randrange(0, 4)
        items = []
        for _ in range(k):
            items.append(("cond", rand_prog(rng, rng.choice([1, 2, 3]))) if rng.random() < 0.7 else ("and", rng.choice(ATOMS)))
        add(cx, items)
    # histories of and_or_where(And(..)) calls (never mixed with the other calls: the code panics on a mix)
    nchain = 400 if ctx.quick else 6000
    for _ in range(nchain):
        cx = rng.choice(["where", "update", "delete"])
        add(cx, [("chain", rand_tree(rng, rng.choice([0, 1, 2, 2]))) for _ in range(rng.randrange(1, 4))])
    ctx.cov["distribution"] = {"enumerated_programs": len(progs), "random_histories": n, "and_or_where_histories": nchain,
                               "contexts": CONTEXTS}
    return lines


def eval_tree(t, rho):
    k = t[0]
    if k == "not":
        return not3(eval_tree(t[1], rho))
    if k == "bin" and t[1] in ("AND", "OR"):
        a, b = eval_tree(t[2], rho), eval_tree(t[3], rho)
        return and3(a, b) if t[1] == "AND" else or3(a, b)
    if k == "atom":
        tok = t[1][0]
        if tok == ("W", "TRUE"):
            return T
        if tok == ("W", "FALSE"):
            return F
        if tok[0] == "I" and tok[1] in rho:
            return rho[tok[1]]
    raise sqlparse.ParseError("not a pure boolean tree: %r" % (t,))


def predicate_of(b, tokline, kw):
    """parse the expression that follows the keyword `kw` at parenthesis depth 0 (None: no such keyword)"""
    toks = sqlparse.toks_of(tokline)
    depth = 0
    pos = None
    for i, t in enumerate(toks):
        if t == ("C", "("):
            depth += 1
        elif t == ("C", ")"):
            depth -= 1
        elif t == ("W", kw) and (depth == 0 or kw == "WHEN"):
            pos = i
            break
    if pos is None:
        return None
    p = sqlparse.Parser(b, toks)
    p.i = pos + 1
    e = p.expr(0)
    rest = toks[p.i:]
    # what may follow the predicate
    if rest and rest[0] not in (("W", "THEN"), ("C", ")"), ("W", "SET")):
        raise sqlparse.ParseError("unexpected tokens after the predicate: %r" % (rest[:3],))
    return e


def batch_oracle(ctx, lines, impl):
    verdicts = [None] * len(lines)
    pairs = []
    for c, o in zip(lines, impl):
        f = qcommon.split_out(o)
        if f is not None and c in CASES:
            pairs.append((c.split(" ")[1], f[0]))
    toks = qcommon.etok_many(ctx, pairs)
    evaluated = assignments = 0
    for i, (c, o) in enumerate(zip(lines, impl)):
        if c not in CASES:
            continue
        f = qcommon.split_out(o)
        if f is None:
            verdicts[i] = "implementation did not render the statement: %s" % o[:100]
            continue
        b = c.split(" ")[1]
        cx, items = CASES[c]
        try:
            pred = predicate_of(b, toks[(b, f[0])], KEYWORD[cx])
        except sqlparse.ParseError as e:
            verdicts[i] = "predicate does not parse under the %s grammar: %s" % (b, e)
            continue
        if not items:
            if pred is not None:
                verdicts[i] = "no condition was given but a predicate is rendered"
            continue
        if pred is None:
            verdicts[i] = "conditions were given but no predicate is rendered"
            continue
        atoms = sorted(set().union(*[(x.atoms() if k == "cond" else (tree_atoms(x) if k == "chain" else {x}))
                                     for k, x in items]))
        evaluated += 1
        for vals in itertools.product((T, F, U), repeat=len(atoms)):
            rho = dict(zip(atoms, vals))
            assignments += 1
            try:
                got = eval_tree(pred, rho)
            except sqlparse.ParseError as e:
                verdicts[i] = str(e)
                break
            want = spec_value(cx, items, rho)
            if got != want:
                verdicts[i] = "under %s the rendered predicate is %s but the AND of the supplied conditions is %s" % (rho, got, want)
                break
    ctx.cov["oracle_predicates_evaluated"] = evaluated
    ctx.cov["oracle_assignments"] = assignments
    return verdicts


def run(ctx):
    return vlib.standard_flow(
        ctx, "fa", gen_cases, batch_oracle=batch_oracle, describe=qcommon.describe,
        regen=lambda c: regen.regen_exprtables(c),
        nontrivial=lambda c: c.count("(cond ") >= 2 or "(not)" in c,
        rule="condition programs: every any/all group with <= 2 members, nesting 1 (quick) / 2 (thorough), every "
             "negate flag, + random programs to depth 3 / width 3 with add_option(None) and repeated not(); histories "
             "of 0..3 cond_where/and_where (or having) calls; placed in SELECT WHERE / HAVING / JOIN ON / UPDATE / "
             "DELETE / CASE WHEN on a random backend; oracle: the implementation's predicate, parsed with the dialect's "
             "precedence, evaluated on all 3^k assignments of its k<=5 atoms == Kleene AND of the supplied conditions; "
             "non-trivial = nested or negated group")


def replay(path):
    obj = json.load(open(path))
    ctx = vlib.Ctx("C06", "quick")
    ctx.build("fa", model=True)
    case = obj["case"]
    i, m = ctx.run_both([case], "replay")
    print("case:", case)
    print("impl :", qcommon.readable(i[0]))
    print("model:", qcommon.readable(m[0]))
    print("correspondence:", "ok" if i[0] == m[0] else "DIFFERS")
    print("(the three-valued oracle needs the generating program; verdict recorded in the replay file: %s)" % obj.get("verdict"))
    return 1 if i[0] != m[0] or obj.get("verdict") else 0
