"""C15 — take, clone and clear behave as value operations on builders.

proof      coq/Properties/C15.v over coq/Generated/Takes.v, which tools/takes.py rewrites from the source text
           of /repo/src on every run (struct field lists, bodies of take / clear_* / reset_* / *_clear / new / Default)
tie        (i)  the field list the translator read equals the field list rustc sees (Debug of T::new());
           (ii) builder histories replayed through the public API by harness/src/takes.rs: at every take / clone /
                clear marker the harness compares ==, Debug and the renderings on the three backends, and reports
                per field what happened to it; the per-field report must be what Generated/Takes.v says
oracle     on the implementation's own observations: taken == pre-clone and renders identically; left-behind ==
           new() (query statements); clone == source; everything set aside still looks the same at the end of
           the history; a clear method gives the statement of the same history without the calls that fill
           that clause.
"""
import json
import os
import re
import sys

import vlib

sys.path.insert(0, os.path.join(vlib.ROOT, "tools"))
import takes  # noqa: E402

PID = "C15"
MARK_TAKE, MARK_CLONE, MARK_CSWAP = "take", "clone", "cswap"


# ---------------------------------------------------------------------------------------------------
# harness description of the statement types
# ---------------------------------------------------------------------------------------------------

def harness_types(ctx):
    out = ctx.run_impl(["tktypes"], "types")[0]
    types = {}
    for part in out.split(" ; "):
        f = part.strip().split(" ")
        if len(f) < 7:
            raise vlib.BuildError("tktypes output not understood: %r" % part[:200])
        kv = dict(x.split("=", 1) for x in f[1:])
        ops = []
        for o in kv["ops"].split(","):
            code, clause = o.split(">")
            param = code.endswith(".k")
            ops.append((code[:-2] if param else code, param, clause))
        clears = [] if kv["clears"] == "-" else [tuple(c.split(">")) for c in kv["clears"].split(",")]
        types[f[0]] = dict(name=f[0], take=kv["take"] == "1", eq=kv["eq"] == "1", fields=kv["fields"].split(","),
                           ops=ops, clears=clears, bad=[] if kv["bad"] == "-" else kv["bad"].split(","))
    return types


# ---------------------------------------------------------------------------------------------------
# generator
# ---------------------------------------------------------------------------------------------------

def op_tok(rng, op, k=None):
    code, param, _ = op
    if not param:
        return code
    return "%s.%d" % (code, rng.randrange(6) if k is None else k)


def markers_of(t):
    m = [MARK_CLONE, MARK_CSWAP] + [c for c, _ in t["clears"]]
    if t["take"]:
        m.insert(0, MARK_TAKE)
    return m


CANON = {
    "SelectStatement": ["distinct", "column.1", "from.0", "left_join.1", "and_where.2", "group_by_col.1", "and_having.3",
                        "order_by.1", "limit.3", "offset.2", "lock.0", "union.1", "window.1", "with_cte.0", "table_sample.0",
                        "use_index.1"],
    "InsertStatement": ["into_table.1", "columns.0", "values_panic.1", "on_conflict.1", "returning.1"],
    "UpdateStatement": ["table.1", "value.0", "and_where.1", "order_by.1", "limit.2", "returning.1"],
    "DeleteStatement": ["from_table.1", "and_where.1", "order_by.0", "limit.2", "returning.0"],
    "WindowStatement": ["partition_by.1", "order_by.2", "frame_start.1"],
    "ColumnDef": ["integer", "not_null", "default.2", "comment.1"],
    "TableCreateStatement": ["table.1", "if_not_exists", "col.0", "col_mut.1", "index.1", "foreign_key.0", "temporary", "comment.1"],
    "TableAlterStatement": ["table.1", "add_column.0"],
    "TableDropStatement": ["table.1", "table.2", "if_exists", "cascade"],
    "TableRenameStatement": ["table.1"],
    "TableTruncateStatement": ["table.1"],
    "IndexCreateStatement": ["name.1", "table.1", "col.0", "unique", "if_not_exists", "primary", "nulls_not_distinct", "include.1",
                             "and_where.1", "index_type.0"],
    "IndexDropStatement": ["name.1", "table.1", "if_exists"],
    "ForeignKeyCreateStatement": ["name.1", "from.0", "to.1", "on_delete.1", "on_update.2"],
    "ForeignKeyDropStatement": ["name.1", "table.1"],
    "TableForeignKey": ["name.1", "from_tbl.0", "from_col.0", "to_tbl.1", "to_col.1", "on_delete.1"],
    "TableIndex": ["name.1", "col.0", "col_prefix_order.1"],
}


def gen_cases(ctx, types, focus=()):
    rng = ctx.rng
    lines = []
    dist = {"exhaustive_single_marker": 0, "exhaustive_marker_pairs": 0, "random_long": 0, "focus": 0}
    for name in sorted(types):
        t = types[name]
        marks = markers_of(t)
        # (1) windows of 3 consecutive ops over the op table (every op at least once), each marker at every position
        ops = t["ops"]
        bases = []
        for i in range(0, len(ops), 2):
            w = [op_tok(rng, ops[(i + j) % len(ops)], (i + j) % 5) for j in range(3)]
            bases.append(w)
        canon = [o for o in CANON.get(name, []) if any(o.split(".")[0] == c for c, _, _ in ops)]
        if canon:
            bases.append(canon)
            for ln in (1, 2, 3, 4):
                if len(canon) >= ln:
                    bases.append(canon[:ln])
        for b in bases:
            for m in marks:
                for pos in range(len(b) + 1):
                    lines.append("tk %s %s" % (name, " ".join(b[:pos] + [m] + b[pos:])))
                    dist["exhaustive_single_marker"] += 1
        # (2) every ordered pair of markers at every pair of positions of the canonical history (prefix)
        if canon:
            c = canon[:5 if ctx.quick else 8]
            for m1 in marks:
                for m2 in marks:
                    for p1 in range(len(c) + 1):
                        for p2 in range(p1, len(c) + 1):
                            h = c[:p1] + [m1] + c[p1:p2] + [m2] + c[p2:]
                            lines.append("tk %s %s" % (name, " ".join(h)))
                            dist["exhaustive_marker_pairs"] += 1
    # (3) random long histories
    n_rand = 40000 if ctx.quick else 600000
    names = sorted(types)
    weights = [8 if n == "SelectStatement" else 3 if types[n]["take"] or types[n]["clears"] else 1 for n in names]

    def rand_history(name, lo=4, hi=24):
        t = types[name]
        marks = markers_of(t)
        ln = rng.randrange(lo, hi)
        pm = rng.choice((0.15, 0.3, 0.5))
        h = []
        for _ in range(ln):
            if rng.random() < pm:
                h.append(rng.choice(marks))
            else:
                h.append(op_tok(rng, rng.choice(t["ops"])))
        if not any(x in marks for x in h):
            h.insert(rng.randrange(len(h) + 1), rng.choice(marks))
        return "tk %s %s" % (name, " ".join(h))

    for _ in range(n_rand):
        lines.append(rand_history(rng.choices(names, weights)[0]))
        dist["random_long"] += 1
    for name in focus:
        if name in types:
            for _ in range(1500):
                lines.append(rand_history(name, 2, 12))
                dist["focus"] += 1
    ctx.cov["distribution"] = dist
    return lines


# ---------------------------------------------------------------------------------------------------
# oracle
# ---------------------------------------------------------------------------------------------------

EV = re.compile(r"^([TCSXPU])@(\d+)(?::(.*))?$")


def parse_output(out):
    """-> (type, fields, events, endbits) or None"""
    m = re.match(r"^(\w+) F=(\S*) \| (.*) \| E:(\S+) H=([0-9a-f]+)( ## (\S+))?$", out)
    if not m:
        return None
    evs = []
    if m.group(3) != "-":
        for tok in m.group(3).split(" "):
            me = EV.match(tok)
            if not me:
                return None
            evs.append((me.group(1), int(me.group(2)), me.group(3) or ""))
    return dict(type=m.group(1), fields=m.group(2).split(","), events=evs, end=m.group(4), hash=m.group(5),
                log=m.group(7))


def check_case(case, out, model, types):
    """returns (oracle_failure or None, correspondence_disagreement or None, n_model_comparisons)"""
    p = parse_output(out)
    toks = case.split(" ")
    tname = toks[1]
    hist = toks[2:]
    if p is None:
        return "the harness did not produce an observation line: %s" % out[:200], None, 0
    info = model["types"].get(tname)
    t = types[tname]
    fields = p["fields"]
    fails, dis, ncmp = [], [], 0

    def bits_ok(s, what, pos):
        # e<0|1|->d<0|1>r<3 bits>
        mm = re.match(r"^l?e([01-])l?d([01])l?r([01]{3})$", s)
        if not mm:
            fails.append("%s at %d: observation not understood (%s)" % (what, pos, s))
            return
        if mm.group(1) == "0":
            fails.append("%s at position %d: == says the two statements differ" % (what, pos))
        if mm.group(2) == "0":
            fails.append("%s at position %d: the Debug renderings differ" % (what, pos))
        if mm.group(3) != "111":
            bad = [b for b, x in zip(("MySQL", "Postgres", "SQLite"), mm.group(3)) if x == "0"]
            fails.append("%s at position %d: renderings differ on %s" % (what, pos, "/".join(bad)))

    for kind, pos, rest in p["events"]:
        if kind == "P":
            break
        if kind == "U":
            fails.append("op %s at %d is not understood by the harness" % (hist[pos] if pos < len(hist) else "?", pos))
            break
        if kind in "CS":
            bits_ok(rest, "clone vs source", pos)
        elif kind == "T":
            a, b, f = rest.split(";")
            bits_ok(a, "taken statement vs clone made just before take()", pos)
            is_query = info is not None and info["query"] and info["has_take"]
            if is_query or (info is None and t["eq"]):
                bits_ok(b, "statement left behind by take() vs new()", pos)
            codes = f[1:]
            for j, ch in enumerate(codes):
                v = int(ch)
                r, ln, lo = v >> 2 & 1, v >> 1 & 1, v & 1
                if not r:
                    fails.append("take() at position %d: field `%s` of the returned statement differs from the field before the call"
                                 % (pos, fields[j]))
                if info is not None and info["take"] is not None and j < len(info["take"]):
                    x = info["take"][j]
                    ncmp += 1
                    if x["left_class"] == "default" and not ln:
                        (fails if is_query else dis).append(
                            "take() at position %d: field `%s` left behind is not the field of a new statement (model: %s)"
                            % (pos, fields[j], x["form"]))
                    if x["left_class"] == "old" and not lo:
                        dis.append("take() at position %d: field `%s` left behind is not the old value although the model says it is copied (%s)"
                                   % (pos, fields[j], x["form"]))
        elif kind == "X":
            meth, obs = rest.split(":", 1)
            o, f = obs.split(";")
            if o != "skipped":
                bits_ok(o, "%s vs the same history without the calls that fill that clause" % meth, pos)
            clause = dict(t["clears"]).get(meth)
            exp = None
            if info is not None and meth in info["clears"]:
                exp = info["clears"][meth]["expected"]
            codes = f[1:]
            for j, ch in enumerate(codes):
                v = int(ch)
                kept, isnew = v >> 1 & 1, v & 1
                target = fields[j] == (exp or clause)
                ncmp += 1
                if target and not isnew:
                    fails.append("%s at position %d: the clause field `%s` is not empty afterwards" % (meth, pos, fields[j]))
                if not target and not kept:
                    fails.append("%s at position %d: field `%s` changed although it is not the clause being cleared"
                                 % (meth, pos, fields[j]))
    for i, ch in enumerate(p["end"]):
        if ch == "0":
            fails.append("statement set aside #%d (clone / taken / source) no longer looks as it did when it was set aside" % i)
    return ("; ".join(fails[:4]) if fails else None), ("; ".join(dis[:4]) if dis else None), ncmp


def shrink(ctx, case, model, types):
    """delta debugging over the history: drop calls while the oracle still rejects the observations"""
    toks = case.split(" ")
    head, hist = toks[:2], toks[2:]
    out = None
    for _ in range(60):
        cands = [hist[:i] + hist[i + 1:] for i in range(len(hist)) if len(hist) > 1]
        if not cands:
            break
        lines = [" ".join(head + c) for c in cands]
        outs = ctx.run_impl(lines, "shrink")
        for c, l, o in zip(cands, lines, outs):
            if check_case(l, o, model, types)[0]:
                hist, out = c, o
                break
        else:
            break
    return " ".join(head + hist), out


def describe(case):
    toks = case.split(" ")
    return "%s::new() . %s" % (toks[1], " . ".join(toks[2:]))


# ---------------------------------------------------------------------------------------------------
# static part of the tie: translator vs what rustc sees
# ---------------------------------------------------------------------------------------------------

def static_tie(ctx, model, types):
    problems = []
    for name, info in sorted(model["types"].items()):
        if name not in types:
            problems.append("statement type %s (%s) has take()/clear methods but the harness has no driver for it: "
                            "no dynamic coverage" % (name, info["path"]))
            continue
        t = types[name]
        if info["fields"] != t["fields"]:
            problems.append("%s: translator read fields %s but the Debug output of the compiled struct lists %s"
                            % (name, info["fields"], t["fields"]))
        if info["has_take"] != t["take"]:
            problems.append("%s: has_take translator=%s harness=%s" % (name, info["has_take"], t["take"]))
        hm = dict(t["clears"])
        if set(hm) != set(info["clears"]):
            problems.append("%s: clear methods translator=%s harness=%s" % (name, sorted(info["clears"]), sorted(hm)))
        for m, c in info["clears"].items():
            if m in hm and hm[m] != c["expected"]:
                problems.append("%s::%s: harness clause %s vs expected field %s" % (name, m, hm[m], c["expected"]))
        if t["bad"]:
            problems.append("%s: ops not understood by the harness: %s" % (name, t["bad"]))
    return problems


def diagnose(model):
    """plain-language reading of the translated bodies: which obligations cannot hold"""
    out, focus = [], []
    for name, info in sorted(model["types"].items()):
        if info["take"]:
            for x in info["take"]:
                if x["ret_class"].startswith("lost"):
                    out.append("%s::take (%s): field `%s` is not handed over (%s) -> take_returns_all_state_%s fails"
                               % (name, info["path"], x["field"], x["form"] + " " + x.get("const", ""), name))
                    focus.append(name)
                if info["query"] and x["left_class"] != "default":
                    out.append("%s::take (%s): field `%s` is left %s (%s) -> take_leaves_new_%s fails"
                               % (name, info["path"], x["field"], x["left_class"], x["form"], name))
                    focus.append(name)
        for m, c in info["clears"].items():
            touched = [u["field"] for u in c["updates"]]
            if touched != [c["expected"]] or any(u["cls"] != "default" for u in c["updates"]):
                out.append("%s::%s (%s:%d) assigns %s; expected exactly `%s` := empty -> clear_touches_only_its_clause_%s_%s fails"
                           % (name, m, c["path"], c["line"], ["%s" % u["form"] for u in c["updates"]], c["expected"], name, m))
                focus.append(name)
    return out, sorted(set(focus))


# ---------------------------------------------------------------------------------------------------
# run / replay
# ---------------------------------------------------------------------------------------------------

def regen(ctx):
    with vlib.build_lock():
        model, errors = takes.regen()
    ctx.model = model
    ctx.translate_errors = errors
    for e in errors:
        ctx.log("TRANSLATE-ERROR:", e)
    return model, errors


def run(ctx):
    cov = ctx.cov
    try:
        ctx.harness = vlib.harness_build("base")
        model, terrors = regen(ctx)
        proof_ok = ctx.coq() and not terrors
        types = harness_types(ctx)
    except vlib.BuildError as e:
        ctx.log(str(e))
        ctx.violation({"kind": "build-failure", "detail": str(e)[-3000:],
                       "theorem_or_correspondence": "harness build against /repo"}, no_input=True)
        return ctx.finish()
    diag, focus = diagnose(model)
    for d in diag:
        ctx.log("OBLIGATION:", d)
    static = static_tie(ctx, model, types)
    for s in static:
        ctx.log("TIE:", s)
    ctx.log("statement types: translator %d (takers %s), harness %d" % (len(model["types"]), len(model["takers"]), len(types)))

    lines = ctx.corpus() + gen_cases(ctx, types, focus)
    seen, uniq = set(), []
    for l in lines:
        if l not in seen:
            seen.add(l)
            uniq.append(l)
    lines = uniq
    ctx.log("running %d builder histories on the implementation" % len(lines))
    impl = ctx.run_impl(lines)
    failures, disagreements = [], []
    ncmp = nt = 0
    op_cov = dict((n, set()) for n in types)
    mark_cov = dict((n, {}) for n in types)
    type_cases = dict((n, 0) for n in types)
    panics = 0
    hashes = set()
    for c, o in zip(lines, impl):
        f, d, k = check_case(c, o, model, types)
        ncmp += k
        toks = c.split(" ")
        name, hist = toks[1], toks[2:]
        type_cases[name] = type_cases.get(name, 0) + 1
        p = parse_output(o)
        stop = len(hist)
        if p:
            hashes.add((name, p["hash"]))
            for kind, pos, _ in p["events"]:
                if kind in "PU":
                    stop = pos
                    panics += kind == "P"
                    break
            marks = set(markers_of(types[name]))
            had_op = counted = False
            for x in hist[:stop]:
                if x in marks:
                    mark_cov[name][x] = mark_cov[name].get(x, 0) + 1
                    if had_op and not counted:
                        nt += 1
                        counted = True
                else:
                    op_cov[name].add(x.split(".")[0])
                    had_op = True
        if f:
            failures.append((c, o, f))
        if d:
            disagreements.append((c, o, d))
    cov["evaluations"] = len(lines)
    cov["distinct_nontrivial"] = nt
    cov["traces_validated_against_impl"] = ncmp
    cov["disagreements"] = len(disagreements) + len(static)
    cov["oracle_failures"] = len(failures)
    cov["rule"] = ("builder histories per statement type: every marker (take/clone/cswap/clear_*/reset_*/from_clear) at every "
                   "position of short histories covering every builder op, every ordered marker pair at every position pair "
                   "of a canonical history, random long histories; non-trivial = a marker preceded by at least one builder call; "
                   "traces_validated = per-field observations compared with Generated/Takes.v")
    missing = dict((n, sorted(set(o[0] for o in types[n]["ops"]) - op_cov[n])) for n in types)
    missing = dict((n, v) for n, v in missing.items() if v)
    cov["op_coverage"] = dict((n, "%d/%d" % (len(op_cov[n]), len(types[n]["ops"]))) for n in sorted(types))
    cov["ops_never_executed"] = missing
    cov["marker_coverage"] = mark_cov
    cov["cases_per_type"] = type_cases
    cov["histories_cut_by_builder_panic"] = panics
    cov["distinct_final_statements"] = len(hashes)
    cov["statement_types_translated"] = sorted(model["types"])
    cov["takers"] = model["takers"]
    cov["query_takers"] = model["query_takers"]
    cov["clearers"] = model["clearers"]
    cov["generated_lemmas"] = len(model["lemmas"])
    cov["fields_take_copies"] = dict((n, i.get("copied")) for n, i in model["types"].items() if i.get("copied"))
    cov["fields_take_replaces_by_constant"] = dict((n, i.get("left_const")) for n, i in model["types"].items() if i.get("left_const"))
    cov["unpinned_clear_methods"] = [k for k in model["clearers"]
                                     if not model["types"][k.split("::")[0]]["clears"][k.split("::")[1]]["pinned"]]
    step = max(1, len(lines) // 5)
    for k in range(0, len(lines), step):
        cov["samples"].append({"case": describe(lines[k]), "impl": impl[k][:300]})
    if missing:
        ctx.log("ops never executed in this run:", missing)
    ctx.log("op coverage %s; %d per-field comparisons with the model; %d histories cut by a panicking builder call"
            % (cov["op_coverage"], ncmp, panics))
    ctx.notes.append("proved: for every World (all element types / foreign defaults / constants) the translated take() returns "
                     "every field, query statements leave new() behind, schema statements leave exactly the listed copied fields, "
                     "each clear method is the update of one field; observed: Clone, PartialEq, Debug, renderings on 3 backends, "
                     "per-field behaviour of take/clear on the compiled code")
    for n, v in cov["fields_take_copies"].items():
        ctx.notes.append("%s::take deliberately copies (does not reset): %s" % (n, ", ".join(v)))
    for k in cov["unpinned_clear_methods"]:
        ctx.notes.append("clear method %s has no hand-pinned clause; specified as the single field its body assigns" % k)
    with open(os.path.join(ctx.work, "failures.json"), "w") as f:
        json.dump({"oracle_failures": [(describe(c), o[:300], v) for c, o, v in failures[:500]],
                   "disagreements": [(describe(c), o[:300], v) for c, o, v in disagreements[:500]],
                   "static": static, "obligations": diag, "translate_errors": terrors}, f, indent=1)
    with open(os.path.join(ctx.work, "model.json"), "w") as f:
        json.dump(model, f, indent=1, default=str)

    proof_detail = None
    if not proof_ok:
        proof_detail = {"translate_errors": terrors, "coq": (ctx.proof or {}).get("error") or (ctx.proof or {}).get("forbidden"),
                        "reading_of_the_translated_bodies": diag}
    # shortest failing histories first: they make the most useful replays
    failures.sort(key=lambda x: len(x[0].split(" ")))
    if failures:
        c, o, v = failures[0]
        c2, o2 = shrink(ctx, c, model, types)
        if o2 is not None:
            failures[0] = (c2, o2, check_case(c2, o2, model, types)[0])
    for c, o, v in failures[:3]:
        obj = {"kind": "oracle-failure", "case": c, "case_readable": describe(c), "impl_output": o[:2000], "verdict": v}
        if proof_detail:
            obj["broken_proof_obligation"] = proof_detail
        ctx.violation(obj)
    if not failures:
        if not proof_ok:
            ctx.violation({"kind": "proof-broken", "theorem_or_correspondence": "coq/Properties/C15.v over coq/Generated/Takes.v",
                           "detail": proof_detail}, no_input=True)
        elif static or disagreements:
            first = disagreements[0] if disagreements else None
            ctx.log("correspondence broken: %s" % (static[:2] or first[2]))
            ctx.violation({"kind": "correspondence-broken",
                           "theorem_or_correspondence": "Generated/Takes.v vs the compiled statement types",
                           "static": static, "case": first[0] if first else None,
                           "case_readable": describe(first[0]) if first else None,
                           "impl_output": first[1][:2000] if first else None, "detail": first[2] if first else None,
                           "n_disagreements": len(disagreements),
                           "note": "the property's oracle accepted the implementation's observations on every explored "
                                   "history; the model no longer describes the code"}, no_input=True)
    return ctx.finish()


def replay(path):
    obj = json.load(open(path))
    ctx = vlib.Ctx(PID, "quick")
    ctx.harness = vlib.harness_build("base")
    model, errors = takes.translate()[2:]
    types = harness_types(ctx)
    if obj.get("broken_proof_obligation") or obj.get("kind") == "proof-broken":
        print("broken proof obligation recorded in the replay:")
        print(json.dumps(obj.get("broken_proof_obligation") or obj.get("detail"), indent=1)[:3000])
        d, _ = diagnose(model)
        print("reading of the current source:", d or "all obligations hold", "| translate errors:", errors or "none")
    case = obj.get("case")
    if not case:
        if obj.get("kind") == "proof-broken":
            ok = not errors and vlib.coq_build(PID)["ok"]
            print("proof now:", "ok" if ok else "BROKEN")
            return 0 if ok else 1
        print(json.dumps(obj, indent=1)[:3000])
        return 1
    vcase = "tkv" + case[2:]
    out = ctx.run_impl([vcase], "replay")[0]
    p = parse_output(out)
    print("history:", describe(case))
    if p and p["log"]:
        print(vlib.unhexs(p["log"]))
    print("observations:", out.split(" ## ")[0])
    f, d, _ = check_case(case, out, model, types)
    print("oracle:", f or "ok")
    if d:
        print("model correspondence:", d)
    return 1 if (f or d) else 0
