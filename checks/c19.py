"""C19 — derived identifiers spell the documented names.

The property quantifies over programs, so the harness is a generated crate (tools/derive_gen.py ->
/verif/harness_c19, compiled against /repo's working tree: the proc-macros run inside rustc). The
extracted Coq model (extract/c19) computes the same lines from a description of the type definitions.
"""
import json
import os
import subprocess
import time
from concurrent.futures import ThreadPoolExecutor

import vlib
import derive_gen as G
from derive_gen import hexs, unhexs

COLS = ["to_string", "prepare_backtick", "prepare_dquote", "general_backtick", "general_dquote", "as_str",
        "debug_name", "type_name"]

# defect classes the generator leaves out unless they are listed in known_findings.json (matcher {"class": ..})
# or requested with VERIF_C19_CLASSES=raw_ident,unit_brace
DEFECT_CLASSES = ("raw_ident", "unit_brace")


def enabled_classes(kfs):
    cl = set(c for c in os.environ.get("VERIF_C19_CLASSES", "").split(",") if c)
    for k in kfs:
        c = k.get("matcher", {}).get("class")
        if c in DEFECT_CLASSES:
            cl.add(c)
    return sorted(cl)


def run_model(exe, lines, work, tag):
    p = os.path.join(work, tag + ".cases")
    with open(p, "w") as f:
        f.write("\n".join(lines) + "\n")
    r = subprocess.run([exe, p], stdout=subprocess.PIPE, stderr=subprocess.PIPE, timeout=3000)
    return r.stdout.decode("utf-8", "replace").splitlines()


def query_class(types, tid, value):
    """which defect class (if any) the name path of this value goes through"""
    t = types[tid]
    if t["kind"] == "unit":
        if t["ident"].startswith("r#") and G.effective_attr(t["cattrs"]) is None:
            return "raw_ident"
        if any(c in G.spec_table_name(t) for c in "{}"):
            return "unit_brace"
        return None
    i, inner = G.parse_value(value)
    if t["kind"] == "edef":
        if i == 0:
            return "raw_ident" if t["ident"].startswith("r#") and t["table_name"] is None else None
        return "raw_ident" if t["fields"][i - 1].startswith("r#") else None
    var = t["variants"][i]
    e = G.effective_attr(var["attrs"])
    if e is None:
        if var["ident"].startswith("r#"):
            return "raw_ident"
        if var["ident"] == "Table" and t["ident"].startswith("r#") and G.effective_attr(t["cattrs"]) is None:
            return "raw_ident"
        return None
    if e[0] == "flatten":
        return query_class(types, inner[0], inner[1])
    return None


def oracle(types, tid, value, impl):
    """the property on the implementation's own output"""
    f = impl.split(" ")
    if len(f) != len(COLS):
        return "implementation did not produce a row: %s" % impl
    ts, pb, pd, gb, gd, as_, dbg, ty = f
    t = types[tid]
    want = G.spec_name(types, tid, value)
    if unhexs(ts) != want:
        return "to_string() is %r, the documented name is %r" % (unhexs(ts), want)
    if pb != gb:
        return "prepare with ` writes %r, the general identifier quoting of %r is %r" % (unhexs(pb), unhexs(ts), unhexs(gb))
    if pd != gd:
        return 'prepare with " writes %r, the general identifier quoting of %r is %r' % (unhexs(pd), unhexs(ts), unhexs(gd))
    if as_ != "~" and unhexs(as_) != want:
        return "as_str() is %r, the documented name is %r" % (unhexs(as_), want)
    if t["static"] and as_ == "~":
        return "no as_str for an IdenStatic type"
    if t["kind"] == "edef":
        i, _ = G.parse_value(value)
        vname = "Table" if i == 0 else G.spec_pascal(G.unraw(t["fields"][i - 1]))
        if unhexs(dbg) != vname:
            return "enum_def variant is called %r, documented %r" % (unhexs(dbg), vname)
        if unhexs(ty) != G.edef_enum_name(t):
            return "enum_def enum is called %r, documented %r" % (unhexs(ty), G.edef_enum_name(t))
    return None


def describe(types, tid, value):
    t = types[tid]
    return "%s value %s of: %s" % (t["kind"], value,
                                   " | ".join(G.rust_typedef(types, types[k]).replace("\n", " ") for k in G.closure(types, tid)))


def names_for_heck(rng, n):
    out = ["HTTPServer2Go", "FontSize", "Abc_Def", "ABcDE", "abc123DEf456", "ABC123dEEf456FOO", "_1", "__a__B_", "r#type",
           "XMLHttpRequest", "FieldNamE11", "", "_", "a", "A", "9", "Table", "TABLE", "table_", "aB", "AbC", "A1b", "a1B"]
    alpha = "abzABZ019__"
    for _ in range(n):
        r = rng.random()
        if r < 0.5:
            out.append(G.rand_ident(rng, rng.choice(["type", "variant", "field"])))
        else:
            out.append("".join(rng.choice(alpha) for _ in range(rng.randrange(1, 12))))
    # exhaustive short words over a case-relevant alphabet
    import itertools
    for k in range(1, 5):
        for tup in itertools.product("aBC1_", repeat=k):
            out.append("".join(tup))
    seen, uniq = set(), []
    for s in out:
        if s not in seen:
            seen.add(s)
            uniq.append(s)
    return uniq


def build_failure_inputs(types, text):
    """(tid, first error line) for the type modules the compiler errors point at"""
    import re
    out, seen = [], set()
    for block in re.split(r"\n(?=error)", text):
        if not block.startswith("error"):
            continue
        m = re.search(r"\bt(\d+)\b", block)
        if m and int(m.group(1)) in types_index(types) and int(m.group(1)) not in seen:
            seen.add(int(m.group(1)))
            out.append((int(m.group(1)), " ".join(block.splitlines()[:6])[:600]))
    return out


def types_index(types):
    return set(types.keys()) if isinstance(types, dict) else set(range(len(types)))


def write_violation(ctx, types, tid, value, impl, model, verdict, kind):
    cl = G.closure(types, tid)
    ctx.violation({"kind": kind, "query": [tid, value], "types": {str(k): types[k] for k in cl},
                   "program": "\n".join(G.rust_typedef(types, types[k]) for k in cl),
                   "value_expr": G.rust_value(types, tid, value),
                   "columns": COLS, "impl_output": impl, "model_output": model, "verdict": verdict,
                   "impl_readable": [unhexs(x) if x not in ("~",) else None for x in impl.split(" ")] if " " in impl else impl})


def execute(ctx, types, queries, tag="cases"):
    """build the generated crate and the model, run both; returns (impl_lines, model_lines, fast_flags)"""
    src = G.rust_source(types, queries)
    with ThreadPoolExecutor(max_workers=2) as ex:
        fb = ex.submit(G.build, src)
        fm = ex.submit(vlib.model_build, "c19")
        exe = fb.result()
        model = fm.result()
    ctx.harness, ctx.model = exe, model
    r = subprocess.run([exe], stdout=subprocess.PIPE, stderr=subprocess.PIPE, timeout=3000)
    impl = r.stdout.decode("utf-8", "replace").splitlines()
    if r.returncode != 0 or len(impl) != len(queries):
        impl = impl + ["CRASH rc=%s %s" % (r.returncode, r.stderr.decode("utf-8", "replace")[-300:].replace("\n", " "))] * \
               (len(queries) - len(impl))
    tl = [types[k] for k in sorted(types)] if isinstance(types, dict) else types
    lines = [l for t in tl for l in G.type_lines(t)] + ["q %d %s" % (tid, v) for tid, v in queries]
    mod = run_model(model, lines, ctx.work, tag)
    if len(mod) != len(queries):
        mod = mod + ["MODEL-MISSING"] * (len(queries) - len(mod))
    flags = [m.rsplit(" ", 1)[1] if " " in m else "" for m in mod]
    mod = [m.rsplit(" ", 1)[0] if " " in m else m for m in mod]
    # the type name of a raw identifier is printed without r# by rustc
    for k, (tid, v) in enumerate(queries):
        if types[tid]["ident"].startswith("r#") and " " in mod[k] and types[tid]["kind"] != "edef":
            f = mod[k].split(" ")
            f[7] = hexs(G.unraw(unhexs(f[7])))
            mod[k] = " ".join(f)
    return impl, mod, flags


def run(ctx):
    kfs = vlib.known_findings(ctx.pid)
    classes = enabled_classes(kfs)
    n_types = int(os.environ.get("VERIF_C19_TYPES", "0") or 0) or (800 if ctx.quick else 6000)
    types = G.gen_types(ctx.rng, n_types, classes)
    queries = [(t["tid"], v) for t in types for v in G.type_values(types, t["tid"], ctx.rng)]
    cov = ctx.cov
    proof_ok = ctx.coq()
    ctx.log("generated %d types / %d values; compiling the generated crate against /repo" % (len(types), len(queries)))
    t0 = time.time()
    try:
        impl, mod, flags = execute(ctx, types, queries)
    except (G.BuildFailed, vlib.BuildError) as e:
        ctx.log("BUILD FAILED:\n" + str(e)[-3000:])
        # a generated program mentions the documented names (enum_def enum and variant identifiers); if rustc rejects
        # it, the type definitions the errors point at are failing inputs
        bad = build_failure_inputs(types, str(e)) if isinstance(e, G.BuildFailed) else []
        for tid, msg in bad[:3]:
            v = G.type_values(types, tid, ctx.rng)[0]
            write_violation(ctx, types, tid, v, "DOES-NOT-COMPILE", "-",
                            "the program that uses the documented names does not compile: " + msg, "oracle-failure")
        if not bad:
            ctx.violation({"kind": "build-failure", "detail": str(e)[-6000:],
                           "theorem_or_correspondence": "generated crate (harness_c19/src/main.rs, kept on disk) or the model "
                                                        "does not build against /repo"}, no_input=True)
        return ctx.finish()
    ctx.log("crate built and run in %.1fs" % (time.time() - t0))

    failures, disagreements = [], []
    nt = 0
    for (tid, v), i, m in zip(queries, impl, mod):
        if i != m:
            disagreements.append((tid, v, i, m))
        f = oracle(types, tid, v, i)
        name = G.spec_name(types, tid, v)
        if not G.spec_valid_iden(name) or "_" in name:
            nt += 1
        if f:
            c = query_class(types, tid, v)
            k = next((k for k in kfs if c and k.get("matcher", {}).get("class") == c), None)
            if k:
                ctx.known(k, describe(types, tid, v)[:300])
            else:
                failures.append((tid, v, i, m, f))

    # dense check of the naming functions themselves: heck (as locked by /repo) vs model vs documented naming
    names = names_for_heck(ctx.rng, 4000 if ctx.quick else 60000)
    hp = os.path.join(ctx.work, "heck.names")
    with open(hp, "w") as f:
        f.write("\n".join(hexs(s) for s in names) + "\n")
    r = subprocess.run([ctx.harness, "--heck", hp], stdout=subprocess.PIPE, stderr=subprocess.PIPE, timeout=3000)
    heck_out = r.stdout.decode("utf-8", "replace").splitlines()
    ms = run_model(ctx.model, ["snake %s" % hexs(s) for s in names], ctx.work, "snake")
    mp = run_model(ctx.model, ["pascal %s" % hexs(s) for s in names], ctx.work, "pascal")
    heck_bad = []
    if not (len(heck_out) == len(ms) == len(mp) == len(names)):
        heck_bad.append(("<run>", "line counts %d/%d/%d/%d" % (len(heck_out), len(ms), len(mp), len(names)), "", ""))
    else:
        for s, h, a, b in zip(names, heck_out, ms, mp):
            spec = "%s %s" % (hexs(G.spec_snake(s)), hexs(G.spec_pascal(s)))
            if h != "%s %s" % (a, b) or h != spec:
                heck_bad.append((s, h, "%s %s" % (a, b), spec))
    ctx.log("naming functions: %d names through heck, model and the documented word rule: %d differences"
            % (len(names), len(heck_bad)))

    cov["evaluations"] = len(queries) + len(names)
    cov["traces_validated_against_impl"] = len(queries) + len(names)
    cov["distinct_nontrivial"] = nt
    cov["disagreements"] = len(disagreements) + len(heck_bad)
    cov["oracle_failures"] = len(failures)
    cov["rule"] = ("programs: generated enums / unit structs deriving Iden or IdenStatic and #[enum_def] structs, names from "
                   "PascalCase, acronym, digit, underscore and lowercase pieces, container and variant attributes in every "
                   "supported spelling (#[iden = ..], #[iden(rename = ..)], #[method = ..], #[iden(method = ..)], "
                   "#[iden(flatten)], several items, a second ignored attribute), renames with quote characters and other "
                   "non-identifier text; every value of every type (two per flattened variant); plus the naming functions on "
                   "random and exhaustive short names; non-trivial = the name holds an underscore or is not a plain identifier")
    kinds = {"enum": 0, "unit": 0, "edef": 0}
    attr_kinds = {"none": 0, "rename": 0, "method": 0, "flatten": 0, "table_variant": 0, "container_rename": 0,
                  "second_attr_ignored": 0, "list_with_several_items": 0, "tuple_or_struct_variant": 0, "static": 0,
                  "rename_with_quote_char": 0, "rename_not_an_identifier": 0}
    for t in types:
        kinds[t["kind"]] += 1
        attr_kinds["static"] += 1 if t["static"] else 0
        if t["cattrs"]:
            attr_kinds["container_rename"] += 1
        for v in t.get("variants", []):
            e = G.effective_attr(v["attrs"])
            attr_kinds[e[0] if e else "none"] += 1
            attr_kinds["table_variant"] += 1 if v["ident"] == "Table" else 0
            attr_kinds["second_attr_ignored"] += 1 if len(v["attrs"]) > 1 else 0
            attr_kinds["list_with_several_items"] += 1 if any(a[0] == "L" and len(a[1]) > 1 for a in v["attrs"]) else 0
            attr_kinds["tuple_or_struct_variant"] += 1 if v["fields"][0] != "u" else 0
            if e and e[0] == "rename":
                attr_kinds["rename_with_quote_char"] += 1 if any(c in e[1] for c in '"`') else 0
                attr_kinds["rename_not_an_identifier"] += 0 if G.spec_valid_iden(e[1]) else 1
    fast_types = len(set(tid for (tid, _), fl in zip(queries, flags) if fl == "fast"))
    cov["distribution"] = {"types": kinds, "attributes": attr_kinds, "values": len(queries),
                           "types_with_generated_fast_prepare": fast_types, "names_through_heck": len(names),
                           "defect_classes_included": classes,
                           "defect_classes_left_out": [c for c in DEFECT_CLASSES if c not in classes]}
    step = max(1, len(queries) // 6)
    for k in range(0, len(queries), step):
        tid, v = queries[k]
        cov["samples"].append({"case": describe(types, tid, v)[:600], "impl": impl[k][:300], "model": mod[k][:300]})
    with open(os.path.join(ctx.work, "failures.json"), "w") as f:
        json.dump({"oracle_failures": [(describe(types, tid, v), i, fl) for tid, v, i, m, fl in failures[:500]],
                   "disagreements": [(describe(types, tid, v), i, m) for tid, v, i, m in disagreements[:500]],
                   "naming_differences": heck_bad[:500]}, f, indent=1, ensure_ascii=False)

    for tid, v, i, m, f in failures[:3]:
        write_violation(ctx, types, tid, v, i, m, f, "oracle-failure")
    if not failures:
        if disagreements:
            tid, v, i, m = disagreements[0]
            ctx.log("correspondence broken on %d values; first: %s\n impl =%s\n model=%s" % (
                len(disagreements), describe(types, tid, v)[:400], i, m))
            cl = G.closure(types, tid)
            ctx.violation({"kind": "correspondence-broken", "theorem_or_correspondence": "model/implementation correspondence for C19",
                           "query": [tid, v], "types": {str(k): types[k] for k in cl},
                           "program": "\n".join(G.rust_typedef(types, types[k]) for k in cl),
                           "columns": COLS, "impl_output": i, "model_output": m, "n_disagreements": len(disagreements),
                           "note": "the property's oracle accepted the implementation's output on every explored value; the "
                                   "model no longer describes the code"}, no_input=True)
        elif heck_bad:
            s, h, mm, spec = heck_bad[0]
            ctx.log("naming functions differ on %d names; first %r: heck=%s model=%s documented=%s" % (len(heck_bad), s, h, mm, spec))
            ctx.violation({"kind": "correspondence-broken", "theorem_or_correspondence":
                           "heck snake_case/PascalCase vs Coq transcription vs documented word rule",
                           "name": s, "heck": h, "model": mm, "documented": spec, "n": len(heck_bad)}, no_input=True)
        elif not proof_ok:
            ctx.violation({"kind": "proof-broken", "theorem_or_correspondence": "coq/Properties/C19.v",
                           "detail": ctx.proof.get("error") or ctx.proof["forbidden"]}, no_input=True)
    ctx.assumptions = ["heck 0.4.1 (its algorithm is transcribed into the model and tied by the correspondence), syn / darling "
                       "attribute parsing and rustc macro expansion are not verified",
                       "the documented naming used by the oracle is the word rule in tools/derive_gen.py (spec_words)"]
    return ctx.finish()


def replay(path):
    obj = json.load(open(path))
    ctx = vlib.Ctx("C19", "quick")
    if "query" not in obj:
        print("this replay has no failing input:", obj.get("kind"), str(obj.get("detail", ""))[:2000])
        return 1
    types = {int(k): v for k, v in obj["types"].items()}
    tid, value = obj["query"]
    try:
        impl, mod, flags = execute(ctx, types, [(tid, value)], "replay")
    except (G.BuildFailed, vlib.BuildError) as e:
        print("program:\n" + "\n".join(G.rust_typedef(types, types[k]) for k in G.closure(types, tid)))
        print("value  :", G.rust_value(types, tid, value))
        print("oracle: the program that uses the documented names does not compile:\n" + str(e)[-3000:])
        return 1
    print("program:\n" + "\n".join(G.rust_typedef(types, types[k]) for k in G.closure(types, tid)))
    print("value  :", G.rust_value(types, tid, value))
    for c, a, b in zip(COLS, impl[0].split(" "), mod[0].split(" ")):
        print("  %-18s impl=%r model=%r" % (c, None if a == "~" else unhexs(a), None if b == "~" else unhexs(b)))
    print("documented name:", repr(G.spec_name(types, tid, value)), "| derive emits:", flags[0], "prepare")
    f = oracle(types, tid, value, impl[0])
    print("oracle:", f or "ok")
    return 1 if f else 0
