"""C09 — portable statements denote the same query on all three backends."""
import json
import vlib
from vlib import hexs, unhexs
import qcommon
import regen
import gen_sqlite
import sqlite_run
import sqlparse

B = ["my", "pg", "sl"]
FUNC_MAP = {"GREATEST": "MAX", "LEAST": "MIN", "CHAR_LENGTH": "LENGTH", "RAND": "RANDOM"}
GROUPS = {}


def gen_cases(ctx):
    rng = ctx.rng
    g = gen_sqlite.SG(rng, portable=True)
    n = 900 if ctx.quick else 45000
    lines = []
    for k in range(n):
        q, ordered = g.statement()
        for b in B:
            line = "stmt %s %s" % (b, q)
            GROUPS[line] = (k, ordered)
            lines.append(line)
    ctx.cov["distribution"] = {"portable_statements": n}
    return lines


def transliterate(toks):
    """engine tokens of a MySQL / Postgres rendering -> SQLite text, changing nothing but lexical
    spelling: identifier quotes, literal syntax, set-operation parentheses, function names"""
    out = []
    i, n = 0, len(toks)
    drop_close = []   # stack of parenthesis depths whose closing paren must be dropped
    depth = 0
    while i < n:
        k, v = toks[i]
        if k == "I":
            out.append('"%s"' % v.replace('"', '""'))
        elif k == "S":
            out.append("'%s'" % v.replace("'", "''"))
        elif k == "Y":
            out.append("x'%s'" % (v if v != "-" else ""))
        elif k == "W":
            out.append(FUNC_MAP.get(v, v))
            # set operation operand in parentheses -> bare (SQLite form)
            if v in ("UNION", "INTERSECT", "EXCEPT"):
                j = i + 1
                if j < n and toks[j] == ("W", "ALL"):
                    out.append("ALL")
                    j += 1
                if j < n and toks[j] == ("C", "("):
                    depth += 1
                    drop_close.append(depth)
                    i = j + 1
                    continue
                i = j
                continue
        elif k == "C" and v == "(":
            depth += 1
            out.append("(")
        elif k == "C" and v == ")":
            if drop_close and drop_close[-1] == depth:
                drop_close.pop()
            else:
                out.append(")")
            depth -= 1
        else:
            out.append(v)
        i += 1
    return " ".join(out)


def batch_oracle(ctx, lines, impl):
    verdicts = [None] * len(lines)
    pairs = []
    for c, o in zip(lines, impl):
        f = qcommon.split_out(o)
        if f is not None:
            pairs.append((c.split(" ")[1], f[0]))
    toks = qcommon.etok_many(ctx, pairs)
    groups = {}
    for i, (c, o) in enumerate(zip(lines, impl)):
        if c in GROUPS:
            groups.setdefault(GROUPS[c][0], {})[c.split(" ")[1]] = (i, o)
    compared = 0
    for k, g in groups.items():
        if len(g) != 3:
            continue
        res = {}
        ordered = GROUPS[lines[g["sl"][0]]][1]
        bad = False
        for b in B:
            i, o = g[b]
            f = qcommon.split_out(o)
            if f is None:
                verdicts[i] = "a statement of the portable subset did not render on %s: %s" % (b, o[:60])
                bad = True
                break
            if b == "sl":
                sql = unhexs(f[0])
            else:
                try:
                    sql = transliterate(sqlparse.toks_of(toks[(b, f[0])]))
                except sqlparse.ParseError:
                    verdicts[i] = "the %s rendering is not lexable" % b
                    bad = True
                    break
            res[b] = (sql, sqlite_run.run(sql, ordered=ordered))
        if bad:
            continue
        ref = res["sl"][1]
        if ref[0] != "ok":
            continue   # C07's subject
        compared += 1
        for b in ("my", "pg"):
            r = res[b][1]
            if r != ref:
                i = g[b][0]
                verdicts[i] = ("the %s rendering, transliterated token by token (%r), behaves differently on sqlite3 from the "
                               "SQLite rendering: %r vs %r" % (b, res[b][0][:300], r[1:], ref[1:]))
    ctx.cov["oracle_statement_triples_executed"] = compared
    return verdicts


def run(ctx):
    return vlib.standard_flow(
        ctx, "fa", gen_cases, batch_oracle=batch_oracle, describe=qcommon.describe,
        regen=lambda c: regen.regen_exprtables(c),
        nontrivial=lambda c: c.count("(") > 12,
        rule="schema-aware builder programs restricted to the portable feature subset (no RETURNING, upsert expressions, "
             "UPDATE..FROM, RIGHT/FULL joins, GREATEST/LEAST, dialect operators) rendered on the three backends; the MySQL "
             "and Postgres inline renderings are transliterated token by token (identifier quotes, literal syntax, "
             "set-operation parentheses, function names) and all three are executed on sqlite3: rows and table contents "
             "must be identical; MySQL's NULLS FIRST/LAST emulation thereby runs against SQLite's native form")


def replay(path):
    obj = json.load(open(path))
    ctx = vlib.Ctx("C09", "quick")
    ctx.build("fa", model=True)
    case = obj["case"]
    i, m = ctx.run_both([case], "replay")
    print("case:", case)
    print("impl :", qcommon.readable(i[0]))
    print("model:", qcommon.readable(m[0]))
    print("correspondence:", "ok" if i[0] == m[0] else "DIFFERS", "| recorded verdict:", obj.get("verdict"))
    return 1 if i[0] != m[0] or obj.get("verdict") else 0
