"""C17 — escape_string / unescape_string are inverse on every backend."""
import vlib
from vlib import hexs, unhexs
import gens

ALPHA = ["\\", "'", '"', "\0", "\b", "\t", "\x1a", "\n", "\r", "0", "b", "t", "z", "n", "r", "a", "é"]
BACKENDS = ["my", "pg", "sl"]


def mine_literals():
    """string and char literals of the source files that implement EscapeBuilder (Rust escapes decoded)"""
    import glob
    import re
    out = set()
    esc = {"n": "\n", "r": "\r", "t": "\t", "0": "\0", "\\": "\\", "'": "'", '"': '"'}

    def unesc(body):
        def rep(m):
            x = m.group(1)
            if x in esc:
                return esc[x]
            if x.startswith("x"):
                return chr(int(x[1:], 16))
            if x.startswith("u{"):
                return chr(int(x[2:-1], 16))
            return x
        return re.sub(r"\\(x[0-9a-fA-F]{2}|u\{[0-9a-fA-F]+\}|.)", rep, body)
    for f in glob.glob("/repo/src/backend/*.rs") + glob.glob("/repo/src/backend/*/*.rs"):
        src = open(f, encoding="utf-8").read()
        if "EscapeBuilder" not in src:
            continue
        for m in re.finditer(r'"((?:[^"\\\n]|\\.)*)"', src):
            out.add(unesc(m.group(1)))
        for m in re.finditer(r"'((?:[^'\\\n]|\\.)+)'", src):
            t = unesc(m.group(1))
            if len(t) <= 2:
                out.add(t)
    return sorted(x for x in out if 0 < len(x) <= 40 and "{" not in x)


def gen_cases(ctx):
    lines = []
    maxlen = 3 if ctx.quick else 4
    for s in gens.shortlex(ALPHA, maxlen):
        for b in BACKENDS:
            lines.append("esc %s %s" % (b, hexs(s)))
    # a dictionary mined from the CURRENT source: every string / char literal of the files that implement
    # EscapeBuilder, alone, between quotes and joined in pairs (an escaper that splices a marker text into its output
    # is ambiguous exactly on strings that contain the marker)
    mined = mine_literals()
    dict_cases = set()
    for d in mined:
        for s in (d, "'" + d + "'", "a" + d + "b", d + d, d.replace("'", "")):
            dict_cases.add(s)
    short = [d for d in mined if len(d) <= 4][:40]
    for d1 in short:
        for d2 in short:
            dict_cases.add(d1 + d2)
    for s in sorted(dict_cases):
        for b in BACKENDS:
            lines.append("esc %s %s" % (b, hexs(s)))
    ctx.cov["mined_literals"] = len(mined)
    n = 3000 if ctx.quick else 60000
    for _ in range(n):
        s = gens.rand_string(ctx.rng, 16)
        lines.append("esc %s %s" % (ctx.rng.choice(BACKENDS), hexs(s)))
    ctx.cov["distribution"] = {"exhaustive_alphabet": [hex(ord(c)) for c in ALPHA], "exhaustive_maxlen": maxlen,
                               "random_unicode": n}
    return lines


def oracle(case, out):
    # the identity itself, on the implementation's own output
    _, b, h = case.split(" ")
    f = out.split(" ")
    if len(f) != 3:
        return "implementation did not produce a result: %s" % out
    if f[1] != h:
        return "unescape(escape(s)) = %s differs from s = %s" % (f[1], h)
    return None


def describe(case):
    _, b, h = case.split(" ")
    return "escape_string/unescape_string backend=%s s=%r" % (b, unhexs(h))


def extra(ctx, failures):
    # in-process exhaustive enumeration on the implementation with the oracle (no model involved)
    maxlen = 5 if ctx.quick else 6
    alpha = ",".join("%x" % ord(c) for c in ALPHA)
    rc, out = vlib.sh([ctx.harness, "--enum", "esc", str(maxlen), alpha], timeout=3000)
    last = out.strip().splitlines()[-1] if out.strip() else ""
    ctx.log("in-process enumeration:", last)
    ctx.cov["exhaustive"] = True
    ctx.cov["impl_exhaustive_enumeration"] = {"alphabet": alpha, "maxlen": maxlen, "result": last}
    if not last.startswith("ENUM") or not last.endswith("fails=0"):
        for l in out.splitlines():
            if l.startswith("FAIL"):
                h = l.split(" ")[2]
                for b in BACKENDS:
                    case = "esc %s %s" % (b, h)
                    o = ctx.run_impl([case], "replay")[0]
                    f = oracle(case, o)
                    if f:
                        failures.append((case, o, f))
        if not failures:
            failures.append(("enum", out[-500:], "in-process enumeration failed"))


def run(ctx):
    return vlib.standard_flow(
        ctx, "base", gen_cases, oracle=oracle, nontrivial=lambda c: any(x in c for x in ("5c", "27", "22", "0a", "1a", "00")),
        describe=describe, extra=extra,
        rule="all strings over the escape-relevant alphabet up to the stated length x 3 backends, plus random "
             "Unicode strings; non-trivial = contains at least one character that escaping rewrites")


def replay(path):
    import json
    obj = json.load(open(path))
    ctx = vlib.Ctx("C17", "quick")
    ctx.build("base", model=True)
    case = obj["case"]
    i, m = ctx.run_both([case], "replay")
    print("case:", describe(case))
    print("impl :", i[0])
    print("model:", m[0])
    f = oracle(case, i[0])
    print("oracle:", f or "ok")
    return 1 if f else 0
